------------------------------- MODULE Capture -------------------------------
(***************************************************************************)
(* X04 (extension): the capture-file front end.                            *)
(*                                                                         *)
(* A classic pcap file is a 24-octet file header followed by records; a   *)
(* record is a 16-octet header (seconds, fraction, captured length,        *)
(* original length) followed by `captured length` octets.  The first four  *)
(* octets say in which byte order every header field is written and        *)
(* whether the fraction counts micro- or nanoseconds.                      *)
(*                                                                         *)
(* What `analyze_pcap` of each analyzer must do with a file, as a state    *)
(* machine (one action per thing the front end does):                      *)
(*   Open     read the file header; refuse (return an error) if it is not  *)
(*            a pcap file header;                                          *)
(*   Deliver  read the next record and hand its octets to the analyzer --  *)
(*            whatever the byte order, the precision, the time stamps,     *)
(*            the declared link type, the snapshot length;                 *)
(*   Stop     at the end of the file, or at the first record that cannot   *)
(*            be read (cut short, or with header fields that contradict    *)
(*            one another): a reader of a sequential file cannot find the  *)
(*            next record behind one it cannot read, so the analysis ENDS  *)
(*            there -- it returns to its caller.                           *)
(* `pos` only grows and the file is finite, so every behaviour ends        *)
(* (Terminates, checked by TLC with weak fairness on Next); the frames     *)
(* delivered are a prefix of the records' data that contains every record  *)
(* before the first unreadable one (DeliveredIsPrefix).  The deviation     *)
(* DX4_retry_unreadable is what the code did: on a read error it asks the  *)
(* reader again, which has not moved.                                      *)
(***************************************************************************)
EXTENDS CaptureFile

\* ---- the front end as a state machine over one file
CONSTANTS Hdr, Recs, Cut, HeaderOk, Devs
VARIABLES st, pos, delivered, reads
vars == <<st, pos, delivered, reads>>
Size == 24 + Len(RecsBytes(Hdr, Recs)) - Cut
Init == st = "closed" /\ pos = 1 /\ delivered = <<>> /\ reads = 0
Open == st = "closed" /\ st' = (IF HeaderOk /\ Size >= 24 THEN "open" ELSE "refused") /\ UNCHANGED <<pos, delivered, reads>>
Deliver == st = "open" /\ pos <= Len(Recs) /\ Readable(Hdr, Recs, Size, pos)
           /\ delivered' = Append(delivered, pos) /\ pos' = pos + 1 /\ reads' = reads + 1 /\ UNCHANGED st
AtEnd == IF pos > Len(Recs) THEN TRUE ELSE Offsets(Hdr, Recs, 24)[pos] >= Size
Unreadable == IF pos > Len(Recs) THEN FALSE ELSE ~Readable(Hdr, Recs, Size, pos)
Stop == st = "open" /\ (IF AtEnd THEN TRUE ELSE Unreadable) /\ "DX4_retry_unreadable" \notin Devs
        /\ st' = "returned" /\ UNCHANGED <<pos, delivered, reads>>
\* the code before the repair: the end of the file ends the analysis, an unreadable record is asked for again
StopAtEndOnly == st = "open" /\ AtEnd /\ "DX4_retry_unreadable" \in Devs /\ st' = "returned" /\ UNCHANGED <<pos, delivered, reads>>
Retry == st = "open" /\ ~AtEnd /\ Unreadable /\ "DX4_retry_unreadable" \in Devs
         /\ reads' = (IF reads < 3 THEN reads + 1 ELSE reads) /\ UNCHANGED <<st, pos, delivered>>
Next == Open \/ Deliver \/ Stop \/ StopAtEndOnly \/ Retry
Spec == Init /\ [][Next]_vars /\ WF_vars(Next)

TypeOk == st \in {"closed", "open", "refused", "returned"} /\ pos \in 1..(Len(Recs) + 1) /\ reads \in 0..(Len(Recs) + 3)
\* what has been handed to the analyzer is a prefix of the records, and it never runs past the first unreadable one
DeliveredIsPrefix == delivered = [i \in 1..Len(delivered) |-> i] /\ Len(delivered) <= Certain(Hdr, Recs, Size)
\* when the analysis has returned, every record before the first unreadable one has been delivered
CompleteWhenReturned == st = "returned" => Len(delivered) = Certain(Hdr, Recs, Size)
\* the analysis returns
Terminates == <>(st \in {"refused", "returned"})
=============================================================================
