------------------------------- MODULE MC_C07 -------------------------------
(***************************************************************************)
(* C07: every order-preserving interleaving of the scripts of 2-3          *)
(* connections on one analyzer instance (TLC explores them all).           *)
(* Invariant NonInterference: each connection's outputs equal its outputs  *)
(* when run alone.  IOEnv.VERIF_DEV = "D07_shared_hpack" switches to one   *)
(* shared table (must violate the invariant).  At the end of every         *)
(* behaviour the schedule is printed for replay into the real analyzers.   *)
(* IOEnv.VERIF_LENS gives the number of packets of each real connection    *)
(* for schedule generation (scripts are then plain).                       *)
(***************************************************************************)
EXTENDS Analyzer, Http2, Json, IOUtils, TLC, SequencesExt

ResetOnSuccess == IOEnv.VERIF_DEV = "D07_reset_on_success"      \* one decoder, emptied only after a block that decoded
Shared == IOEnv.VERIF_DEV = "D07_shared_hpack" \/ ResetOnSuccess
Mode == IOEnv.VERIF_MODE          \* "model" (abstract scripts) | "sched" (schedules for the lengths in VERIF_LENS)

P(o) == [k |-> "plain", out |-> o]
ModelScripts == <<
  <<P("synA"), [k |-> "ins", e |-> "x-secret: alice"], [k |-> "ref"]>>,          \* A: inserts, then references its own entry
  <<P("synB"), [k |-> "ref"]>>,                                                  \* B: bare reference - undecodable on its own
  <<[k |-> "zero"], P("dataC")>>,                                                \* C: table size update to 0
  <<[k |-> "zerofail"]>>,                                                        \* D: sets the size to 0, then an invalid index
  <<[k |-> "insfail", e |-> "x-leak: mallory"]>>                                 \* E: inserts, then an invalid index
>>
LensStr == IOEnv.VERIF_LENS
\* lengths "a,b,c" (single digits)
Lens == LET n == (Len(LensStr) + 1) \div 2 IN [i \in 1..n |-> atoi(SubSeq(LensStr, 2 * i - 1, 2 * i - 1))]
Scripts == IF Mode = "model" THEN ModelScripts ELSE [c \in 1..Len(Lens) |-> [i \in 1..Lens[c] |-> P(<<c, i>>)]]
NC == Len(Scripts)

VARIABLES pos, tabs, shared, outs, sched
vars == <<pos, tabs, shared, outs, sched>>
Init == pos = [c \in 1..NC |-> 0] /\ tabs = [c \in 1..NC |-> Fresh] /\ shared = Fresh /\ outs = [c \in 1..NC |-> <<>>] /\ sched = <<>>
Packet(c) ==
  /\ pos[c] < Len(Scripts[c])
  /\ LET r == StepOn(Scripts[c][pos[c] + 1], IF Shared THEN shared ELSE tabs[c]) IN
       /\ outs' = [outs EXCEPT ![c] = Append(@, r.out)]
       /\ IF Shared THEN shared' = (IF ResetOnSuccess /\ ~Fails(Scripts[c][pos[c] + 1], shared) THEN Fresh ELSE r.t) /\ UNCHANGED tabs ELSE tabs' = [tabs EXCEPT ![c] = r.t] /\ UNCHANGED shared
  /\ pos' = [pos EXCEPT ![c] = @ + 1] /\ sched' = Append(sched, c)
Next == \E c \in 1..NC : Packet(c)
Spec == Init /\ [][Next]_vars

Done == \A c \in 1..NC : pos[c] = Len(Scripts[c])
NonInterference == \A c \in 1..NC : outs[c] = SubSeq(Alone(Scripts[c], Fresh), 1, pos[c])
Emit == (Done /\ Mode = "sched") => PrintT("REPLAY " \o ToJson([sched |-> sched]))
Inv == NonInterference /\ Emit

\* ---- real HTTP/2 connections for the replay (client stream bytes after the TCP handshake)
Fd(n, v, rep) == F(n, v, rep, FALSE, FALSE, FALSE)
Pseudo == <<F(":method", "GET", "idx", TRUE, FALSE, FALSE), F(":scheme", "https", "idx", TRUE, FALSE, FALSE), F(":path", "/", "idx", TRUE, FALSE, FALSE),
            F(":authority", "example.com", "noidx", TRUE, FALSE, FALSE)>>
Std == SettingsFrame(<<[id |-> 1, val |-> <<1, 0>>]>>, FALSE)
Client(blk) == Preface \o Std \o HeaderFrames(EncodeBlock(blk, EmptyDyn).bytes, 1, Plain)
\* "raw" block: references dynamic index 62 without having inserted anything (0xbe = indexed field 62)
RawRef == Preface \o Std \o HeaderFrames(EncodeFields(Pseudo, EmptyDyn).bytes \o <<190>>, 1, Plain)
H2Conns == [
  ins_ref |-> Client([updates |-> <<>>, fields |-> Pseudo \o <<Fd("x-secret", "alice-token", "inc"), Fd("x-secret", "alice-token", "idx"), Fd("user-agent", "agent-a", "inc")>>]),
  bare_ref |-> RawRef,
  zero_then_ins |-> Client([updates |-> <<0>>, fields |-> Pseudo \o <<Fd("x-b", "bob", "noidx")>>]),
  zero_fail |-> Preface \o Std \o HeaderFrames(<<32>> \o EncodeFields(Pseudo, EmptyDyn).bytes \o <<254>>, 1, Plain),
  ins_fail |-> Preface \o Std \o HeaderFrames(EncodeFields(Pseudo \o <<Fd("x-leak", "mallory", "inc")>>, EmptyDyn).bytes \o <<254>>, 1, Plain),
  legit |-> Client([updates |-> <<>>, fields |-> Pseudo \o <<Fd("x-own", "mine", "inc"), Fd("x-own", "mine", "idx"), Fd("user-agent", "agent-d", "noidx")>>])]
ASSUME (Mode # "conns") \/ PrintT("STAT " \o ToJson(H2Conns))
=============================================================================
