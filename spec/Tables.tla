------------------------------- MODULE Tables -------------------------------
(***************************************************************************)
(* The bounded flow tables of the analyzers (ttl_cache::TtlCache used as a *)
(* capacity-bounded map; real-time expiry is not modelled) and the way the *)
(* TLS and HTTP packet paths use them.  Extension X02, beyond the listed   *)
(* properties: what happens AT and BEYOND the configured capacity (C07 and *)
(* C11 stop at "within the capacity").                                     *)
(*                                                                         *)
(* A table is a sequence of [k |-> key, v |-> value], oldest insertion     *)
(* first.  Insert puts the pair at the back (replacing an existing key)    *)
(* and, if the table is then longer than the capacity, drops the FRONT     *)
(* element -- which is the new element itself when the capacity is 0.      *)
(***************************************************************************)
EXTENDS Integers, Sequences, FiniteSets

Has(t, k) == \E i \in 1..Len(t) : t[i].k = k
Get(t, k) == t[CHOOSE i \in 1..Len(t) : t[i].k = k].v
Remove(t, k) == SelectSeq(t, LAMBDA e : e.k # k)
Put(t, k, v) == [i \in 1..Len(t) |-> IF t[i].k = k THEN [k |-> k, v |-> v] ELSE t[i]]     \* in place (get_mut)
Insert(t, k, v, cap) ==
  LET t1 == Append(Remove(t, k), [k |-> k, v |-> v])
  IN IF Len(t1) > cap THEN Tail(t1) ELSE t1

-----------------------------------------------------------------------------
(* TLS packet path (huginn-net-tls process.rs).  Key: the directed 4-tuple, *)
(* here <<conn, dir>>.  Segment kinds:                                      *)
(*   "h1" first part of a ClientHello (looks like TLS, incomplete)          *)
(*   "h2" the rest of it (does not look like TLS on its own)                *)
(*   "H"  a whole ClientHello          "S"  a whole ServerHello record      *)
(* Returns [t, out] with out in {"none", "some", "err"}.                    *)
TlsStep(t, key, kind, cap) ==
  IF Has(t, key)
  THEN CASE kind = "h2" -> [t |-> Remove(t, key), out |-> "some"]                 \* completes: reported, forgotten
         [] kind = "h1" -> [t |-> t, out |-> "none"]                              \* (not generated: a second first part)
         [] OTHER       -> [t |-> t, out |-> "none"]
  ELSE IF kind = "h2" THEN [t |-> t, out |-> "none"]                              \* no flow and not TLS-looking: ignored
  ELSE LET t1 == Insert(t, key, "part", cap) IN
       IF ~Has(t1, key) THEN [t |-> t1, out |-> "err"]                            \* capacity 0: the new entry is dropped at once
       ELSE CASE kind = "h1" -> [t |-> t1, out |-> "none"]
              [] kind = "H"  -> [t |-> Remove(t1, key), out |-> "some"]
              [] kind = "S"  -> [t |-> Remove(t1, key), out |-> "none"]           \* not a ClientHello: reader reset, flow forgotten

-----------------------------------------------------------------------------
(* HTTP packet path (huginn-net-http http_process.rs).  One entry per      *)
(* connection, stored under the key of the packet that created it; value   *)
(* [init : "c"|"s" (who the flow takes for the client), cp, sp : BOOLEAN].  *)
(* Packet kinds: "syn" (c->s), "synack" (s->c), "req" (c->s, a complete     *)
(* request), "resp" (s->c, a complete response).                           *)
HttpStep(t, conn, kind, cap) ==
  LET src == IF kind \in {"syn", "req"} THEN "c" ELSE "s"
      hasSyn == kind \in {"syn", "synack"}
  IN IF ~Has(t, conn)
     THEN IF hasSyn THEN [t |-> Insert(t, conn, [init |-> src, cp |-> FALSE, sp |-> FALSE], cap), out |-> "none"]
          ELSE [t |-> t, out |-> "none"]
     ELSE IF hasSyn THEN [t |-> t, out |-> "none"]                                 \* no payload: nothing to do
     ELSE LET f == Get(t, conn)
              asClient == src = f.init
              isReq == kind = "req"
              \* a request is only ever parsed as a request, a response as a response
              rep == IF asClient THEN (~f.cp /\ isReq) ELSE (~f.sp /\ ~isReq)
              f2 == IF rep THEN (IF asClient THEN [f EXCEPT !.cp = TRUE] ELSE [f EXCEPT !.sp = TRUE]) ELSE f
              t2 == IF f2.cp /\ f2.sp THEN Remove(t, conn) ELSE Put(t, conn, f2)
          IN [t |-> t2, out |-> IF rep THEN (IF isReq THEN "req" ELSE "resp") ELSE "none"]
=============================================================================
