------------------------------- MODULE TV_C17 -------------------------------
(***************************************************************************)
(* C17, incremental extractor: one row per (stream, partition into chunks):*)
(* ends, sidx, fps (from MC_C17), cs (chunk lengths), outs (per chunk: <<>> *)
(* or <<fingerprint>> as returned by add_bytes), final (get_fingerprint     *)
(* afterwards).  Accepted iff outs is what Akamai!Incremental assigns.     *)
(***************************************************************************)
EXTENDS Akamai, Json, IOUtils, TLC

Rows == ndJsonDeserialize(IOEnv.TRACE)
Shards == 16
VARIABLES shard, phase
vars == <<shard, phase>>
\* the chunk that fires ends inside a header block whose HEADERS frame is complete but whose CONTINUATION is not:
\* whether the partial block contributes pseudo-headers is not fixed by the statement; only the position of the report is judged
RECURSIVE CumAt(_, _)
CumAt(cs, i) == IF i = 0 THEN 0 ELSE cs[i] + CumAt(cs, i - 1)
Ambiguous(r, want) ==
  \E i \in 1..Len(want) : Len(want[i]) > 0 /\ \E k \in 1..Len(r.ends) : r.firsts[k] < r.ends[k] /\ r.firsts[k] <= CumAt(r.cs, i) /\ CumAt(r.cs, i) < r.ends[k]
Shape(outs) == [i \in 1..Len(outs) |-> Len(outs[i])]
RowOk(r) ==
  LET want == Incremental(r.ends, r.sidx, r.fps, r.cs)
      reported == SelectSeq(want, LAMBDA x : Len(x) > 0)
  IN \/ (r.outs = want /\ r.final = (IF Len(reported) = 0 THEN <<>> ELSE reported[1]))
     \/ (Ambiguous(r, want) /\ Shape(r.outs) = Shape(want) /\ r.final = SelectSeq(r.outs, LAMBDA x : Len(x) > 0)[1])
     \/ PrintT("BAD " \o ToJson([id |-> r.id, want |-> want, got |-> r.outs, final |-> r.final]))
Init == shard \in 0..(Shards - 1) /\ phase = 0
Next == phase = 0 /\ phase' = 1 /\ UNCHANGED shard
Inv == phase = 1 => \A i \in 1..Len(Rows) : (i % Shards = shard) => RowOk(Rows[i])
Spec == Init /\ [][Next]_vars
=============================================================================
