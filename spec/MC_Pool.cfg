SPECIFICATION Spec
INVARIANT AtMostOnce
INVARIANT DroppedNever
INVARIANT QueuedOnce
INVARIANT EveryOutcome
INVARIANT CountersAgree
INVARIANT ValidIndex
INVARIANT SequentialEquivalence
PROPERTY Termination
CHECK_DEADLOCK FALSE
