----------------------------- MODULE CaptureFile -----------------------------
(***************************************************************************)
(* The classic pcap file format (octets of a file from its fields) and     *)
(* which of its records a sequential reader can read.  Used by Capture     *)
(* (the front end as a state machine) and by MC_X04 (generated files).     *)
(***************************************************************************)
EXTENDS Naturals, Sequences, FiniteSets, TLC

Rep(b, n) == [i \in 1..n |-> b]
\* ---- serialisation.  32-bit values are pairs <<high 16 bits, low 16 bits>> (TLC's integers are 32-bit signed)
U16(order, n) == IF order = "le" THEN <<n % 256, n \div 256>> ELSE <<n \div 256, n % 256>>
U32(order, p) == IF order = "le" THEN U16("le", p[2]) \o U16("le", p[1]) ELSE U16("be", p[1]) \o U16("be", p[2])
W(n) == <<n \div 65536, n % 65536>>                      \* a natural below 2^31 as such a pair
MagicBytes(order, prec) ==
  LET be == IF prec = "us" THEN <<161, 178, 195, 212>> ELSE <<161, 178, 60, 77>>
  IN IF order = "be" THEN be ELSE <<be[4], be[3], be[2], be[1]>>
\* h: [order, prec, zone, sigfigs, snaplen (pair), linktype]
HeaderBytes(h) == MagicBytes(h.order, h.prec) \o U16(h.order, 2) \o U16(h.order, 4) \o U32(h.order, h.zone) \o U32(h.order, h.sigfigs) \o U32(h.order, h.snaplen) \o U32(h.order, W(h.linktype))
\* r: [sec (pair), frac (pair), incl (pair), orig (pair), data]
RecBytes(h, r) == U32(h.order, r.sec) \o U32(h.order, r.frac) \o U32(h.order, r.incl) \o U32(h.order, r.orig) \o r.data
RECURSIVE RecsBytes(_, _)
RecsBytes(h, rs) == IF Len(rs) = 0 THEN <<>> ELSE RecBytes(h, Head(rs)) \o RecsBytes(h, Tail(rs))
\* the file: header, records, and `cut` octets missing at the end
FileBytes(h, rs, cut) == LET all == HeaderBytes(h) \o RecsBytes(h, rs) IN SubSeq(all, 1, Len(all) - cut)

\* ---- which records a reader can read
Val(p) == p[1] * 65536 + p[2]                                \* only used on values below 2^31
Less(p, q) == p[1] < q[1] \/ (p[1] = q[1] /\ p[2] < q[2])     \* order on pairs
FracLimit(prec) == IF prec = "us" THEN <<15, 16960>> ELSE <<15258, 51712>>      \* 10^6, 10^9
WellFormed(h, r) == ~Less(h.snaplen, r.incl) /\ ~Less(r.orig, r.incl) /\ Less(r.frac, FracLimit(h.prec)) /\ Val(r.incl) = Len(r.data)
RECURSIVE Offsets(_, _, _)
Offsets(h, rs, at) == IF Len(rs) = 0 THEN <<>> ELSE <<at>> \o Offsets(h, Tail(rs), at + 16 + Len(Head(rs).data))
\* record i is wholly inside a file of `size` octets
Inside(h, rs, size, i) == Offsets(h, rs, 24)[i] + 16 + Len(rs[i].data) <= size
Readable(h, rs, size, i) == WellFormed(h, rs[i]) /\ Inside(h, rs, size, i)
\* number of records before the first one that cannot be read
RECURSIVE FirstBad(_, _, _, _)
FirstBad(h, rs, size, i) == IF i > Len(rs) THEN i ELSE IF Readable(h, rs, size, i) THEN FirstBad(h, rs, size, i + 1) ELSE i
Certain(h, rs, size) == FirstBad(h, rs, size, 1) - 1

=============================================================================
