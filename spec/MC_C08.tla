------------------------------- MODULE MC_C08 -------------------------------
(***************************************************************************)
(* C08, engine A: the reassembly machine explored by TLC over every        *)
(* ordered partition of an abstract client stream into segments (first     *)
(* segment >= 5 bytes), for the stream shapes: hello alone, hello + tail,  *)
(* hello + following handshake record, handshake record then hello.        *)
(* Invariants: exactly one result per ClientHello, on the segment that     *)
(* completes it, nothing before, nothing for other records or the tail.    *)
(***************************************************************************)
EXTENDS TlsReasm, TLC, FiniteSets

Shapes == <<
  [recs |-> <<[n |-> 10, kind |-> "hello"]>>, tail |-> 0],
  [recs |-> <<[n |-> 10, kind |-> "hello"]>>, tail |-> 3],
  [recs |-> <<[n |-> 10, kind |-> "hello"], [n |-> 7, kind |-> "handshake"]>>, tail |-> 0],
  [recs |-> <<[n |-> 7, kind |-> "handshake"]>>, tail |-> 2],
  [recs |-> <<[n |-> 8, kind |-> "appdata"], [n |-> 10, kind |-> "hello"]>>, tail |-> 0]
>>
RECURSIVE Total(_)
Total(recs) == IF Len(recs) = 0 THEN 0 ELSE recs[1].n + Total(Tail(recs))

VARIABLES shape, st, outs, segs
vars == <<shape, st, outs, segs>>
Size == Total(Shapes[shape].recs) + Shapes[shape].tail

Init == shape \in 1..Len(Shapes) /\ st = Init0 /\ outs = <<>> /\ segs = <<>>
Segment(n) ==
  /\ st.pos + n <= Size
  /\ (st.pos = 0 => n >= 5)
  /\ LET r == Step(Shapes[shape].recs, st, n, {}) IN st' = r.st /\ outs' = Append(outs, r.out)
  /\ segs' = Append(segs, n) /\ UNCHANGED shape
Next == \E n \in 1..15 : Segment(n)
Spec == Init /\ [][Next]_vars

Done == st.pos = Size
Recs == Shapes[shape].recs
Hellos == {k \in 1..Len(Recs) : Recs[k].kind = "hello" /\ (k = 1 \/ shape = 5)}
\* position (segment index) at which the cumulative length first covers record k, counted from the first segment at or after its start
RECURSIVE Cum(_, _)
Cum(s, i) == IF i = 0 THEN 0 ELSE s[i] + Cum(s, i - 1)
AtMostOnce == \A k \in 1..Len(Recs) : Cardinality({i \in 1..Len(outs) : outs[i] = k}) <= 1
OnlyHellos == \A i \in 1..Len(outs) : outs[i] # 0 => Recs[outs[i]].kind = "hello"
NotBeforeComplete == \A i \in 1..Len(outs) : outs[i] # 0 => Cum(segs, i) >= StartOf(Recs, outs[i]) + Recs[outs[i]].n
\* a hello whose first byte begins a segment of >= 5 bytes is reported exactly on the completing segment
ExactlyOnceWhenAligned ==
  Done => \A k \in Hellos :
     (\E i \in 1..Len(segs) : Cum(segs, i - 1) = StartOf(Recs, k) /\ segs[i] >= 5 /\
         \* no earlier record swallowed the connection
         (k = 1 \/ Recs[1].kind = "appdata"))
     => \E i \in 1..Len(outs) : outs[i] = k /\ Cum(segs, i) >= StartOf(Recs, k) + Recs[k].n /\ Cum(segs, i - 1) < StartOf(Recs, k) + Recs[k].n
Inv == AtMostOnce /\ OnlyHellos /\ NotBeforeComplete /\ ExactlyOnceWhenAligned
=============================================================================
