------------------------------- MODULE Hpack --------------------------------
(***************************************************************************)
(* HPACK (RFC 7541) *encoder*: a plan says, per header field, which        *)
(* representation to use; Encode renders the header block.  By RFC 7541    *)
(* the header list a block denotes is the plan's list, so no decoder is    *)
(* written here.  Properties C16, C07, C17.                                *)
(* field == [name, value : STRING (printable ASCII),                       *)
(*           rep : "idx" | "inc" | "noidx" | "never",                      *)
(*           nidx : BOOLEAN (refer to the name by index when possible),    *)
(*           hn, hv : BOOLEAN (Huffman-code the name / value literal)]     *)
(* dyn == dynamic table as the encoder sees it, newest first (index 62).   *)
(***************************************************************************)
EXTENDS Bytes, HpackTables

AsciiSet == {Ascii[i] : i \in 1..Len(Ascii)}
CodeOf == [c \in AsciiSet |-> 31 + (CHOOSE i \in 1..Len(Ascii) : Ascii[i] = c)]
StrBytes(s) == [k \in 1..Len(s) |-> CodeOf[SubSeq(s, k, k)]]

Pow2(n) == CASE n = 0 -> 1 [] n = 1 -> 2 [] n = 2 -> 4 [] n = 3 -> 8 [] n = 4 -> 16 [] n = 5 -> 32 [] n = 6 -> 64 [] n = 7 -> 128 [] n = 8 -> 256

RECURSIVE VarInt(_)
VarInt(n) == IF n < 128 THEN <<n>> ELSE <<128 + (n % 128)>> \o VarInt(n \div 128)
\* integer n with an N-bit prefix; top carries the pattern bits above the prefix
HInt(n, N, top) == IF n < Pow2(N) - 1 THEN <<top + n>> ELSE <<top + Pow2(N) - 1>> \o VarInt(n - (Pow2(N) - 1))

\* bits of code c of length l, most significant first
RECURSIVE BitsOf(_, _)
BitsOf(c, l) == IF l = 0 THEN <<>> ELSE BitsOf(c \div 2, l - 1) \o <<c % 2>>
RECURSIVE HuffBits(_)
HuffBits(bs) == IF Len(bs) = 0 THEN <<>> ELSE BitsOf(HuffCode[bs[1] + 1][1], HuffCode[bs[1] + 1][2]) \o HuffBits(Tail(bs))
RECURSIVE Pack(_)
Pack(bits) == IF Len(bits) = 0 THEN <<>>
              ELSE <<bits[1] * 128 + bits[2] * 64 + bits[3] * 32 + bits[4] * 16 + bits[5] * 8 + bits[6] * 4 + bits[7] * 2 + bits[8]>> \o Pack(SubSeq(bits, 9, Len(bits)))
Huffman(bs) == LET bits == HuffBits(bs) IN Pack(bits \o Rep(1, (8 - (Len(bits) % 8)) % 8))      \* padded with the EOS prefix (ones)

HStr(s, huff) == IF huff THEN LET hb == Huffman(StrBytes(s)) IN HInt(Len(hb), 7, 128) \o hb
                 ELSE HInt(Len(s), 7, 0) \o StrBytes(s)

\* table lookups: 0 if absent
Table(dyn) == StaticTable \o dyn
FullIdx(name, value, dyn) == LET t == Table(dyn) IN
  IF \E i \in 1..Len(t) : t[i].name = name /\ t[i].value = value
  THEN CHOOSE i \in 1..Len(t) : t[i].name = name /\ t[i].value = value /\ \A j \in 1..(i - 1) : ~(t[j].name = name /\ t[j].value = value)
  ELSE 0
NameIdx(name, dyn) == LET t == Table(dyn) IN
  IF \E i \in 1..Len(t) : t[i].name = name
  THEN CHOOSE i \in 1..Len(t) : t[i].name = name /\ \A j \in 1..(i - 1) : t[j].name # name
  ELSE 0

\* The dynamic table with its size limit: [tab : Seq(entry) newest first, cap : Nat] (RFC 7541 section 4)
EntrySize(e) == Len(e.name) + Len(e.value) + 32
RECURSIVE TabSize(_)
TabSize(t) == IF Len(t) = 0 THEN 0 ELSE EntrySize(t[1]) + TabSize(Tail(t))
RECURSIVE Evict(_, _)
Evict(t, cap) == IF TabSize(t) <= cap THEN t ELSE Evict(SubSeq(t, 1, Len(t) - 1), cap)
Insert(d, e) == [d EXCEPT !.tab = Evict(<<e>> \o d.tab, d.cap)]
EmptyDyn == [tab |-> <<>>, cap |-> 4096]

EncodeField(f, d) ==
  LET dyn == d.tab
      full == FullIdx(f.name, f.value, dyn)
      ni == IF f.nidx THEN NameIdx(f.name, dyn) ELSE 0
      rep == IF f.rep = "idx" /\ full = 0 THEN "inc" ELSE f.rep
      lit(N, top) == (IF ni > 0 THEN HInt(ni, N, top) ELSE <<top>> \o HStr(f.name, f.hn)) \o HStr(f.value, f.hv)
  IN CASE rep = "idx"   -> [bytes |-> HInt(full, 7, 128), dyn |-> d]
       [] rep = "inc"   -> [bytes |-> lit(6, 64), dyn |-> Insert(d, [name |-> f.name, value |-> f.value])]
       [] rep = "noidx" -> [bytes |-> lit(4, 0), dyn |-> d]
       [] rep = "never" -> [bytes |-> lit(4, 16), dyn |-> d]

RECURSIVE EncodeFields(_, _)
EncodeFields(fs, d) ==
  IF Len(fs) = 0 THEN [bytes |-> <<>>, dyn |-> d]
  ELSE LET a == EncodeField(fs[1], d)
           b == EncodeFields(Tail(fs), a.dyn)
       IN [bytes |-> a.bytes \o b.bytes, dyn |-> b.dyn]

\* dynamic table size updates at the start of a block: 001xxxxx
RECURSIVE Updates(_, _)
Updates(us, d) ==
  IF Len(us) = 0 THEN [bytes |-> <<>>, dyn |-> d]
  ELSE LET r == Updates(Tail(us), [tab |-> Evict(d.tab, us[1]), cap |-> us[1]]) IN [bytes |-> HInt(us[1], 5, 32) \o r.bytes, dyn |-> r.dyn]

\* block == [updates : Seq(Nat), fields : Seq(field)]
EncodeBlock(blk, d) ==
  LET u == Updates(blk.updates, d)
      f == EncodeFields(blk.fields, u.dyn)
  IN [bytes |-> u.bytes \o f.bytes, dyn |-> f.dyn]

ListOf(blk) == [i \in 1..Len(blk.fields) |-> [name |-> blk.fields[i].name, value |-> blk.fields[i].value]]
F(name, value, rep, nidx, hn, hv) == [name |-> name, value |-> value, rep |-> rep, nidx |-> nidx, hn |-> hn, hv |-> hv]
=============================================================================
