------------------------------- MODULE MC_C19 -------------------------------
(***************************************************************************)
(* C19, engine B: scenarios of timestamped segments on one connection,     *)
(* rendered to frames, with the set of acceptable outputs per segment      *)
(* computed by the Uptime machine (exact arithmetic; ties accepted either  *)
(* way; nothing demanded of backward movement).                            *)
(* Families (IOEnv.VERIF_FAM): freq (every rate x interval x timestamp     *)
(* base, three segments), both (client and server interleaved), bad        *)
(* (out-of-bounds second segment, then a good third one), back (backward). *)
(***************************************************************************)
EXTENDS Uptime, TcpExtract, Json, IOUtils, TLC, SequencesExt

Fam == IOEnv.VERIF_FAM
Stride == atoi(IOEnv.VERIF_STRIDE)
Offset == atoi(IOEnv.VERIF_OFFSET) % Stride
Shards == 16
VARIABLES shard, phase
vars == <<shard, phase>>
T0 == 1000000

Bytes4(p) == <<p[1] \div 256, p[1] % 256, p[2] \div 256, p[2] % 256>>
\* segment: [ep |-> "c"|"s", syn, ack : BOOLEAN, ts : pair, t : ms]
SegHdr(s, hiports, ver) ==
  LET base == BaseHdr(ver)
      Src == IF ver = 4 THEN Src4 ELSE Src6
      Dst == IF ver = 4 THEN Dst4 ELSE Dst6
      cport == s.cp
      sport == IF hiports THEN 8080 ELSE s.sp
      fl == (IF s.syn THEN SYN ELSE 0) + (IF s.ack THEN ACK ELSE 0) + s.xfl
      ol == [opts |-> <<[k |-> "nop"], [k |-> "nop"], [k |-> "ts", val |-> Bytes4(s.ts), ecr |-> Zero4]>>, trail |-> <<>>]
  IN WithOpts([base EXCEPT !.src = IF s.ep = "c" THEN Src ELSE Dst, !.dst = IF s.ep = "c" THEN Dst ELSE Src,
                           !.sport = IF s.ep = "c" THEN cport ELSE sport, !.dport = IF s.ep = "c" THEN sport ELSE cport,
                           !.flags = fl, !.ack = IF s.ack THEN <<0, 0, 0, 9>> ELSE Zero4], OptArea(ol))

\* run the machine over a scenario: possible entries per endpoint, acceptable outputs per step
RECURSIVE Run(_, _, _, _)
Run(segs, i, cur, acc) ==
  IF i > Len(segs) THEN acc
  ELSE LET s == segs[i]
           rs == UNION {Observe(e, s.ts, s.t, {}) : e \in cur[s.ep]}
           role == RoleOf(s.syn, s.ack, IF s.ep = "c" THEN s.cp ELSE s.sp, IF s.ep = "c" THEN s.sp ELSE s.cp)
       IN Run(segs, i + 1, [cur EXCEPT ![s.ep] = {r.next : r \in rs}],
              Append(acc, [role |-> role, outs |-> SetToSeq({r.out : r \in rs}),
                           devouts |-> SetToSeq({r.out : r \in UNION {Observe(e, s.ts, s.t, {"D19_guess_returns_base"}) : e \in cur[s.ep]}})]))
Expect(segs) == Run(segs, 1, [ep \in {"c", "s"} |-> {None}], <<>>)

Seg(ep, syn, ack, ts, t) == [ep |-> ep, syn |-> syn, ack |-> ack, ts |-> ts, t |-> t, cp |-> 40000, sp |-> 80, xfl |-> 0]
SegP(ep, ts, t, cp, sp) == [ep |-> ep, syn |-> FALSE, ack |-> TRUE, ts |-> ts, t |-> t, cp |-> cp, sp |-> sp, xfl |-> 0]
\* handshake segments with further flag bits (ECN setup: SYN|ECE|CWR, SYN|ACK|ECE; PSH; URG) between arbitrary ports
SegH(ep, syn, ack, x, ts, t, cp, sp) == [ep |-> ep, syn |-> syn, ack |-> ack, ts |-> ts, t |-> t, cp |-> cp, sp |-> sp, xfl |-> x]

DmsS == <<24, 25, 26, 99, 100, 101, 1000, 10000, 599999, 600000, 600001>>
BaseS == <<P(0, 1000), P(32767, 65000), P(65535, 65000), P(12345, 54321)>>
Freqs == [i \in 1..1504 |-> IF i <= 1500 THEN i ELSE <<0, 1501, 1600, 3000>>[i - 1500]]
NFreq == Len(Freqs) * Len(DmsS) * Len(BaseS)
FreqCase(k) ==
  LET f == Freqs[(k % Len(Freqs)) + 1]  r == k \div Len(Freqs)
      dms == DmsS[(r % Len(DmsS)) + 1]
      b == BaseS[(r \div Len(DmsS)) + 1]
      n == IF dms >= 600000 /\ f > 1500 THEN 1000000 ELSE (f * (dms \div 8)) \div 125      \* floor(f dms / 1000) without overflow
  IN <<Seg("c", TRUE, FALSE, b, T0), Seg("c", FALSE, TRUE, Add32(b, n), T0 + dms), Seg("c", FALSE, TRUE, Add32(b, 2 * n), T0 + 2 * dms)>>

\* client and server interleaved: independent rates and bases
NBoth == 40 * 40
RateS == <<1, 2, 5, 9, 10, 11, 13, 48, 50, 51, 64, 95, 99, 100, 101, 125, 190, 200, 248, 250, 275, 300, 450, 499, 500, 501, 650, 850, 899, 900,
           950, 997, 1000, 1050, 1100, 1101, 1300, 1400, 1499, 1500>>
BothCase(k) ==
  LET fc == RateS[(k % 40) + 1]  fs == RateS[(k \div 40) + 1]
      bc == P(100 + (k % 7), 4242)  bs == P(65535, 65535 - (k % 50))
  IN <<Seg("c", TRUE, FALSE, bc, T0), Seg("s", TRUE, TRUE, bs, T0 + 7), Seg("c", FALSE, TRUE, Add32(bc, fc * 2), T0 + 2000),
       Seg("s", FALSE, TRUE, Add32(bs, fs * 3), T0 + 3007), Seg("c", FALSE, TRUE, Add32(bc, fc * 5), T0 + 5000),
       Seg("s", FALSE, TRUE, Add32(bs, fs * 6), T0 + 6007)>>

\* an out-of-bounds second segment withdraws the endpoint: a later good segment reports nothing
BadSecond == <<[dms |-> 10, n |-> 10], [dms |-> 24, n |-> 24], [dms |-> 700000, n |-> 70000], [dms |-> 1000, n |-> 4], [dms |-> 1000, n |-> 0],
               [dms |-> 1000, n |-> 1501], [dms |-> 2000, n |-> 1], [dms |-> 100, n |-> 100000]>>
NBad == Len(BadSecond) * 4
BadCase(k) ==
  LET b == BadSecond[(k % Len(BadSecond)) + 1]
      base == BaseS[(k \div Len(BadSecond)) + 1]
  IN <<Seg("c", TRUE, FALSE, base, T0), Seg("c", FALSE, TRUE, Add32(base, b.n), T0 + b.dms),
       Seg("c", FALSE, TRUE, Add32(base, 3000), T0 + 30000), Seg("s", TRUE, TRUE, P(5, 5), T0 + 30001), Seg("s", FALSE, TRUE, P(5, 5 + 1000), T0 + 40001)>>

NBack == 12
BackCase(k) ==
  <<Seg("c", TRUE, FALSE, P(1000, 1000), T0), Seg("c", FALSE, TRUE, Sub32(P(1000, 1000), P(0, 3 + 100 * k)), T0 + 50 + 10 * k),
    Seg("c", FALSE, TRUE, P(1000, 3000), T0 + 2000)>>

\* role: segments outside the handshake, attributed by the well-known-port rule (sender port above 1024 and receiver port at most
\* 1024 = client), with ports on both sides of the boundary; both directions produce an estimate
PortPairs == <<<<40000, 1024>>, <<40000, 1023>>, <<40000, 1025>>, <<1025, 1024>>, <<1024, 1024>>, <<1024, 80>>, <<1025, 80>>, <<65535, 1>>, <<1025, 1025>>, <<80, 40000>>>>
NRole == Len(PortPairs)
RoleCase(k) ==
  LET pp == PortPairs[k + 1] IN
  <<SegP("c", P(10, 1000), T0, pp[1], pp[2]), SegP("s", P(20, 500), T0 + 5, pp[1], pp[2]), SegP("c", P(10, 1200), T0 + 200, pp[1], pp[2]),
    SegP("s", P(20, 600), T0 + 1005, pp[1], pp[2])>>

\* hsflags: the handshake flags decide the role whatever else is set and whatever the ports would suggest (a SYN+ACK with ECE from
\* port 2049 to the reserved port 799 is still the server's; retransmitted 1 s later it yields the server's estimate)
XFlags == <<0, 64, 192, 8, 32, 72>>
HsPorts == <<<<799, 2049>>, <<40000, 80>>, <<80, 40000>>, <<1024, 1025>>>>
NHs == Len(XFlags) * Len(HsPorts)
HsCase(k) ==
  LET x == XFlags[(k % Len(XFlags)) + 1]  pp == HsPorts[(k \div Len(XFlags)) + 1] IN
  <<SegH("c", TRUE, FALSE, x, P(10, 1000), T0, pp[1], pp[2]), SegH("s", TRUE, TRUE, x % 128, P(20, 500), T0 + 5, pp[1], pp[2]),
    SegH("c", TRUE, FALSE, x, P(10, 1100), T0 + 1000, pp[1], pp[2]), SegH("s", TRUE, TRUE, x % 128, P(20, 1500), T0 + 1005, pp[1], pp[2])>>

\* zero: the first sample of an endpoint carries the timestamp value 0 (a clock that just started or wrapped; stacks that send 0 in
\* the SYN) or 1 or the largest value; a steady clock afterwards is estimated like any other
ZeroFirst == <<P(0, 0), P(0, 1), P(65535, 65535), P(65535, 65534)>>
ZeroRates == <<<<1000, 1000>>, <<500, 50>>, <<2000, 500>>>>       \* <<interval ms, ticks>>: 1000 Hz, 100 Hz, 250 Hz
NZero == Len(ZeroFirst) * Len(ZeroRates)
ZeroCase(k) ==
  LET f == ZeroFirst[(k % Len(ZeroFirst)) + 1]  r == ZeroRates[(k \div Len(ZeroFirst)) + 1] IN
  <<Seg("c", TRUE, FALSE, f, T0), Seg("s", TRUE, TRUE, f, T0 + 3), Seg("c", FALSE, TRUE, Add32(f, r[2]), T0 + r[1]), Seg("s", FALSE, TRUE, Add32(f, r[2]), T0 + 3 + r[1])>>

CaseOf(k) == CASE Fam = "zero" -> ZeroCase(k) [] Fam = "hsflags" -> HsCase(k) [] Fam = "role" -> RoleCase(k) [] Fam = "freq" -> FreqCase(k) [] Fam = "both" -> BothCase(k) [] Fam = "bad" -> BadCase(k) [] Fam = "back" -> BackCase(k)
NOf == CASE Fam = "zero" -> NZero [] Fam = "hsflags" -> NHs [] Fam = "role" -> NRole [] Fam = "freq" -> NFreq [] Fam = "both" -> NBoth [] Fam = "bad" -> NBad [] Fam = "back" -> NBack

\* the address family does not matter to the estimate, its attribution or its label: odd cases travel over IPv6
VerOf(k) == IF k % 2 = 1 THEN 6 ELSE 4
Emit(k) ==
  LET segs == CaseOf(k) IN
  PrintT("REPLAY " \o ToJson([fam |-> Fam, k |-> k, segs |-> segs, clock |-> [i \in 1..Len(segs) |-> segs[i].t],
                               frames |-> [i \in 1..Len(segs) |-> Frame("eth", SegHdr(segs[i], FALSE, VerOf(k)))], exp |-> Expect(segs)]))

Mine(s) == {j \in 0..((NOf - 1 - Offset) \div Stride) : j % Shards = s}
Init == shard \in 0..(Shards - 1) /\ phase = 0
Next == phase = 0 /\ phase' = 1 /\ UNCHANGED shard
Inv == phase = 1 => \A j \in Mine(shard) : Emit(j * Stride + Offset)
ASSUME PrintT("STAT " \o ToJson([fam |-> Fam, n |-> NOf, stride |-> Stride]))

\* arithmetic laws of the definition: rounded values lie on the documented grid and are monotone
ASSUME \A f \in 1..1500 : LET g == RoundRanges(f) IN g >= 1 /\ (f <= 10 => g = f) /\ (f > 10 /\ f <= 50 => g % 5 = 0) /\ (f > 50 /\ f <= 100 => g % 10 = 0)
                                                  /\ (f > 100 /\ f <= 500 => g % 50 = 0) /\ (f > 500 => g % 100 = 0)
ASSUME \A f \in 1..1499 : RoundRanges(f) <= RoundRanges(f + 1)
ASSUME UptimeOf(P(65535, 65535), 1000) = [days |-> 49, hours |-> 17, min |-> 2, mod |-> 49, freq |-> 1000]
ASSUME Grid(200, 1000, FALSE, TRUE, {}) = 200 /\ Grid(200, 1000, FALSE, TRUE, {"D19_guess_returns_base"}) = 100
Spec == Init /\ [][Next]_vars
=============================================================================
