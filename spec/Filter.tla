------------------------------- MODULE Filter -------------------------------
(***************************************************************************)
(* Packet filters of huginn-net (PortFilter / IpFilter / SubnetFilter /    *)
(* FilterConfig) as their documentation defines them.  Property C14.       *)
(*                                                                         *)
(* address  == [v |-> 4|6, b |-> <<bytes>>]     (4 or 16 bytes)            *)
(* range    == [lo, hi, incl]  incl: closed [lo,hi] (public field form)    *)
(*                             ~incl: half-open [lo,hi) (builder form)     *)
(* portf    == [sp, dp : Seq(port), sr, dr : Seq(range), any : BOOLEAN]    *)
(* ipf      == [addrs : Seq(address), cs, cd : BOOLEAN]                    *)
(* subf     == [nets : Seq([a |-> address, p |-> prefix]), cs, cd]         *)
(* cfg      == [deny : BOOLEAN, port, ip, sub : <<>> (none) or <<f>>]      *)
(*                                                                         *)
(* D is the set of named deviations (see DESIGN.md section 4).             *)
(***************************************************************************)
EXTENDS Naturals, Sequences, FiniteSets

Pow2(n) == CASE n = 0 -> 1 [] n = 1 -> 2 [] n = 2 -> 4 [] n = 3 -> 8 [] n = 4 -> 16
             [] n = 5 -> 32 [] n = 6 -> 64 [] n = 7 -> 128 [] n = 8 -> 256

InRange(p, r, D) ==
  IF r.incl THEN r.lo <= p /\ p <= r.hi
  ELSE IF "D14_empty_range_zero" \in D /\ r.hi = 0
       THEN p = 0 /\ r.lo = 0              \* code: (start, end.saturating_sub(1)) = (0,0)
       ELSE r.lo <= p /\ p < r.hi

InPorts(p, ports, ranges, D) ==
  \/ \E i \in 1..Len(ports) : ports[i] = p
  \/ \E i \in 1..Len(ranges) : InRange(p, ranges[i], D)

PortMatch(f, sp, dp, D) ==
  IF f.any
  THEN \/ InPorts(sp, f.sp \o f.dp, f.sr \o f.dr, D)
       \/ InPorts(dp, f.sp \o f.dp, f.sr \o f.dr, D)
  ELSE /\ (Len(f.sp) = 0 /\ Len(f.sr) = 0) \/ InPorts(sp, f.sp, f.sr, D)
       /\ (Len(f.dp) = 0 /\ Len(f.dr) = 0) \/ InPorts(dp, f.dp, f.dr, D)

Listed(a, addrs) == \E i \in 1..Len(addrs) : addrs[i] = a

IpMatch(f, sa, da) == (f.cs /\ Listed(sa, f.addrs)) \/ (f.cd /\ Listed(da, f.addrs))

\* address a lies inside the block of prefix length n.p that contains n.a
InCidr(a, n) ==
  /\ a.v = n.a.v
  /\ LET full == n.p \div 8
         rem  == n.p % 8
     IN /\ \A i \in 1..full : a.b[i] = n.a.b[i]
        /\ rem = 0 \/ (a.b[full + 1] \div Pow2(8 - rem)) = (n.a.b[full + 1] \div Pow2(8 - rem))

InNets(a, nets) == \E i \in 1..Len(nets) : InCidr(a, nets[i])

SubnetMatch(f, sa, da) == (f.cs /\ InNets(sa, f.nets)) \/ (f.cd /\ InNets(da, f.nets))

\* ep == [sa, da, sp, dp]
SubResults(cfg, ep, D) ==
     (IF Len(cfg.port) = 0 THEN <<>> ELSE <<PortMatch(cfg.port[1], ep.sp, ep.dp, D)>>)
  \o (IF Len(cfg.ip)   = 0 THEN <<>> ELSE <<IpMatch(cfg.ip[1], ep.sa, ep.da)>>)
  \o (IF Len(cfg.sub)  = 0 THEN <<>> ELSE <<SubnetMatch(cfg.sub[1], ep.sa, ep.da)>>)

ShouldProcess(cfg, ep, D) ==
  LET rs  == SubResults(cfg, ep, D)
      all == \A i \in 1..Len(rs) : rs[i]
  IN IF Len(rs) = 0 THEN TRUE
     ELSE IF cfg.deny THEN ~all ELSE all

-----------------------------------------------------------------------------
(* Laws of the documented rule (checked by TLC on the bounded vocabulary,   *)
(* MC_C14).                                                                 *)
LawNoFilter(cfg, ep) ==
  (Len(cfg.port) = 0 /\ Len(cfg.ip) = 0 /\ Len(cfg.sub) = 0) => ShouldProcess(cfg, ep, {})

LawDenyIsNegation(cfg, ep) ==
  (Len(cfg.port) + Len(cfg.ip) + Len(cfg.sub) > 0) =>
     ShouldProcess([cfg EXCEPT !.deny = TRUE], ep, {}) = ~ShouldProcess([cfg EXCEPT !.deny = FALSE], ep, {})

\* allow mode is a conjunction: removing a sub-filter never rejects more
LawAllowConjunction(cfg, ep) ==
  (~cfg.deny /\ ShouldProcess(cfg, ep, {})) =>
     /\ ShouldProcess([cfg EXCEPT !.port = <<>>], ep, {})
     /\ ShouldProcess([cfg EXCEPT !.ip = <<>>], ep, {})
     /\ ShouldProcess([cfg EXCEPT !.sub = <<>>], ep, {})

\* a prefix of length 0 contains every address of its family; a full-length prefix only itself
LawCidrExtremes(a, n) ==
  /\ (n.p = 0 /\ a.v = n.a.v) => InCidr(a, n)
  /\ (n.p = (IF n.a.v = 4 THEN 32 ELSE 128)) => (InCidr(a, n) <=> a = n.a)
=============================================================================
