CONSTANTS
  Hdr <- HdrV
  Recs <- RecsV
  Cut <- CutV
  HeaderOk <- HeaderOkV
  Devs <- DevsV
SPECIFICATION Spec
INVARIANTS TypeOk DeliveredIsPrefix CompleteWhenReturned
PROPERTY Terminates
CHECK_DEADLOCK FALSE
