------------------------------- MODULE Uptime -------------------------------
(***************************************************************************)
(* TCP timestamp tracker and uptime arithmetic (huginn-net-tcp uptime.rs). *)
(* Property C19.  Exact integer/rational arithmetic; a u32 is a pair       *)
(* <<hi16, lo16>> because TLC integers are 32-bit signed.                  *)
(*                                                                         *)
(* entry == [k |-> "none"] | [k |-> "ref", ts |-> pair, t |-> ms]          *)
(*        | [k |-> "bad"]                                                  *)
(* Observe(entry, ts, t) == [entry' , out] with out = <<>> | <<uptime>>    *)
(***************************************************************************)
EXTENDS Integers, Sequences, FiniteSets

MinWait == 25
MaxWait == 600000
MinTsDiff == 5
Grace == 100
MaxHz == 1500
MinHz == 1

\* ---- u32 pairs
P(hi, lo) == <<hi, lo>>
Sub32(a, b) ==        \* (a - b) mod 2^32
  LET lo == a[2] - b[2]
      borrow == IF lo < 0 THEN 1 ELSE 0
      hi == a[1] - b[1] - borrow
  IN <<(hi + 65536) % 65536, (lo + 65536) % 65536>>
Add32(a, n) ==        \* (a + n) mod 2^32 for 0 <= n < 2^31
  LET lo == a[2] + (n % 65536)
      hi == a[1] + (n \div 65536) + (lo \div 65536)
  IN <<hi % 65536, lo % 65536>>
Not32(a) == <<65535 - a[1], 65535 - a[2]>>
Small(a) == a[1] < 16384                      \* fits comfortably in a TLC integer
ToInt(a) == a[1] * 65536 + a[2]
DivPair(a, d) ==      \* floor(a / d) as a pair, for 1 <= d < 32768
  LET q1 == a[1] \div d
      r1 == a[1] % d
      t  == r1 * 65536 + a[2]
  IN <<q1, t \div d>>
ModPair(a, d) == ((a[1] % d) * 65536 + a[2]) % d

\* ---- frequency grid (the rounding the source documents)
RoundRanges(f) ==     \* f = floor of the raw rate
  IF f = 0 THEN 1
  ELSE IF f <= 10 THEN f
  ELSE IF f <= 50 THEN ((f + 3) \div 5) * 5
  ELSE IF f <= 100 THEN ((f + 7) \div 10) * 10
  ELSE IF f <= 500 THEN ((f + 33) \div 50) * 50
  ELSE ((f + 67) \div 100) * 100

Abs(x) == IF x < 0 THEN -x ELSE x
\* raw rate = 1000 * dts / dms.  strict: tolerance comparisons with <, else <=; up: halves round up
Grid(dts, dms, strict, up, D) ==
  LET num2 == 2 * dts + dms                  \* round(raw/1000) = floor((2 dts + dms) / (2 dms))
      k1 == IF up \/ (num2 % (2 * dms)) # 0 THEN num2 \div (2 * dms) ELSE (num2 \div (2 * dms)) - 1
      d1 == 10 * Abs(dts - k1 * dms)         \* |raw/k1 - 1000| <= 100  <=>  10 |dts - k1 dms| <= k1 dms
      ok1 == k1 >= 1 /\ (IF strict THEN d1 < k1 * dms ELSE d1 <= k1 * dms)
      num20 == 20 * dts + dms                \* round(raw/100) = floor((20 dts + dms) / (2 dms))
      k2 == IF up \/ (num20 % (2 * dms)) # 0 THEN num20 \div (2 * dms) ELSE (num20 \div (2 * dms)) - 1
      d2 == Abs(100 * dts - 10 * k2 * dms)   \* |raw/k2 - 100| <= 10  <=>  |100 dts - 10 k2 dms| <= k2 dms
      ok2 == k2 >= 1 /\ (IF strict THEN d2 < k2 * dms ELSE d2 <= k2 * dms)
  IN IF ok1 THEN (IF "D19_guess_returns_base" \in D THEN 1000 ELSE 1000 * k1)
     ELSE IF ok2 THEN (IF "D19_guess_returns_base" \in D THEN 100 ELSE 100 * k2)
     ELSE RoundRanges((1000 * dts) \div dms)

\* every frequency an exact tie may legitimately produce
Grids(dts, dms, D) == {Grid(dts, dms, s, u, D) : s \in BOOLEAN, u \in BOOLEAN}

\* ---- uptime of timestamp ts at frequency f (1 <= f <= 1500)
UptimeOf(ts, f) ==
  LET secs == DivPair(ts, f)
      mins == DivPair(secs, 60)
      hrs  == DivPair(mins, 60)
      days == DivPair(hrs, 24)
      maxs == DivPair(<<65535, 65535>>, f)
      wrap == DivPair(DivPair(DivPair(maxs, 60), 60), 24)
  IN [days |-> ToInt(days), hours |-> ModPair(hrs, 24), min |-> ModPair(mins, 60), mod |-> ToInt(wrap), freq |-> f]

\* ---- one observation against an entry.  Returns the set of acceptable [next, out] pairs.
None == [k |-> "none"]
Bad == [k |-> "bad"]
Ref(ts, t) == [k |-> "ref", ts |-> ts, t |-> t]

Observe(e, ts, t, D) ==
  IF e.k = "none" THEN {[next |-> Ref(ts, t), out |-> <<>>]}
  ELSE IF e.k = "bad" THEN {[next |-> Bad, out |-> <<>>]}                  \* not re-evaluated while the entry lives
  ELSE
    LET dms == IF t >= e.t THEN t - e.t ELSE 0
        dts == Sub32(ts, e.ts)
        backward == dts[1] >= 32768
    IN IF dms < MinWait \/ dms > MaxWait THEN {[next |-> Bad, out |-> <<>>]}
       ELSE IF backward
            THEN \* the statement is silent on timestamps that move backwards: nothing is demanded of the output,
                 \* the entry either stays or is withdrawn
                 {[next |-> Bad, out |-> <<>>], [next |-> e, out |-> <<"any">>]}
       ELSE IF ~Small(dts) \/ ToInt(dts) < MinTsDiff THEN {[next |-> Bad, out |-> <<>>]}
       ELSE LET n == ToInt(dts) IN
            IF n > 900000 THEN {[next |-> Bad, out |-> <<>>]}                 \* > 1500 Hz over <= 600 s (and keeps 1000 n in range)
            ELSE IF 1000 * n < MinHz * dms \/ 1000 * n > MaxHz * dms THEN {[next |-> Bad, out |-> <<>>]}
            ELSE {[next |-> e, out |-> <<UptimeOf(ts, f)>>] : f \in Grids(n, dms, D)}    \* the reference never moves

\* role of a segment (who the estimate is attributed to)
RoleOf(syn, ack, sport, dport) ==
  IF syn /\ ~ack THEN "Client" ELSE IF syn /\ ack THEN "Server"
  ELSE IF sport > 1024 /\ dport <= 1024 THEN "Client" ELSE "Server"
=============================================================================
