------------------------------- MODULE TV_C18b ------------------------------
(***************************************************************************)
(* C18 (accounting under load), implementation -> specification.  Rows:    *)
(* one per stress run of a real pool (several dispatcher threads handing   *)
(* over many frames at once, calls not recorded one by one): the outcomes  *)
(* the dispatch calls returned, counted (queued, dropped, of which the pool *)
(* could not route), the number of packets workers took, and the counters  *)
(* of the statistics call.  Accepted iff the counters are the ones         *)
(* Pool!CountersAgree prescribes for that crate and every queued packet    *)
(* was analysed exactly once.                                              *)
(***************************************************************************)
EXTENDS Integers, Sequences, Json, IOUtils, TLC
Rows == ndJsonDeserialize(IOEnv.TRACE)
RowOk(r) ==
  \/ /\ r.dropped = r.nd
     /\ r.dispatched = (IF r.crate = "tcp" THEN r.nq ELSE r.nq + r.nd - r.unroutable)
     /\ (r.gone \/ r.taken = r.nq)          \* (when the consumer of the results has gone away, workers leave: what is queued then stays)
     /\ r.worker_dropped = r.nd - r.unroutable
  \/ PrintT("BAD " \o ToJson(r))
VARIABLES phase
Init == phase = 0
Next == phase = 0 /\ phase' = 1
Inv == phase = 1 => \A i \in 1..Len(Rows) : RowOk(Rows[i])
Spec == Init /\ [][Next]_phase
=============================================================================
