------------------------------ MODULE P0fVocab ------------------------------
(***************************************************************************)
(* The p0f signature vocabulary as values, and its canonical text.         *)
(*                                                                         *)
(*   ttl    == [k |-> "value"|"dist"|"guess"|"bad", a |-> 0..255, b |-> n] *)
(*   wsize  == [k |-> "mss"|"mtu"|"value"|"mod"|"any", n |-> n]            *)
(*   topt   == [k |-> "eol"|"nop"|"mss"|"ws"|"sok"|"sack"|"ts"|"unk", n]   *)
(*   quirk  == the p0f token itself ("df", "id+", ...)                     *)
(*   tcpsig == [ver |-> "4"|"6"|"*", ittl, olen, mss |-> -1 (wildcard) | n,*)
(*              wsize, wscale |-> -1 | n, olayout : Seq(topt),             *)
(*              quirks : Seq(quirk), pclass |-> "0"|"+"|"*"]               *)
(*   header == [opt : BOOLEAN, name : STRING, val : <<>> | <<STRING>>]     *)
(*   httpsig== [ver |-> "0"|"1"|"2"|"3"|"*", horder, habsent : Seq(header),*)
(*              sw : STRING]                                               *)
(*                                                                         *)
(* Print* is the canonical text.  A parser is right iff printing its       *)
(* result gives the text back, so no TLA+ parser is needed (C06).          *)
(***************************************************************************)
EXTENDS Integers, Sequences, TLC

RECURSIVE Join(_, _)
Join(ss, sep) == IF Len(ss) = 0 THEN ""
                 ELSE IF Len(ss) = 1 THEN ss[1]
                 ELSE ss[1] \o sep \o Join(Tail(ss), sep)

Map(f(_), s) == [i \in 1..Len(s) |-> f(s[i])]

QuirkTokens == <<"df", "id+", "id-", "ecn", "0+", "flow", "seq-", "ack+", "ack-", "uptr+", "urgf+",
                 "pushf+", "ts1-", "ts2+", "opt+", "exws", "bad">>

PrintTtl(t) == CASE t.k = "value" -> ToString(t.a)
                 [] t.k = "dist"  -> ToString(t.a) \o "+" \o ToString(t.b)
                 [] t.k = "guess" -> ToString(t.a) \o "+?"
                 [] t.k = "bad"   -> ToString(t.a) \o "-"

PrintWsize(w) == CASE w.k = "mss"   -> "mss*" \o ToString(w.n)
                   [] w.k = "mtu"   -> "mtu*" \o ToString(w.n)
                   [] w.k = "value" -> ToString(w.n)
                   [] w.k = "mod"   -> "%" \o ToString(w.n)
                   [] w.k = "any"   -> "*"

PrintOpt(o) == CASE o.k = "eol" -> "eol+" \o ToString(o.n)
                 [] o.k = "unk" -> "?" \o ToString(o.n)
                 [] OTHER       -> o.k

Star(n) == IF n < 0 THEN "*" ELSE ToString(n)

PrintTcpSig(s) ==
  s.ver \o ":" \o PrintTtl(s.ittl) \o ":" \o ToString(s.olen) \o ":" \o Star(s.mss) \o ":" \o
  PrintWsize(s.wsize) \o "," \o Star(s.wscale) \o ":" \o Join(Map(PrintOpt, s.olayout), ",") \o ":" \o
  Join(s.quirks, ",") \o ":" \o s.pclass

PrintHeader(h) == (IF h.opt THEN "?" ELSE "") \o h.name \o
                  (IF Len(h.val) = 0 THEN "" ELSE "=[" \o h.val[1] \o "]")

PrintHttpSig(s) ==
  s.ver \o ":" \o Join(Map(PrintHeader, s.horder), ",") \o ":" \o
  Join(Map(PrintHeader, s.habsent), ",") \o ":" \o s.sw

\* label == [ty |-> "s"|"g", class |-> <<>> | <<STRING>>, name, flavor |-> <<>> | <<STRING>>]
PrintLabel(l) == l.ty \o ":" \o (IF Len(l.class) = 0 THEN "!" ELSE l.class[1]) \o ":" \o l.name \o ":" \o
                 (IF Len(l.flavor) = 0 THEN "" ELSE l.flavor[1])

\* constructors
TtlV(a) == [k |-> "value", a |-> a, b |-> 0]
TtlD(a, b) == [k |-> "dist", a |-> a, b |-> b]
TtlG(a) == [k |-> "guess", a |-> a, b |-> 0]
TtlB(a) == [k |-> "bad", a |-> a, b |-> 0]
W(k, n) == [k |-> k, n |-> n]
WAny == [k |-> "any", n |-> 0]
O(k) == [k |-> k, n |-> 0]
OEol(n) == [k |-> "eol", n |-> n]
OUnk(n) == [k |-> "unk", n |-> n]
H(name) == [opt |-> FALSE, name |-> name, val |-> <<>>]
HV(name, v) == [opt |-> FALSE, name |-> name, val |-> <<v>>]
HO(name) == [opt |-> TRUE, name |-> name, val |-> <<>>]
HOV(name, v) == [opt |-> TRUE, name |-> name, val |-> <<v>>]
=============================================================================
