------------------------------- MODULE MC_X04m -------------------------------
(***************************************************************************)
(* Capture.tla model-checked on one file per run (IOEnv.VERIF_SCEN):       *)
(* safety, and termination under weak fairness; with the deviation         *)
(* DX4_retry_unreadable termination must FAIL on every file that has an    *)
(* unreadable record (anti-vacuity, and the defect as found).              *)
(***************************************************************************)
EXTENDS Capture, IOUtils
Scen == IOEnv.VERIF_SCEN
D(n) == Rep(7, n)
R(n) == [sec |-> W(1700), frac |-> W(5), incl |-> W(n), orig |-> W(n), data |-> D(n)]
H == [order |-> "le", prec |-> "us", zone |-> W(0), sigfigs |-> W(0), snaplen |-> W(65535), linktype |-> 1]
HdrV == IF Scen = "be_ns" THEN [H EXCEPT !.order = "be", !.prec = "ns"] ELSE H
RecsV == CASE Scen = "clean" -> <<R(3), R(0), R(5)>>
           [] Scen = "be_ns" -> <<R(3), [R(4) EXCEPT !.frac = <<15258, 51711>>], R(5)>>
           [] Scen = "cut_data" -> <<R(3), R(4), R(5)>>
           [] Scen = "cut_header" -> <<R(3), R(4), R(5)>>
           [] Scen = "bad_middle" -> <<R(3), [R(4) EXCEPT !.orig = W(3)], R(5)>>
           [] Scen = "frac" -> <<[R(3) EXCEPT !.frac = <<15, 16960>>], R(5)>>
           [] Scen = "snap" -> <<R(3), [R(4) EXCEPT !.incl = <<1, 0>>, !.orig = <<1, 0>>]>>
           [] Scen = "empty" -> <<>>
           [] Scen = "nofile" -> <<R(3)>>
CutV == CASE Scen = "cut_data" -> 2 [] Scen = "cut_header" -> 5 + 10 [] OTHER -> 0
HeaderOkV == Scen # "nofile"
DevsV == IF IOEnv.VERIF_DEV = "none" THEN {} ELSE {IOEnv.VERIF_DEV}
=============================================================================
