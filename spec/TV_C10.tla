------------------------------- MODULE TV_C10 -------------------------------
(***************************************************************************)
(* C10: results of a worker pool vs results of the sequential analyzer on  *)
(* the same trace.  Row: seq, par : sequences of [conn, digest] (non-empty *)
(* results in delivery order).  Accepted iff for every connection the      *)
(* pool delivered exactly the sequential results of that connection, in    *)
(* the same order (hence the multisets are equal).                         *)
(***************************************************************************)
EXTENDS Integers, Sequences, FiniteSets, Json, IOUtils, TLC
Rows == ndJsonDeserialize(IOEnv.TRACE)
Shards == 16
VARIABLES shard, phase
vars == <<shard, phase>>
Conns(s) == {s[i].conn : i \in 1..Len(s)}
Of(s, c) == SelectSeq(s, LAMBDA x : x.conn = c)
RowOk(r) ==
  LET bad == {c \in Conns(r.seq) \cup Conns(r.par) : Of(r.seq, c) # Of(r.par, c)} IN
  \/ bad = {}
  \/ PrintT("BAD " \o ToJson([id |-> r.id, conns |-> bad, nseq |-> Len(r.seq), npar |-> Len(r.par)]))
Init == shard \in 0..(Shards - 1) /\ phase = 0
Next == phase = 0 /\ phase' = 1 /\ UNCHANGED shard
Inv == phase = 1 => \A i \in 1..Len(Rows) : (i % Shards = shard) => RowOk(Rows[i])
Spec == Init /\ [][Next]_vars
=============================================================================
