-------------------------------- MODULE Ja4 ---------------------------------
(***************************************************************************)
(* TLS ClientHello -> JA4 (FoxIO specification).  Property C04.            *)
(* hello == [legacy : u16, sid : Seq(byte), ciphers : Seq(u16),            *)
(*           comps : Seq(byte), exts : Seq(ext)]                           *)
(* ext   == [t : u16, k |-> "sni", host : Seq(byte)]                       *)
(*        | [t, k |-> "alpn", protos : Seq(Seq(byte))]                     *)
(*        | [t, k |-> "sv", versions : Seq(u16)]                           *)
(*        | [t, k |-> "sa", algs : Seq(u16)] | [t, k |-> "groups", groups] *)
(*        | [t, k |-> "raw", body : Seq(byte)]                             *)
(* Wire(hello) is the record; the JA4 parts are strings.  SHA-256 is not   *)
(* transcribed: the spec yields what is hashed (b, c) and the empty rule.  *)
(***************************************************************************)
EXTENDS Bytes, SequencesExt, FiniteSets

GreaseVals == {2570, 6682, 10794, 14906, 19018, 23130, 27242, 31354, 35466, 39578, 43690, 47802, 51914, 56026, 60138, 64250}
IsGrease(x) == x \in GreaseVals
NoGrease(s) == SelectSeq(s, LAMBDA x : ~IsGrease(x))

\* ---- wire
V16(xs) == Flatten([i \in 1..Len(xs) |-> U16(xs[i])])
ExtBody(e) ==
  CASE e.k = "sni"    -> U16(Len(e.host) + 3) \o <<0>> \o U16(Len(e.host)) \o e.host
    [] e.k = "alpn"   -> LET ps == Flatten([i \in 1..Len(e.protos) |-> <<Len(e.protos[i])>> \o e.protos[i]]) IN U16(Len(ps)) \o ps
    [] e.k = "sv"     -> <<2 * Len(e.versions)>> \o V16(e.versions)
    [] e.k = "sa"     -> U16(2 * Len(e.algs)) \o V16(e.algs)
    [] e.k = "groups" -> U16(2 * Len(e.groups)) \o V16(e.groups)
    [] e.k = "raw"    -> e.body
ExtWire(e) == U16(e.t) \o U16(Len(ExtBody(e))) \o ExtBody(e)
Random32 == [i \in 1..32 |-> (i * 7) % 256]
HelloBody(h) ==
  LET exts == Flatten([i \in 1..Len(h.exts) |-> ExtWire(h.exts[i])]) IN
  U16(h.legacy) \o Random32 \o <<Len(h.sid)>> \o h.sid \o U16(2 * Len(h.ciphers)) \o V16(h.ciphers)
  \o <<Len(h.comps)>> \o h.comps \o (IF h.noext THEN <<>> ELSE U16(Len(exts)) \o exts)
Handshake(h) == LET b == HelloBody(h) IN <<1, 0>> \o U16(Len(b)) \o b        \* type 1, 24-bit length (< 65536 here)
\* the record layer version (3.0 .. 3.4 all occur in practice; 3.1 is the usual one) is not part of the fingerprint
WireV(h, minor) == LET hs == Handshake(h) IN <<22, 3, minor>> \o U16(Len(hs)) \o hs
Wire(h) == IF "recminor" \in DOMAIN h THEN WireV(h, h.recminor) ELSE WireV(h, 1)

\* ---- JA4
Chr(b) == IF b >= 48 /\ b <= 57 THEN SubSeq("0123456789", b - 47, b - 47)
          ELSE IF b >= 97 /\ b <= 122 THEN SubSeq("abcdefghijklmnopqrstuvwxyz", b - 96, b - 96)
          ELSE IF b >= 65 /\ b <= 90 THEN SubSeq("ABCDEFGHIJKLMNOPQRSTUVWXYZ", b - 64, b - 64)
          ELSE IF b = 46 THEN "." ELSE IF b = 47 THEN "/" ELSE IF b = 45 THEN "-" ELSE IF b = 58 THEN ":" ELSE IF b = 91 THEN "[" ELSE IF b = 93 THEN "]" ELSE IF b = 95 THEN "_" ELSE "?"
RECURSIVE Str(_)
Str(bs) == IF Len(bs) = 0 THEN "" ELSE Chr(bs[1]) \o Str(Tail(bs))

ExtOf(h, k) == SelectSeq(h.exts, LAMBDA e : e.k = k)
ExtTypes(h) == [i \in 1..Len(h.exts) |-> h.exts[i].t]

VerCode(v) == CASE v = 772 -> "13" [] v = 771 -> "12" [] v = 770 -> "11" [] v = 769 -> "10" [] v = 768 -> "s3" [] v = 2 -> "s2" [] OTHER -> "00"
MaxOf(S) == CHOOSE x \in S : \A y \in S : y <= x
Version(h, D) ==
  LET sv == ExtOf(h, "sv") IN
  IF Len(sv) > 0
  THEN (IF "D04_version_presence" \in D THEN "13"                  \* code: 13 whenever the extension is present
        ELSE LET vs == {sv[1].versions[i] : i \in 1..Len(sv[1].versions)} \ GreaseVals IN
             IF vs = {} THEN VerCode(h.legacy) ELSE VerCode(MaxOf(vs)))
  ELSE IF "D04_unknown_12" \in D /\ VerCode(h.legacy) = "00" THEN "12"       \* code: unknown legacy version -> 1.2
  ELSE VerCode(h.legacy)

Two(n) == LET m == IF n > 99 THEN 99 ELSE n IN ToString(m \div 10) \o ToString(m % 10)
Alpn(h) == LET a == ExtOf(h, "alpn") IN IF Len(a) = 0 \/ Len(a[1].protos) = 0 THEN <<>> ELSE a[1].protos[1]
AlpnChars(h) == LET p == Alpn(h) IN IF Len(p) = 0 THEN "00" ELSE Chr(p[1]) \o Chr(p[Len(p)])
HasSni(h) == Len(ExtOf(h, "sni")) > 0

A(h, D) == "t" \o Version(h, D) \o (IF HasSni(h) THEN "d" ELSE "i") \o Two(Len(NoGrease(h.ciphers))) \o Two(Len(NoGrease(ExtTypes(h)))) \o AlpnChars(h)

RECURSIVE JoinHex(_)
JoinHex(xs) == IF Len(xs) = 0 THEN "" ELSE IF Len(xs) = 1 THEN Hex4(xs[1]) ELSE Hex4(xs[1]) \o "," \o JoinHex(Tail(xs))
Sorted(xs) == SortSeq(xs, LAMBDA x, y : x < y)

B(h, sorted) == JoinHex(IF sorted THEN Sorted(NoGrease(h.ciphers)) ELSE NoGrease(h.ciphers))
SigAlgs(h) == LET sa == ExtOf(h, "sa") IN IF Len(sa) = 0 THEN <<>> ELSE NoGrease(sa[1].algs)
C(h, sorted) ==
  LET ets == NoGrease(ExtTypes(h))
      es == IF sorted THEN Sorted(SelectSeq(ets, LAMBDA t : t # 0 /\ t # 16)) ELSE ets
      sa == JoinHex(SigAlgs(h))
  IN IF sa = "" THEN JoinHex(es) ELSE JoinHex(es) \o "_" \o sa

\* what the analyzer must report (hashes are applied by the driver: H(x) = first 12 hex of SHA-256, 000000000000 for "")
Ja4(h, D) == [a |-> A(h, D), b |-> B(h, TRUE), c |-> C(h, TRUE), bo |-> B(h, FALSE), co |-> C(h, FALSE), ver |-> Version(h, D),
              sni |-> IF HasSni(h) THEN <<Str(ExtOf(h, "sni")[1].host)>> ELSE <<>>,
              alpn |-> IF Len(Alpn(h)) = 0 THEN <<>> ELSE <<Str(Alpn(h))>>,
              ciphers |-> NoGrease(h.ciphers), exts |-> NoGrease(ExtTypes(h)), sigalgs |-> SigAlgs(h),
              groups |-> LET g == ExtOf(h, "groups") IN IF Len(g) = 0 THEN <<>> ELSE NoGrease(g[1].groups)]

\* ---- laws of the definition
Perm(xs, p) == [i \in 1..Len(xs) |-> xs[p[i]]]
LawSortedInvariant(h, h2) ==      \* h2: ciphers/extensions of h permuted and/or GREASE inserted
  (B(h, TRUE) = B(h2, TRUE) /\ C(h, TRUE) = C(h2, TRUE) /\ A(h, {}) = A(h2, {}))
=============================================================================
