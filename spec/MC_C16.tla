------------------------------- MODULE MC_C16 -------------------------------
(***************************************************************************)
(* C16: HTTP/2 connection starts (preface, control frames, HEADERS with    *)
(* optional padding / priority / CONTINUATION) for header lists encoded in *)
(* every HPACK representation, with the report Http2!H2Meaning assigns.    *)
(* Families: rep, framing, prefix, dyn, dynsettings, resp, values, special. *)
(***************************************************************************)
EXTENDS Http2, Json, IOUtils, TLC, SequencesExt, FiniteSets

Shards == 16
VARIABLES shard, phase
vars == <<shard, phase>>

\* representation choices per field
Reps == <<[rep |-> "idx", nidx |-> TRUE, hn |-> FALSE, hv |-> FALSE],
          [rep |-> "inc", nidx |-> TRUE, hn |-> FALSE, hv |-> FALSE],
          [rep |-> "inc", nidx |-> FALSE, hn |-> TRUE, hv |-> TRUE],
          [rep |-> "inc", nidx |-> FALSE, hn |-> FALSE, hv |-> FALSE],
          [rep |-> "noidx", nidx |-> TRUE, hn |-> FALSE, hv |-> TRUE],
          [rep |-> "noidx", nidx |-> FALSE, hn |-> FALSE, hv |-> FALSE],
          [rep |-> "never", nidx |-> TRUE, hn |-> FALSE, hv |-> FALSE],
          [rep |-> "never", nidx |-> FALSE, hn |-> TRUE, hv |-> FALSE]>>
NR == Len(Reps)
Fld(e, r) == [name |-> e.name, value |-> e.value, items |-> e.items, rep |-> Reps[r].rep, nidx |-> Reps[r].nidx, hn |-> Reps[r].hn, hv |-> Reps[r].hv]
E(n, v) == [name |-> n, value |-> v, items |-> <<>>]
ELang(items) == [name |-> "accept-language", value |-> LangText(items), items |-> items]
It(tag, q) == [tag |-> tag, q |-> q, sp |-> FALSE]

\* Http2!AsHdr with structured Accept-Language
AsHdr2(e) == IF Len(e.items) > 0 THEN [t |-> "lang", name |-> e.name, ln |-> Lower(e.name), items |-> e.items] ELSE AsHdr(e)
Meaning2(list, isreq) ==
  LET base == H2Meaning(list, isreq, {})
      hs == [i \in 1..Len(SelectSeq(list, LAMBDA e : ~LinePseudo(e.name))) |-> AsHdr2(SelectSeq(list, LAMBDA e : ~LinePseudo(e.name))[i])]
      valued == SelectSeq(hs, LAMBDA h : ~(IsName(h, "accept-language") /\ h.t = "plain" /\ h.value = ""))     \* occurrences without a value say nothing
  IN [base EXCEPT !.ua = base.ua] @@ [lang |-> IF isreq THEN LangOf(valued, {}) ELSE <<>>]

ReqPseudo == <<E(":method", "GET"), E(":scheme", "https"), E(":path", "/index.html"), E(":authority", "example.com")>>
ReqPool == <<E("user-agent", "curl/8.0"), E("accept", "*/*"), E("cache-control", "no-cache"), E("cookie", "a=1; b=2"), E("x-custom", "v1"),
             E("referer", "https://r.example/x?y=z"), E("host", "h.example"), E("accept-encoding", "gzip, deflate")>>
FullReq == ReqPseudo \o <<ReqPool[1], ReqPool[2], ELang(<<It("fr", <<"0.5">>), It("en-US", <<>>)>>), ReqPool[3], ReqPool[4], E("cookie", "c=3"), ReqPool[6], ReqPool[5]>>
RespList == <<E(":status", "200"), E("server", "nginx/1.25"), E("date", "Mon, 01 Jan 2024 00:00:00 GMT"), E("content-type", "text/html"),
              E("content-length", "123"), E("set-cookie", "s=1; Path=/"), E("x-frame-options", "DENY")>>

Block(fields) == [updates |-> <<>>, fields |-> fields]
Conn(isreq, pre, blk, o, post) ==
  LET enc == EncodeBlock(blk, EmptyDyn)
  IN (IF isreq THEN Preface ELSE <<>>) \o pre \o HeaderFrames(enc.bytes, 1, o) \o post
Std == SettingsFrame(<<[id |-> 1, val |-> <<1, 0>>], [id |-> 4, val |-> <<95, 57345>>]>>, FALSE)
Vec(isreq, pre, blk, o, post, note) ==
  [isreq |-> isreq, note |-> note, bytes |-> Conn(isreq, pre, blk, o, post), exp |-> Meaning2([i \in 1..Len(blk.fields) |-> [name |-> blk.fields[i].name, value |-> blk.fields[i].value, items |-> blk.fields[i].items]], isreq), blocklen |-> Len(EncodeBlock(blk, EmptyDyn).bytes)]

\* ---- rep: every representation choice for each of up to 3 regular fields (pseudo-headers indexed / literal alternately)
RepCases ==
  {Vec(TRUE, Std, Block([i \in 1..4 |-> Fld(ReqPseudo[i], ((r1 + i) % NR) + 1)] \o <<Fld(ReqPool[a], r1), Fld(ReqPool[b], r2), Fld(ReqPool[c], r3)>>), Plain, <<>>, "rep") :
      r1 \in 1..NR, r2 \in 1..NR, r3 \in {1, 3, 5, 8}, a \in {1}, b \in {3, 5}, c \in {2, 4}}

\* ---- framing: padding x priority x every CONTINUATION cut of the block
FullBlk == Block([i \in 1..Len(FullReq) |-> Fld(FullReq[i], ((i * 3) % NR) + 1)])
FullLen == Len(EncodeBlock(FullBlk, EmptyDyn).bytes)
Prio1 == [excl |-> TRUE, dep |-> <<0, 3>>, weight |-> 200]
FramingCases ==
  {Vec(TRUE, Std, FullBlk, [pad |-> p, prio |-> pr, cuts |-> <<>>, endstream |-> es], <<>>, "framing") :
      p \in {-1, 0, 1, 7, 255}, pr \in {<<>>, <<Prio1>>}, es \in BOOLEAN}
  \cup {Vec(TRUE, Std, FullBlk, [pad |-> p, prio |-> <<>>, cuts |-> <<c>>, endstream |-> TRUE], <<>>, "continuation") : c \in 1..(FullLen - 1), p \in {-1}}
  \cup {Vec(TRUE, Std, FullBlk, [pad |-> 3, prio |-> <<Prio1>>, cuts |-> <<c, c + d>>, endstream |-> FALSE], DataFrame(1, 10), "continuation2") :
          c \in {1, 2, 17, FullLen - 9}, d \in {1, 5}}

\* ---- prefix: control frames before (and frames after) the HEADERS
PrefixCases ==
  {Vec(TRUE, pre, FullBlk, Plain, post, "prefix") :
      pre \in {<<>>, Std, Std \o WindowUpdate(0, <<239, 1>>), WindowUpdate(0, <<0, 100>>) \o Std, Std \o Ping \o PriorityFrame(3, Prio1) \o PriorityFrame(5, [Prio1 EXCEPT !.excl = FALSE]),
               SettingsFrame(<<>>, FALSE) \o SettingsFrame(<<>>, TRUE), Std \o DataFrame(3, 0)},
      post \in {<<>>, DataFrame(1, 100), WindowUpdate(1, <<0, 5>>) \o Ping}}

\* ---- dyn: dynamic-table references within one block, table size updates
DynCases ==
  {Vec(TRUE, Std, [updates |-> u, fields |-> [i \in 1..4 |-> Fld(ReqPseudo[i], 1)] \o fs], Plain, <<>>, "dyn") :
      u \in {<<>>, <<0>>, <<4096>>, <<0, 4096>>, <<100>>},
      fs \in {<<Fld(E("x-custom", "v1"), 2), Fld(E("x-custom", "v1"), 1)>>,                       \* insert, then reference the new entry (index 62)
              <<Fld(E("x-a", "1"), 4), Fld(E("x-b", "2"), 3), Fld(E("x-a", "1"), 1), Fld(E("x-b", "2"), 1), Fld(E("x-a", "other"), 2)>>,
              <<Fld(E("user-agent", "curl/8.0"), 2), Fld(E("user-agent", "curl/8.0"), 1), Fld(E("accept", "*/*"), 7)>>}}

\* ---- dynsettings: the sender's own SETTINGS_HEADER_TABLE_SIZE (and other settings) do not govern the table its encoder
\* uses for the blocks it sends (RFC 7540 6.5.2: the value limits what the *peer's* encoder may use; the sender's encoder
\* stays at 4096 until the peer says otherwise), so blocks with dynamic references decode the same under any of them
Hts(v) == SettingsFrame(<<[id |-> 1, val |-> v]>>, FALSE)
DynSettingsCases ==
  {Vec(isreq, pre, [updates |-> <<>>, fields |-> (IF isreq THEN [i \in 1..4 |-> Fld(ReqPseudo[i], 1)] ELSE <<Fld(E(":status", "200"), 1)>>) \o fs], Plain, <<>>, "dynsettings") :
      isreq \in BOOLEAN,
      pre \in {Hts(<<0, 0>>), Hts(<<0, 40>>), Hts(<<0, 41>>), Hts(<<0, 4095>>), Hts(<<0, 0>>) \o Hts(<<1, 0>>), SettingsFrame(<<[id |-> 2, val |-> <<0, 0>>], [id |-> 1, val |-> <<0, 1>>], [id |-> 6, val |-> <<0, 10>>]>>, FALSE)},
      fs \in {<<Fld(E("x-custom", "v1"), 2), Fld(E("x-custom", "v1"), 1)>>,
              <<Fld(E("x-a", "1"), 4), Fld(E("x-b", "2"), 3), Fld(E("x-a", "1"), 1), Fld(E("x-b", "2"), 1), Fld(E("x-a", "other"), 2)>>}}

\* ---- respdyn: a server's first bytes need not be a SETTINGS frame for its header block to be decodable on its own: HEADERS at once,
\* or after WINDOW_UPDATE / PING; the block inserts into its own dynamic table and refers to what it inserted
RespDynCases ==
  {Vec(FALSE, pre, [updates |-> u, fields |-> <<Fld(E(":status", "200"), 1)>> \o fs], Plain, <<>>, "respdyn") :
      pre \in {<<>>, WindowUpdate(0, <<0, 100>>), Ping, Ping \o SettingsFrame(<<>>, FALSE)}, u \in {<<>>, <<4096>>},
      fs \in {<<Fld(E("x-custom", "v1"), 2), Fld(E("x-custom", "v1"), 1)>>,
              <<Fld(E("server", "srv/1"), 2), Fld(E("x-a", "1"), 4), Fld(E("server", "srv/1"), 1), Fld(E("x-a", "1"), 1)>>}}

RECURSIVE Chars(_, _)
Chars(c, n) == IF n = 0 THEN "" ELSE c \o Chars(c, n - 1)
\* ---- maxframe: frames whose payload is exactly SETTINGS_MAX_FRAME_SIZE's initial value (16384 octets, legal) or one less:
\* a header block of about 17.5 KiB cut so that the HEADERS frame, or a CONTINUATION frame, or a padded HEADERS frame is full
BigBlk == Block([i \in 1..4 |-> Fld(ReqPseudo[i], 1)] \o [i \in 1..58 |-> Fld(E("x-fill", Chars("m", 290)), 6)])
BigResp == Block(<<Fld(E(":status", "200"), 1)>> \o [i \in 1..58 |-> Fld(E("x-fill", Chars("m", 290)), 6)])
\* given by position (not as a set: normalising a set of records this large costs more than producing them)
NMaxFrame == 8
MaxFrameAt(j) ==
  CASE j = 1 -> Vec(TRUE, Std, BigBlk, [pad |-> -1, prio |-> <<>>, cuts |-> <<16383>>, endstream |-> TRUE], <<>>, "maxframe")
    [] j = 2 -> Vec(TRUE, Std, BigBlk, [pad |-> -1, prio |-> <<>>, cuts |-> <<16384>>, endstream |-> TRUE], <<>>, "maxframe")
    [] j = 3 -> Vec(TRUE, Std, BigBlk, [pad |-> -1, prio |-> <<>>, cuts |-> <<10, 10 + 16383>>, endstream |-> TRUE], <<>>, "maxframe")
    [] j = 4 -> Vec(TRUE, Std, BigBlk, [pad |-> -1, prio |-> <<>>, cuts |-> <<10, 10 + 16384>>, endstream |-> TRUE], <<>>, "maxframe")
    [] j = 5 -> Vec(TRUE, Std, BigBlk, [pad |-> 5, prio |-> <<>>, cuts |-> <<16384 - 6>>, endstream |-> FALSE], <<>>, "maxframe")
    [] j = 6 -> Vec(FALSE, <<>>, BigResp, [pad |-> -1, prio |-> <<>>, cuts |-> <<16384>>, endstream |-> TRUE], <<>>, "maxframe")
    [] j = 7 -> Vec(TRUE, Std \o Frame(11, 0, 0, Rep(7, 16384)), FullBlk, Plain, <<>>, "maxframe")          \* a full-size extension frame (ignored) first
    [] j = 8 -> Vec(FALSE, <<>>, BigResp, [pad |-> 7, prio |-> <<>>, cuts |-> <<16384 - 8>>, endstream |-> TRUE], <<>>, "maxframe")

\* ---- resp
RespCases ==
  {Vec(FALSE, pre, Block([i \in 1..Len(l) |-> Fld(l[i], ((i + r) % NR) + 1)]), o, <<>>, "resp") :
      pre \in {<<>>, SettingsFrame(<<[id |-> 3, val |-> <<0, 100>>]>>, FALSE) \o SettingsFrame(<<>>, TRUE)},
      r \in 1..NR, o \in {Plain, [Plain EXCEPT !.pad = 4], [Plain EXCEPT !.cuts = <<1>>]},
      l \in {RespList, <<E(":status", "404"), E("content-type", "text/plain")>>, <<E(":status", "204")>>, <<E("server", "x"), E(":status", "301"), E("location", "/new")>>}}

\* ---- values
ValueCases ==
  {Vec(TRUE, Std, Block([i \in 1..4 |-> Fld(ReqPseudo[i], 1)] \o <<Fld(E("user-agent", "curl/8.0"), 2), Fld(E(n, v), r)>>), Plain, <<>>, "values") :
      r \in {2, 3, 5, 6}, n \in {"x-v", "accept-charset"},
      v \in {"", "a", Chars("z", 126), Chars("q", 127), Chars("m", 300), "~!@#$%^&*()_+{}|:<>?`-=[];',./ ", "0123456789"}}

\* ---- special: the request headers that are taken out of the ordered list (cookie, referer) or read for a field of their own
\* (user-agent), with empty and ordinary values, in every kind of representation (rep 1 of (referer, "") is the fully indexed
\* static entry 51), once and twice, between ordinary fields
SpecialCases ==
  {Vec(TRUE, Std, Block([i \in 1..4 |-> Fld(ReqPseudo[i], 1)] \o <<Fld(E("accept", "*/*"), 2), Fld(E(n, v), r)>> \o tail), Plain, <<>>, "special") :
      r \in {1, 2, 4, 6}, n \in {"referer", "cookie", "user-agent", "accept-encoding"}, v \in {"", "a=1", "token=YWJjZA==; prefs=lang=en&tz=utc; flag"},
      tail \in {<<Fld(E("x-last", "1"), 4)>>, <<Fld(E("referer", ""), 1), Fld(E("x-last", "1"), 6)>>, <<Fld(E("cookie", ""), 4), Fld(E("referer", "https://r.example/"), 2)>>}}

\* ---- repeated: user-agent / accept-language sent twice, one occurrence without a value (before or after the one that has it),
\* other fields between them
RepeatedCases ==
  {Vec(TRUE, Std, Block([i \in 1..4 |-> Fld(ReqPseudo[i], 1)] \o (IF emptyfirst THEN <<Fld(E(n, ""), r)>> ELSE <<>>) \o <<Fld(IF n = "user-agent" THEN E(n, "Mozilla/5.0 demo") ELSE ELang(<<It("de", <<"0.9">>), It("en", <<>>)>>), 2),
                                                                      Fld(E("accept", "*/*"), 4)>> \o (IF emptyfirst THEN <<>> ELSE <<Fld(E(n, ""), r)>>) \o <<Fld(E("x-last", "1"), 6)>>), Plain, <<>>, "repeated") :
      n \in {"user-agent", "accept-language"}, r \in {2, 4, 6}, emptyfirst \in BOOLEAN}

\* ---- extended CONNECT (RFC 8441): a further colon-named field among the pseudo-headers, in every representation
ConnectCases ==
  {Vec(TRUE, Std, Block(<<Fld(E(":method", "CONNECT"), 3), Fld(E(":protocol", "websocket"), r), Fld(E(":scheme", "https"), 1), Fld(E(":path", "/chat"), 2), Fld(E(":authority", "ws.example"), 2)>>
                         \o <<Fld(E("user-agent", "ws/1.0"), 2), Fld(E("sec-websocket-version", "13"), r2)>> \o tail), Plain, <<>>, "connect") :
      r \in {2, 3, 4, 6, 8}, r2 \in {2, 5}, tail \in {<<>>, <<Fld(E(":protocol", "websocket"), 2)>>}}

\* TLC evaluates every constant definition at start-up, so all families are emitted by one run
Cases == RepCases \cup FramingCases \cup PrefixCases \cup DynCases \cup DynSettingsCases \cup RespCases \cup ValueCases \cup SpecialCases \cup RespDynCases \cup ConnectCases \cup RepeatedCases
CaseSeq == SetToSeq(Cases)
Emit(i) == PrintT("REPLAY " \o ToJson([i |-> i] @@ CaseSeq[i]))
EmitMax(j) == PrintT("REPLAY " \o ToJson([i |-> 100000 + j] @@ MaxFrameAt(j)))
Init == shard \in 0..(Shards - 1) /\ phase = 0
Next == phase = 0 /\ phase' = 1 /\ UNCHANGED shard
Inv == phase = 1 => (\A i \in 1..Len(CaseSeq) : (i % Shards = shard) => Emit(i)) /\ (\A j \in 1..NMaxFrame : ((j + 7) % Shards = shard) => EmitMax(j))
\* laws of the encoder definition
ASSUME HInt(10, 5, 0) = <<10>> /\ HInt(1337, 5, 0) = <<31, 154, 10>> /\ HInt(42, 8, 0) = <<42>>          \* RFC 7541 C.1
ASSUME HStr("www.example.com", TRUE) = <<140, 241, 227, 194, 229, 242, 58, 107, 160, 171, 144, 244, 255>>   \* RFC 7541 C.4.1
ASSUME EncodeBlock(Block(<<F("custom-key", "custom-header", "inc", FALSE, FALSE, FALSE)>>), EmptyDyn).bytes[1] = 64   \* RFC 7541 C.2.1
Spec == Init /\ [][Next]_vars
=============================================================================
