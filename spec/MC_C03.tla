------------------------------- MODULE MC_C03 -------------------------------
(***************************************************************************)
(* C03: bounded, factorised enumeration of TCP/IP headers with the         *)
(* observation TcpExtract assigns.  Families (IOEnv.VERIF_FAM):            *)
(*  hdr4/hdr6: all 256 flag bytes x DF x ID=0 x ECN bits x reserved bit x  *)
(*             flow label x seq/ack/urgent zero-vs-nonzero                 *)
(*  ttl      : all 256 TTLs x version x payload x framing x IHL            *)
(*  opt      : every sequence of <= MaxOpts options from the pool, padded  *)
(*             in every style, on SYN and SYN+ACK                          *)
(* One REPLAY line per header: frame bytes, expected result under the      *)
(* specification and under each combination of recorded deviations that    *)
(* changes it.  Laws of the definition are checked on the way.             *)
(***************************************************************************)
EXTENDS TcpExtract, Json, IOUtils, TLC, SequencesExt

Db == ndJsonDeserialize(IOEnv.SIGS)[1]
Groups == Db.mtu
Fam == IOEnv.VERIF_FAM
Stride == atoi(IOEnv.VERIF_STRIDE)
Offset == atoi(IOEnv.VERIF_OFFSET) % Stride
MaxOpts == atoi(IOEnv.VERIF_MAXOPTS)
Shards == 16
VARIABLES shard, phase
vars == <<shard, phase>>

NZ4 == <<0, 0, 1, 44>>
StdOpts == [opts |-> <<[k |-> "mss", v |-> 1460], [k |-> "sok"], [k |-> "ts", val |-> NZ4, ecr |-> Zero4], [k |-> "nop"], [k |-> "ws", v |-> 7]>>, trail |-> <<>>]
Bit(k, i) == (k \div i) % 2 = 1

\* ---- hdr4: k in 0 .. 256*256-1
NHdr4 == 65536
Hdr4(k) ==
  LET f == k % 256  r == k \div 256 IN
  WithOpts([BaseHdr(4) EXCEPT !.flags = f, !.df = Bit(r, 1), !.ipid = IF Bit(r, 2) THEN 0 ELSE 4660, !.tos = ((r \div 4) % 4) + 8 * ((r \div 4) % 2),
                                !.rf = Bit(r, 16), !.seq = IF Bit(r, 32) THEN Zero4 ELSE NZ4, !.ack = IF Bit(r, 64) THEN Zero4 ELSE NZ4,
                                !.urg = IF Bit(r, 128) THEN 0 ELSE 513], OptArea(StdOpts))
NHdr6 == 16384
Hdr6(k) ==
  LET f == k % 256  r == k \div 256 IN
  WithOpts([BaseHdr(6) EXCEPT !.flags = f, !.flow = IF Bit(r, 1) THEN <<0, 0>> ELSE <<(r % 3) * 5, IF r % 3 = 0 THEN 7 ELSE 0>>, !.tos = ((r \div 2) % 4) + 16 * ((r \div 2) % 2),
                                !.seq = IF Bit(r, 8) THEN Zero4 ELSE NZ4, !.ack = IF Bit(r, 16) THEN Zero4 ELSE NZ4,
                                !.urg = IF Bit(r, 32) THEN 0 ELSE 1], OptArea(StdOpts))

\* ---- ttl: k in 0 .. 256*2*2*3*3-1
Links == <<"eth", "raw", "null">>
Ihls == <<5, 6, 15>>
NTtl == 256 * 2 * 2 * 3 * 3
TtlCase(k) ==
  LET t == k % 256  r1 == k \div 256
      v == IF r1 % 2 = 0 THEN 4 ELSE 6   r2 == r1 \div 2
      pl == r2 % 2   r3 == r2 \div 2
      ln == Links[(r3 % 3) + 1]  ih == Ihls[(r3 \div 3) + 1]
  IN [link |-> ln, h |-> WithOpts([BaseHdr(v) EXCEPT !.ttl = t, !.ihl = IF v = 4 THEN ih ELSE 5, !.payload = IF pl = 0 THEN <<>> ELSE IF t % 3 = 0 THEN <<22, 3, 1, 0, 5, 1, 0, 0, 1, 0>> ELSE <<71>>,   \* also: what looks like the start of a TLS handshake record
                                                       !.flags = IF (k \div 7) % 2 = 0 THEN SYN ELSE SYN + ACK, !.ack = IF (k \div 7) % 2 = 0 THEN Zero4 ELSE NZ4],
                                   OptArea(StdOpts))]

\* ---- opt
Pool == <<[k |-> "nop"], [k |-> "mss", v |-> 1460], [k |-> "mss", v |-> 0], [k |-> "ws", v |-> 7], [k |-> "ws", v |-> 14], [k |-> "ws", v |-> 15], [k |-> "sok"],
          [k |-> "sack", n |-> 1], [k |-> "ts", val |-> NZ4, ecr |-> Zero4], [k |-> "ts", val |-> Zero4, ecr |-> Zero4],
          [k |-> "ts", val |-> NZ4, ecr |-> NZ4], [k |-> "unk", kind |-> 9, data |-> <<5, 6>>]>>
NP == Len(Pool)
RECURSIVE PowN(_, _)
PowN(a, n) == IF n = 0 THEN 1 ELSE a * PowN(a, n - 1)
RECURSIVE OffsetOf(_)
OffsetOf(len) == IF len = 0 THEN 0 ELSE OffsetOf(len - 1) + PowN(NP, len - 1)
NSeqs == OffsetOf(MaxOpts + 1)
SeqAt(idx) ==
  LET n == CHOOSE m \in 0..MaxOpts : OffsetOf(m) <= idx /\ idx < OffsetOf(m + 1)
      r == idx - OffsetOf(n)
  IN [p \in 1..n |-> Pool[((r \div PowN(NP, n - p)) % NP) + 1]]
\* padding styles: 0 = end-of-options + zeros, 1 = end-of-options + ones (trailing non-zero data), 2 = nops, 3 = end-of-options + 3 more bytes
Padded(opts, style) ==
  LET len == WireLen(opts)
      need == (4 - (len % 4)) % 4
  IN CASE style = 0 -> IF need = 0 THEN [opts |-> opts, trail |-> <<>>] ELSE [opts |-> Append(opts, [k |-> "eol"]), trail |-> Rep(0, need - 1)]
       [] style = 1 -> IF need = 0 THEN [opts |-> Append(opts, [k |-> "eol"]), trail |-> <<1, 0, 1>>] ELSE [opts |-> Append(opts, [k |-> "eol"]), trail |-> Rep(1, need - 1)]
       [] style = 2 -> [opts |-> opts \o [i \in 1..need |-> [k |-> "nop"]], trail |-> <<>>]
       [] style = 3 -> [opts |-> Append(opts, [k |-> "eol"]), trail |-> Rep(0, need + 3)]
NOpt == NSeqs * 4 * 2
OptCase(k) ==
  LET s == k % NSeqs  r == k \div NSeqs
      style == r % 4  fl == r \div 4
      ol == Padded(SeqAt(s), style)
  IN [ol |-> ol, h |-> WithOpts([BaseHdr(IF s % 2 = 0 THEN 4 ELSE 6) EXCEPT !.flags = IF fl = 0 THEN SYN ELSE SYN + ACK, !.ack = IF fl = 0 THEN Zero4 ELSE NZ4,
                                                                              !.win = 8192 + s], OptArea(ol))]

\* ---- fopt: every flag byte x every single option of the pool (x every pair in thorough) x IPv4/IPv6:
\* the interactions between flags and option contents (ts2+ on SYN only, opt+ ...)
NFseq == IF MaxOpts >= 4 THEN NP + NP * NP ELSE NP
FoptCase(k) ==
  LET f == k % 256  r == k \div 256
      s == r % NFseq   v == IF (r \div NFseq) % 2 = 0 THEN 4 ELSE 6
      os == IF s < NP THEN <<Pool[s + 1]>> ELSE <<Pool[((s - NP) \div NP) + 1], Pool[((s - NP) % NP) + 1]>>
      ol == Padded(os, 2)
  IN [ol |-> ol, h |-> WithOpts([BaseHdr(v) EXCEPT !.flags = f, !.ack = IF HasFlag(f, ACK) THEN NZ4 ELSE Zero4], OptArea(ol))]
NFopt == 256 * NFseq * 2

\* ---- kind: one option of every unknown kind (data lengths 0..4), SACK with 1..4 blocks, MSS / window-scale value
\* boundaries, each alone and followed by a standard MSS option; IPv4 SYN and IPv6 SYN+ACK
KnownKinds == {0, 1, 2, 3, 4, 5, 8}
UnkKind(j) == IF j <= 2 THEN 5 + j ELSE 6 + j          \* 6, 7, 9, 10, ..., 255
KindOpts == [i \in 1..(249 * 5) |-> [k |-> "unk", kind |-> UnkKind(((i - 1) \div 5) + 1), data |-> Rep(5, (i - 1) % 5)]]
             \o [n \in 1..4 |-> [k |-> "sack", n |-> n]]
             \o [i \in 1..8 |-> [k |-> "mss", v |-> <<0, 1, 255, 256, 536, 1459, 65534, 65535>>[i]]]
             \o [i \in 1..6 |-> [k |-> "ws", v |-> <<0, 1, 13, 14, 15, 255>>[i]]]
NKind == Len(KindOpts) * 2 * 2
KindCase(k) ==
  LET o == KindOpts[(k % Len(KindOpts)) + 1]  r == k \div Len(KindOpts)
      os == IF r % 2 = 0 THEN <<o>> ELSE <<o, [k |-> "mss", v |-> 1460]>>
      ol == Padded(os, 2)
      six == (r \div 2) % 2 = 1
  IN [ol |-> ol, h |-> WithOpts([BaseHdr(IF six THEN 6 ELSE 4) EXCEPT !.flags = IF six THEN SYN + ACK ELSE SYN, !.ack = IF six THEN NZ4 ELSE Zero4], OptArea(ol))]

\* ---- mtu: a SYN for every value listed under a link label of the database, and its two neighbours, IPv4 and IPv6, with 20 octets of
\* options (so that the deviation D03_mtu_headers does not decide): the label is the one of the FIRST group that lists the value,
\* wherever in the group's list the value stands
MtuVals == SetToSeq({m \in UNION {UNION {{Groups[g].sigs[i] - 1, Groups[g].sigs[i], Groups[g].sigs[i] + 1} : i \in 1..Len(Groups[g].sigs)} : g \in 1..Len(Groups)} : m >= 61 /\ m <= 65535})
NMtu == 2 * Len(MtuVals)
MtuCase(k) ==
  LET m == MtuVals[(k % Len(MtuVals)) + 1]  six == k >= Len(MtuVals)
      ol == [StdOpts EXCEPT !.opts[1].v = m - (IF six THEN 60 ELSE 40)]
  IN [ol |-> ol, h |-> WithOpts([BaseHdr(IF six THEN 6 ELSE 4) EXCEPT !.flags = SYN, !.ack = Zero4], OptArea(ol))]

CaseOf(k) == CASE Fam = "hdr4" -> [link |-> "eth", h |-> Hdr4(k), ol |-> StdOpts]
               [] Fam = "hdr6" -> [link |-> "eth", h |-> Hdr6(k), ol |-> StdOpts]
               [] Fam = "ttl"  -> [link |-> TtlCase(k).link, h |-> TtlCase(k).h, ol |-> StdOpts]
               [] Fam = "opt"  -> [link |-> "eth", h |-> OptCase(k).h, ol |-> OptCase(k).ol]
               [] Fam = "fopt" -> [link |-> "eth", h |-> FoptCase(k).h, ol |-> FoptCase(k).ol]
               [] Fam = "kind" -> [link |-> "eth", h |-> KindCase(k).h, ol |-> KindCase(k).ol]
               [] Fam = "mtu"  -> [link |-> "eth", h |-> MtuCase(k).h, ol |-> MtuCase(k).ol]
NOf == CASE Fam = "hdr4" -> NHdr4 [] Fam = "hdr6" -> NHdr6 [] Fam = "ttl" -> NTtl [] Fam = "opt" -> NOpt [] Fam = "fopt" -> NFopt [] Fam = "kind" -> NKind [] Fam = "mtu" -> NMtu

DevSets == SUBSET AllD03 \ {{}}
Emit(k) ==
  LET c == CaseOf(k)
      e0 == Extract(c.h, c.ol, Groups, {})
      alts == {[devs |-> S, exp |-> Extract(c.h, c.ol, Groups, S)] : S \in DevSets}
  IN \/ Len(c.h.opts) > 40                 \* does not fit a TCP header (data offset <= 15): not a case
     \/ /\ LawRoleBySynAck(c.h.flags)
        /\ LawLayoutStopsAtEol(c.ol)
        /\ Len(c.h.opts) % 4 = 0
        /\ PrintT("REPLAY " \o ToJson([fam |-> Fam, k |-> k, frame |-> Frame(c.link, c.h), exp |-> e0,
                                      alts |-> SetToSeq({a \in alts : a.exp # e0})]))

Mine(s) == {j \in 0..((NOf - 1 - Offset) \div Stride) : j % Shards = s}
Init == shard \in 0..(Shards - 1) /\ phase = 0
Next == phase = 0 /\ phase' = 1 /\ UNCHANGED shard
Inv == phase = 1 => \A j \in Mine(shard) : Emit(j * Stride + Offset)
ASSUME PrintT("STAT " \o ToJson([fam |-> Fam, n |-> NOf, stride |-> Stride]))
Spec == Init /\ [][Next]_vars
=============================================================================
