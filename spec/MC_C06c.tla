------------------------------ MODULE MC_C06c -------------------------------
(***************************************************************************)
(* C06 (c),(d): database texts as behaviours of DbLoad.  Every sequence of *)
(* at most Depth lines over the pool below is one behaviour; every reached *)
(* state prints a REPLAY vector {lines, exp | err}.                        *)
(* A `sig` line is generated only where every reading agrees what it       *)
(* belongs to: after a label of the current section visit, or when the     *)
(* section's table is still empty (=> rejected).                           *)
(***************************************************************************)
EXTENDS DbLoad, P0fVocab, TLC, Json, IOUtils

VARIABLES st, lines, fresh
vars == <<st, lines, fresh>>
Depth == atoi(IOEnv.VERIF_DEPTH)

T1 == [ver |-> "4", ittl |-> TtlV(64), olen |-> 0, mss |-> -1, wsize |-> W("mss", 10), wscale |-> 6,
       olayout |-> <<O("mss"), O("sok"), O("ts"), O("nop"), O("ws")>>, quirks |-> <<"df", "id+">>, pclass |-> "0"]
T2 == [ver |-> "*", ittl |-> TtlV(128), olen |-> 0, mss |-> 1460, wsize |-> W("value", 8192), wscale |-> -1,
       olayout |-> <<O("mss"), O("nop"), O("nop"), O("sok")>>, quirks |-> <<>>, pclass |-> "*"]
X1 == [ver |-> "1", horder |-> <<H("Host"), HV("Accept", "*/*"), HO("Cookie")>>, habsent |-> <<H("User-Agent")>>, sw |-> "curl/"]

LabelA == [ty |-> "s", class |-> <<"unix">>, name |-> "Linux", flavor |-> <<"3.x">>]
LabelB == [ty |-> "g", class |-> <<>>, name |-> "Anon", flavor |-> <<>>]
\* the flavor is the REST of the line: it may contain colons, blanks, brackets; names may contain blanks and dots
LabelC == [ty |-> "s", class |-> <<"unix">>, name |-> "Linux", flavor |-> <<"2.6.x (NAT: masquerade)">>]
LabelD == [ty |-> "g", class |-> <<"win">>, name |-> "Windows NT 4.0", flavor |-> <<"kernel 6.x: generic = any">>]
\* a horizontal tab inside a value is part of the value (only the ends of a line are trimmed)
LabelE == [ty |-> "s", class |-> <<>>, name |-> "wget", flavor |-> <<"1.x\t(busybox)">>]

Sections == <<"tcp:request", "tcp:response", "http:request", "http:response", "mtu", "foo">>

SecLine(n)  == [kind |-> "section", name |-> n, raw |-> "[" \o n \o "]"]
LabelLines  == <<[kind |-> "label", text |-> PrintLabel(LabelA), label |-> LabelA, raw |-> "label = " \o PrintLabel(LabelA)],
                 [kind |-> "label", text |-> PrintLabel(LabelB), label |-> LabelB, raw |-> "label=" \o PrintLabel(LabelB)],
                 [kind |-> "label", text |-> PrintLabel(LabelC), label |-> LabelC, raw |-> "label = " \o PrintLabel(LabelC)],
                 [kind |-> "label", text |-> PrintLabel(LabelD), label |-> LabelD, raw |-> "label =" \o PrintLabel(LabelD)],
                 [kind |-> "label", text |-> PrintLabel(LabelE), label |-> LabelE, raw |-> "label = " \o PrintLabel(LabelE)]>>
SigLines    == <<[kind |-> "sig", ty |-> "tcp", text |-> PrintTcpSig(T1), n |-> 0, raw |-> "sig   = " \o PrintTcpSig(T1)],
                 [kind |-> "sig", ty |-> "tcp", text |-> PrintTcpSig(T2), n |-> 0, raw |-> "sig=" \o PrintTcpSig(T2)],
                 [kind |-> "sig", ty |-> "http", text |-> PrintHttpSig(X1), n |-> 0, raw |-> "sig = " \o PrintHttpSig(X1)],
                 [kind |-> "sig", ty |-> "mtu", text |-> "1500", n |-> 1500, raw |-> "sig = 1500"],
                 [kind |-> "sig", ty |-> "bad", text |-> "4:64:0:1460:mss*300,0:mss::0", n |-> 0, raw |-> "sig = 4:64:0:1460:mss*300,0:mss::0"],
                 [kind |-> "sig", ty |-> "bad", text |-> "4:64:0:*:*,0:mss,?300::0", n |-> 0, raw |-> "sig = 4:64:0:*:*,0:mss,?300::0"],
                 [kind |-> "sig", ty |-> "bad", text |-> "70000", n |-> 0, raw |-> "sig = 70000"],
                 [kind |-> "sig", ty |-> "bad", text |-> "1:Host", n |-> 0, raw |-> "sig = 1:Host"]>>
OtherLines  == <<[kind |-> "comment", raw |-> "; a comment = 1"],
                 [kind |-> "comment", raw |-> "   "],
                 [kind |-> "classes", items |-> <<"win", "unix">>, raw |-> "classes = win,unix"],
                 \* class names are alphanumeric tokens: also those that begin with a digit ("9x", "2k")
                 [kind |-> "classes", items |-> <<"nt", "9x", "unix2", "2k", "other">>, raw |-> "classes = nt,9x,unix2,2k,other"],
                 [kind |-> "ua_os", items |-> <<[k |-> "Linux", v |-> <<>>, br |-> FALSE], [k |-> "Windows", v |-> <<"NT">>, br |-> FALSE]>>, raw |-> "ua_os = Linux,Windows=NT"],
                 [kind |-> "sys", raw |-> "sys   = Linux"],
                 \* rule lines that cannot be read to their end (empty element, unclosed bracket, unbracketed value with a blank, trailing comma)
                 [kind |-> "malformed", raw |-> "ua_os = Linux,,Windows,iOS=[iPad]"],
                 [kind |-> "malformed", raw |-> "ua_os = Linux,Windows=[NT 6.1"],
                 [kind |-> "malformed", raw |-> "ua_os = Mac=OS X,FreeBSD"],
                 [kind |-> "malformed", raw |-> "ua_os = Linux,Windows,"]>>

\* a `bad` sig that is syntactically a number is valid in [mtu] only if it fits u16; keep "bad" lines out of sections
\* where some reading could accept them
SigOk(l) ==
  /\ st.sec # ""  =>
        \/ fresh
        \/ (st.sec = "mtu" /\ Len(st.mtu) = 0)
        \/ (st.sec \in Tables /\ Len(st.tab[st.sec]) = 0)
        \/ st.sec = "foo"
  \* the HTTP signature grammar is lenient (any alphanumeric token is a header name): lines that start with a valid
  \* HTTP version are not used as *invalid* lines of an HTTP section
  /\ ((l.ty = "bad" /\ l.text = "1:Host") \/ (l.ty = "tcp" /\ l.text = PrintTcpSig(T2))) => st.sec \notin {"http:request", "http:response"}

Take(l) == /\ Len(lines) < Depth /\ ~st.err
           /\ st' = Step(st, l, {})
           /\ lines' = Append(lines, l.raw)

Init == st = Empty /\ lines = <<>> /\ fresh = FALSE
Section == \E i \in 1..Len(Sections) : Take(SecLine(Sections[i])) /\ fresh' = FALSE
Label   == \E i \in 1..Len(LabelLines) : Take(LabelLines[i]) /\ fresh' = TRUE
Sig     == \E i \in 1..Len(SigLines) : SigOk(SigLines[i]) /\ Take(SigLines[i]) /\ UNCHANGED fresh
Other   == \E i \in 1..Len(OtherLines) : Take(OtherLines[i]) /\ UNCHANGED fresh
Next == Section \/ Label \/ Sig \/ Other

Emit == PrintT("REPLAY " \o ToJson([lines |-> lines, err |-> st.err, exp |-> Project(st)]))

\* design invariants of the loader model
NothingLostOrInvented ==
  ~st.err => TotalSigs(st) <= Len(lines)
ErrIsFinal == [][st.err => st'.err]_vars
Inv == NothingLostOrInvented /\ Emit
Spec == Init /\ [][Next]_vars
=============================================================================
