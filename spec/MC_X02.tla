------------------------------- MODULE MC_X02 -------------------------------
(* X02 (extension): every order-preserving interleaving of a few connections' packets against flow tables of capacity 0..3,   *)
(* with the outcome Tables.tla predicts for every packet.  IOEnv.VERIF_SCEN selects the connection set.                       *)
EXTENDS Tables, Json, IOUtils, TLC
Scen == IOEnv.VERIF_SCEN
Scripts ==
  CASE Scen = "tls_split3" -> <<<<"h1", "h2">>, <<"h1", "h2">>, <<"h1", "h2">>>>
    [] Scen = "tls_mixed"  -> <<<<"h1", "h2">>, <<"H">>, <<"h1", "h2">>, <<"S">>>>
    [] Scen = "http_two"   -> <<<<"syn", "synack", "req", "resp">>, <<"syn", "synack", "req", "resp">>>>
    [] Scen = "http_three" -> <<<<"syn", "req">>, <<"syn", "req", "resp">>, <<"synack", "req", "resp">>>>
IsTls == Scen \in {"tls_split3", "tls_mixed"}
NC == Len(Scripts)
Caps == 0..3
VARIABLES pos, tab, outs, sched, cap
vars == <<pos, tab, outs, sched, cap>>
Init == pos = [c \in 1..NC |-> 0] /\ tab = <<>> /\ outs = <<>> /\ sched = <<>> /\ cap \in Caps
Packet(c) ==
  /\ pos[c] < Len(Scripts[c])
  /\ LET kind == Scripts[c][pos[c] + 1]
         r == IF IsTls THEN TlsStep(tab, c, kind, cap) ELSE HttpStep(tab, c, kind, cap)
     IN tab' = r.t /\ outs' = Append(outs, r.out)
  /\ pos' = [pos EXCEPT ![c] = @ + 1] /\ sched' = Append(sched, c) /\ UNCHANGED cap
Next == \E c \in 1..NC : Packet(c)
Spec == Init /\ [][Next]_vars
Done == \A c \in 1..NC : pos[c] = Len(Scripts[c])
\* the table never exceeds its capacity, and within capacity (more slots than connections) nothing is lost
Bounded == Len(tab) <= cap
Emit == Done => PrintT("REPLAY " \o ToJson([scen |-> Scen, cap |-> cap, sched |-> sched, outs |-> outs]))
Inv == Bounded /\ Emit
=============================================================================
