------------------------------- MODULE Http2 --------------------------------
(***************************************************************************)
(* HTTP/2 framing (RFC 7540) and the meaning of a connection start.        *)
(* Properties C16 (decoding), C17 (Akamai fingerprint), C07.               *)
(***************************************************************************)
EXTENDS Hpack, Http1

Preface == <<80, 82, 73, 32, 42, 32, 72, 84, 84, 80, 47, 50, 46, 48, 13, 10, 13, 10, 83, 77, 13, 10, 13, 10>>
TData == 0  THeaders == 1  TPriority == 2  TRst == 3  TSettings == 4  TPush == 5  TPing == 6  TGoaway == 7  TWindow == 8  TCont == 9
FEndStream == 1  FEndHeaders == 4  FPadded == 8  FPriority == 32

U32(p) == U16(p[1]) \o U16(p[2])                       \* p = <<hi16, lo16>>
Frame(type, flags, stream, payload) ==
  <<Len(payload) \div 65536, (Len(payload) \div 256) % 256, Len(payload) % 256, type, flags>> \o U32(<<stream \div 65536, stream % 65536>>) \o payload

\* settings: Seq([id, val : pair])
SettingsFrame(ss, ack) == Frame(TSettings, IF ack THEN 1 ELSE 0, 0, Flatten([i \in 1..Len(ss) |-> U16(ss[i].id) \o U32(ss[i].val)]))
WindowUpdate(stream, inc) == Frame(TWindow, 0, stream, U32(inc))
\* prio == [excl : BOOLEAN, dep : pair (31 bits), weight : 0..255]
PrioBytes(p) == U16(p.dep[1] + (IF p.excl THEN 32768 ELSE 0)) \o U16(p.dep[2]) \o <<p.weight>>
PriorityFrame(stream, p) == Frame(TPriority, 0, stream, PrioBytes(p))
Ping == Frame(TPing, 0, 0, <<1, 2, 3, 4, 5, 6, 7, 8>>)
DataFrame(stream, n) == Frame(TData, FEndStream, stream, Rep(120, n))

\* a header block as HEADERS (+ CONTINUATION) frames.
\* o == [pad : -1 | 0..255, prio : <<>> | <<prio>>, cuts : Seq of strictly increasing cut positions inside the block, endstream]
RECURSIVE Conts(_, _, _, _)
Conts(block, cuts, stream, from) ==
  IF Len(cuts) = 0 THEN Frame(TCont, FEndHeaders, stream, SubSeq(block, from + 1, Len(block)))
  ELSE Frame(TCont, 0, stream, SubSeq(block, from + 1, cuts[1])) \o Conts(block, Tail(cuts), stream, cuts[1])
HeaderFrames(block, stream, o) ==
  LET first == IF Len(o.cuts) = 0 THEN block ELSE SubSeq(block, 1, o.cuts[1])
      flags == (IF o.endstream THEN FEndStream ELSE 0) + (IF Len(o.cuts) = 0 THEN FEndHeaders ELSE 0)
               + (IF o.pad >= 0 THEN FPadded ELSE 0) + (IF Len(o.prio) > 0 THEN FPriority ELSE 0)
      payload == (IF o.pad >= 0 THEN <<o.pad>> ELSE <<>>) \o (IF Len(o.prio) > 0 THEN PrioBytes(o.prio[1]) ELSE <<>>)
                 \o first \o (IF o.pad > 0 THEN Rep(0, o.pad) ELSE <<>>)
  IN Frame(THeaders, flags, stream, payload) \o (IF Len(o.cuts) = 0 THEN <<>> ELSE Conts(block, Tail(o.cuts), stream, o.cuts[1]))
Plain == [pad |-> -1, prio |-> <<>>, cuts |-> <<>>, endstream |-> TRUE]

\* ---- meaning of a decoded header list (request or response)
IsPseudo(n) == Len(n) > 0 /\ SubSeq(n, 1, 1) = ":"
PseudoOf(list, n) == LET idx == {i \in 1..Len(list) : list[i].name = n} IN
                     IF idx = {} THEN <<>> ELSE <<list[CHOOSE i \in idx : \A j \in idx : j <= i].value>>
AsHdr(e) == [t |-> "plain", name |-> e.name, ln |-> Lower(e.name), lws |-> "", value |-> e.value, rws |-> ""]
\* the five pseudo-headers of RFC 7540 carry the request / status line; any other field -- also one whose name begins with a colon
\* (":protocol" of RFC 8441) -- is a member of the header list like every other
LinePseudo(n) == n \in {":method", ":path", ":authority", ":scheme", ":status"}
Regular(list) == LET r == SelectSeq(list, LAMBDA e : ~LinePseudo(e.name)) IN [i \in 1..Len(r) |-> AsHdr(r[i])]

\* HPACK can carry a field with an empty value; such a field says nothing: an empty referer or user-agent is reported as
\* absent (the referer reported is the last one that has a value), an empty cookie field contributes no pair
NoEmpty(x) == IF x = <<"">> THEN <<>> ELSE x
LastRefererWithValue(m) == LastReferer([m EXCEPT !.hs = SelectSeq(m.hs, LAMBDA h : ~(IsName(h, "referer") /\ ValueOf(h) = ""))])
\* cookie pairs of every cookie header, in order; the generators write one pair per `; `-separated element
H2Meaning(list, isreq, D) ==
  LET m == [kind |-> IF isreq THEN "req" ELSE "resp", hs |-> Regular(list), ver |-> "2"]
      kept == Kept(m)
      \* a field that is repeated: an occurrence without a value says nothing, also about the other occurrences
      uas == SelectSeq(kept, LAMBDA h : IsName(h, "user-agent") /\ ValueOf(h) # "")
      sw == IF isreq THEN (IF Len(uas) = 0 THEN <<>> ELSE <<ValueOf(uas[Len(uas)])>>) ELSE NoEmpty(First(m.hs, "server"))
      ho == Horder(m, D)
      ha == Habsent(m)
  IN [kind |-> m.kind,
      method |-> IF isreq THEN PseudoOf(list, ":method") ELSE <<>>, target |-> IF isreq THEN PseudoOf(list, ":path") ELSE <<>>,
      status |-> IF isreq THEN <<>> ELSE PseudoOf(list, ":status"),
      headers |-> [i \in 1..Len(kept) |-> [name |-> kept[i].name, value |-> kept[i].value]],
      cookievals |-> IF isreq THEN [i \in 1..Len(SelectSeq(m.hs, LAMBDA h : h.ln = "cookie")) |-> SelectSeq(m.hs, LAMBDA h : h.ln = "cookie")[i].value] ELSE <<>>,
      referer |-> IF isreq THEN LastRefererWithValue(m) ELSE <<>>,
      ua |-> IF isreq THEN sw ELSE <<>>,
      obs |-> [ver |-> "2", horder |-> ho, habsent |-> ha, sw |-> IF Len(sw) = 0 THEN "???" ELSE sw[1]],
      text |-> PrintHttpSig([ver |-> "2", horder |-> ho, habsent |-> ha, sw |-> IF Len(sw) = 0 THEN "???" ELSE sw[1]])]
=============================================================================
