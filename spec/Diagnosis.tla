----------------------------- MODULE Diagnosis -----------------------------
(* X05 (extension): the HTTP request diagnosis -- what the analyzer says about the honesty of a User-Agent header.        *)
(*                                                                                                                        *)
(* State of one request as it passes through `process_http_ipv4/ipv6` (huginn-net-http/src/process.rs; the unified crate  *)
(* does the same in huginn-net/src/lib.rs): the observed request, then the best-matching [http:request] label (C02), then *)
(* the first `ua_os` rule whose needle occurs in the User-Agent value, then the diagnosis.  One action per step, so that  *)
(* a trace of the code (request seen, label chosen, rule chosen, diagnosis printed) maps onto it line by line.            *)
(*                                                                                                                        *)
(* rule == [k |-> name, kl |-> name in lower case, v |-> pattern or ""]          (`ua_os = Linux,iOS=iPad` -> two rules)  *)
(* D: deviations of the code from p0f's reading of the same line:                                                         *)
(*   "X05_name_as_needle"  the code searches the User-Agent for the rule's NAME even when the rule carries a pattern      *)
(*                          (`iOS=iPad`: p0f looks for "iPad", the code for "iOS").                                        *)
EXTENDS Naturals, Sequences

HasSub(s, n) == \E i \in 1..(Len(s) + 1 - Len(n)) : SubSeq(s, i, i + Len(n) - 1) = n

Needle(r, D) == IF "X05_name_as_needle" \in D \/ r.v = "" THEN r.k ELSE r.v

\* index of the first rule, in the order of the database line, whose needle occurs (case-sensitively) in ua; 0: none
UaRule(ua, rules, D) ==
  LET S == {i \in 1..Len(rules) : HasSub(ua, Needle(rules[i], D))}
  IN IF S = {} THEN 0 ELSE CHOOSE i \in S : \A j \in S : i <= j

\* x == [hasUa, ua, matched, label (lower case of the matched label's name, "" when none), db (a database is configured)]
\* without a database neither a label nor a rule is looked up
\* responses carry no verdict at all: the code prints "none" for every response
RespDiagnosis == "none"
Diagnose(x, rules, D) ==
  IF ~x.hasUa THEN "anonymous"
  ELSE LET m == UaRule(x.ua, rules, D) IN
       IF m = 0 \/ ~x.matched \/ ~x.db THEN "none"
       ELSE IF rules[m].kl = x.label THEN "generic" ELSE "dishonest"

(* ---- the same as a state machine: pc walks seen -> labelled -> ruled -> done ---- *)
VARIABLES pc, req, rule, diag
dvars == <<pc, req, rule, diag>>
DInit(X) == pc = "seen" /\ req \in X /\ rule = 0 /\ diag = "unset"
MatchLabel == pc = "seen" /\ pc' = "labelled" /\ UNCHANGED <<req, rule, diag>>
MatchRule(rules, D) ==
  /\ pc = "labelled" /\ pc' = "ruled"
  /\ rule' = IF req.hasUa /\ req.db THEN UaRule(req.ua, rules, D) ELSE 0
  /\ UNCHANGED <<req, diag>>
Conclude(rules) ==
  /\ pc = "ruled" /\ pc' = "done"
  /\ diag' = IF ~req.hasUa THEN "anonymous"
             ELSE IF rule = 0 \/ ~req.matched THEN "none"
             ELSE IF rules[rule].kl = req.label THEN "generic" ELSE "dishonest"
  /\ UNCHANGED <<req, rule>>
DNext(rules, D) == MatchLabel \/ MatchRule(rules, D) \/ Conclude(rules)

(* ---- laws (checked by TLC in MC_X05 over the whole case space) ---- *)
\* the step-wise machine ends in the value of the function
StepwiseIsFunction(rules, D) == pc = "done" => diag = Diagnose(req, rules, D)
\* anonymous exactly without a User-Agent; a verdict on honesty only with both a rule and a label
Shape(rules, D) == pc = "done" =>
  /\ (diag = "anonymous") = ~req.hasUa
  /\ diag \in {"generic", "dishonest"} => (req.hasUa /\ req.matched /\ rule > 0 /\ HasSub(req.ua, Needle(rules[rule], D)))
  /\ (rule > 0 => \A j \in 1..(rule - 1) : ~HasSub(req.ua, Needle(rules[j], D)))
=============================================================================
