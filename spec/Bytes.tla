------------------------------- MODULE Bytes --------------------------------
(* byte / u16 / u32 helpers.  TLC integers are 32-bit signed: a u32 is four *)
(* bytes <<b1,b2,b3,b4>> (big endian) or a pair <<hi16, lo16>>.             *)
EXTENDS Integers, Sequences

Hi(x) == (x \div 256) % 256
Lo(x) == x % 256
U16(x) == <<Hi(x), Lo(x)>>
Zero4 == <<0, 0, 0, 0>>
IsZero(bs) == \A i \in 1..Len(bs) : bs[i] = 0
RECURSIVE Rep(_, _)
Rep(b, n) == IF n <= 0 THEN <<>> ELSE <<b>> \o Rep(b, n - 1)
RECURSIVE Flatten(_)
Flatten(ss) == IF Len(ss) = 0 THEN <<>> ELSE ss[1] \o Flatten(Tail(ss))
HexDigit(n) == SubSeq("0123456789abcdef", n + 1, n + 1)
Hex2(b) == HexDigit(b \div 16) \o HexDigit(b % 16)
Hex4(x) == Hex2(Hi(x)) \o Hex2(Lo(x))
=============================================================================
