------------------------------ MODULE Unified -------------------------------
(***************************************************************************)
(* The unified analyzer (huginn-net) as a function of the three protocol   *)
(* analyzers' results for the same packet.  Property C20.                  *)
(* cfg  == [tcp, http, tls, matcher, db : BOOLEAN]                         *)
(* A protocol result is [acc : BOOLEAN (the analyzer accepted the packet), *)
(* f : [field name -> <<>> | <<[raw, lab, q]>>]]: raw = raw signature and  *)
(* endpoints, lab = label-derived data, q = quality.  The protocol         *)
(* analyzers are run with matching ON; the unified one with cfg.           *)
(***************************************************************************)
EXTENDS Integers, Sequences, FiniteSets

TcpFields == {"syn", "syn_ack", "mtu", "client_uptime", "server_uptime"}
HttpFields == {"req", "resp"}
TlsFields == {"tls"}
AllFields == TcpFields \cup HttpFields \cup TlsFields
ProtoOf(fld) == IF fld \in TcpFields THEN "tcp" ELSE IF fld \in HttpFields THEN "http" ELSE "tls"

CtorOk(cfg) == ~(cfg.matcher /\ (cfg.tcp \/ cfg.http) /\ ~cfg.db)
MatchOn(cfg) == cfg.matcher /\ cfg.db
\* uptime and TLS fields carry no match quality
HasQuality(fld) == fld \in {"syn", "syn_ack", "mtu", "req", "resp"}

Mask(cfg, fld, x) ==
  IF Len(x) = 0 THEN <<>>
  ELSE IF MatchOn(cfg) \/ ~HasQuality(fld) THEN x
  ELSE <<[raw |-> x[1].raw, lab |-> "", q |-> "disabled"]>>

Enabled(cfg, p) == CASE p = "tcp" -> cfg.tcp [] p = "http" -> cfg.http [] p = "tls" -> cfg.tls

\* res : [{"tcp","http","tls"} -> protocol result]
Merge(cfg, res) ==
  LET allAccept == \A p \in {"tcp", "http", "tls"} : Enabled(cfg, p) => res[p].acc IN
  [fld \in AllFields |->
     IF allAccept /\ Enabled(cfg, ProtoOf(fld)) THEN Mask(cfg, fld, res[ProtoOf(fld)].f[fld]) ELSE <<>>]

\* ---- laws (checked by TLC over all 32 configurations and a presence matrix, MC_C20)
LawDisableRemovesOnlyThat(cfg, res, p) ==
  LET c2 == [cfg EXCEPT ![p] = FALSE] IN
  (\A r \in {"tcp", "http", "tls"} : res[r].acc) =>
     \A fld \in AllFields : Merge(c2, res)[fld] = (IF ProtoOf(fld) = p THEN <<>> ELSE Merge(cfg, res)[fld])
LawMatcherOnlyMasks(cfg, res) ==
  LET off == Merge([cfg EXCEPT !.matcher = FALSE], res)
      on == Merge([cfg EXCEPT !.matcher = TRUE, !.db = TRUE], res)
  IN \A fld \in AllFields :
       /\ Len(off[fld]) = Len(on[fld])
       /\ Len(off[fld]) = 1 => (off[fld][1].raw = on[fld][1].raw /\ (HasQuality(fld) => off[fld][1].q = "disabled"))
=============================================================================
