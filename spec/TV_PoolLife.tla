----------------------------- MODULE TV_PoolLife ----------------------------
(***************************************************************************)
(* X03: trace validation of real pool runs that end in shutdown() (the     *)
(* life-cycle part of Pool.tla: Shutdown, WHead / WTmo leaving, `owed`).   *)
(* Events in the recorder's global order (hook H2), runs concatenated:     *)
(*   reset (crate, nw)      start of a run                                 *)
(*   ds (p) / de (p, o)     dispatch(p) called / returned o                *)
(*   wp (p, w, id)          worker w took packet p                         *)
(*   sd / sr                shutdown() called / returned                   *)
(*   end (exited)           the result channel disconnected: every worker  *)
(*                          has left (exited = FALSE: not within 10 s)     *)
(*   st (dispatched, dropped)  statistics after the end                    *)
(* State: the history part of Pool (outcome, analysed, owed) as far as the *)
(* events determine it.  `owed` is taken at sd, i.e. before the flag is    *)
(* set, so it is a subset of Pool's owed: the check never asks for more    *)
(* than the specification promises.                                        *)
(***************************************************************************)
EXTENDS Integers, Sequences, FiniteSets, Json, IOUtils, TLC

Rec == ndJsonDeserialize(IOEnv.TRACE)
VARIABLES l, cfg, started, outc, done, wof, phase, owed, late
vars == <<l, cfg, started, outc, done, wof, phase, owed, late>>
\* phase: "up" -> "down" (sd) -> "returned" (sr) -> "ended" (end)

Init == l = 1 /\ cfg = [crate |-> "", nw |-> 0] /\ started = {} /\ outc = {} /\ done = {} /\ wof = {} /\ phase = "up" /\ owed = {} /\ late = {}
Ev == Rec[l]
Is(k) == l <= Len(Rec) /\ Ev.k = k /\ l' = l + 1
Queued == {x[1] : x \in {y \in outc : y[2] = "queued"}}

Reset == Is("reset") /\ cfg' = [crate |-> Ev.crate, nw |-> Ev.nw] /\ started' = {} /\ outc' = {} /\ done' = {} /\ wof' = {}
         /\ phase' = "up" /\ owed' = {} /\ late' = {}
\* DStart: a call that begins after shutdown() has returned reads the flag as set
DS == /\ Is("ds") /\ Ev.p \notin started /\ started' = started \cup {Ev.p}
      /\ late' = IF phase \in {"returned", "ended"} THEN late \cup {Ev.p} ELSE late
      /\ UNCHANGED <<cfg, outc, done, wof, phase, owed>>
\* WRecv / WFill . WProc: only a worker that has not left takes packets
WP == /\ Is("wp") /\ Ev.p \in started /\ Ev.p \notin done /\ phase # "ended"
      /\ <<Ev.p, "dropped">> \notin outc
      /\ Ev.w >= 0 /\ Ev.w < cfg.nw
      /\ \A x \in wof : x[1] = Ev.id => x[2] = Ev.w
      /\ done' = done \cup {Ev.p} /\ wof' = wof \cup {<<Ev.id, Ev.w>>}
      /\ UNCHANGED <<cfg, started, outc, phase, owed, late>>
\* DCount (or DStart with the flag set)
DE == /\ Is("de") /\ Ev.p \in started /\ ~\E o \in {"queued", "dropped"} : <<Ev.p, o>> \in outc
      /\ (Ev.o = "dropped" => Ev.p \notin done)
      /\ (Ev.p \in late => Ev.o = "dropped")
      /\ outc' = outc \cup {<<Ev.p, Ev.o>>}
      /\ UNCHANGED <<cfg, started, done, wof, phase, owed, late>>
\* Shutdown: what has been reported queued so far is owed
SD == Is("sd") /\ phase = "up" /\ phase' = "down" /\ owed' = Queued /\ UNCHANGED <<cfg, started, outc, done, wof, late>>
SR == Is("sr") /\ phase = "down" /\ phase' = "returned" /\ UNCHANGED <<cfg, started, outc, done, wof, owed, late>>
\* AllExited: workers leave only after shutdown (ExitOnlyAfterShutdown), they all do (WorkersLeave), and by then what was owed
\* has been analysed (ShutdownDrains)
END == /\ Is("end") /\ phase = "returned" /\ Ev.exited
       /\ owed \subseteq done
       /\ phase' = "ended" /\ UNCHANGED <<cfg, started, outc, done, wof, owed, late>>
NQ == Cardinality(Queued)
ND == Cardinality({x \in outc : x[2] = "dropped"})
NL == Cardinality(late)
\* the counters.  A call is dropped either because it read the flag as set (DStart; counted as dropped by the http pool only, as
\* dispatched by none) or because try_send failed: its worker was gone (DSend; counted as dropped by all, and as dispatched by
\* the http and tls pools, which count attempts).  Calls that began after shutdown() returned are of the first kind; calls
\* concurrent with shutdown() may be of either, so the number f of failed sends is only known to lie in 0..ND - NL.
ST == /\ Is("st") /\ phase = "ended"
      /\ \A p \in started : \E o \in {"queued", "dropped"} : <<p, o>> \in outc
      /\ \E f \in 0..(ND - NL) :
            /\ Ev.dispatched = (IF cfg.crate = "tcp" THEN NQ ELSE NQ + f)
            /\ Ev.dropped = (IF cfg.crate = "http" THEN ND ELSE f)
      /\ UNCHANGED <<cfg, started, outc, done, wof, phase, owed, late>>
Next == Reset \/ DS \/ WP \/ DE \/ SD \/ SR \/ END \/ ST
Spec == Init /\ [][Next]_vars

Accepted ==
  LET n == TLCGet("stats").diameter - 1 IN
  IF n = Len(Rec) THEN PrintT("VERDICT " \o ToJson([ok |-> TRUE, events |-> n]))
  ELSE PrintT("VERDICT " \o ToJson([ok |-> FALSE, events |-> Len(Rec), matched |-> n, unmatched |-> Rec[n + 1]]))
=============================================================================
