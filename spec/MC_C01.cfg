SPECIFICATION Spec
INVARIANT Inv
INVARIANT InvH2
INVARIANT InvTls
CHECK_DEADLOCK FALSE
