------------------------------- MODULE TV_C03T ------------------------------
(***************************************************************************)
(* C03, implementation -> specification: the rendered signature.  Rows:    *)
(* obs (the structured observation the analyzer reported), text (Display   *)
(* of the matching observation), sigtext (Display of the observable TCP    *)
(* signature the user is handed).  Accepted iff both are the p0f text of   *)
(* the observation (P0fVocab!PrintTcpSig).                                 *)
(***************************************************************************)
EXTENDS P0fVocab, Json, IOUtils, TLC
Rows == ndJsonDeserialize(IOEnv.TRACE)
Shards == 16
VARIABLES shard, phase
vars == <<shard, phase>>
RowOk(r) ==
  LET want == PrintTcpSig(r.obs) IN
  \/ (r.text = want /\ r.sigtext = want)
  \/ PrintT("BAD " \o ToJson([id |-> r.id, want |-> want, text |-> r.text, sigtext |-> r.sigtext]))
Init == shard \in 0..(Shards - 1) /\ phase = 0
Next == phase = 0 /\ phase' = 1 /\ UNCHANGED shard
Inv == phase = 1 => \A i \in 1..Len(Rows) : (i % Shards = shard) => RowOk(Rows[i])
Spec == Init /\ [][Next]_vars
=============================================================================
