------------------------------- MODULE Frames -------------------------------
(***************************************************************************)
(* Wire images of TCP/IP headers.  An abstract header h is                 *)
(*  [ver, ttl, ihl, tos, ipid, rf (reserved IPv4 flag bit), df, mf, frag,  *)
(*   flow (<<hi4, lo16>> IPv6 flow label), proto,                          *)
(*   src, dst (byte sequences), sport, dport, seq, ack (4 bytes each),     *)
(*   doff (data offset actually written), flags (TCP flag byte), win, urg, *)
(*   opts (bytes of the option area), payload (bytes)]                     *)
(* Link framing: "eth", "raw", "null" (loopback, 1e 00 00 00).             *)
(***************************************************************************)
EXTENDS Bytes

FIN == 1  SYN == 2  RST == 4  PSH == 8  ACK == 16  URG == 32  ECE == 64  CWR == 128
HasFlag(f, bit) == (f \div bit) % 2 = 1

TcpWire(h) ==
  U16(h.sport) \o U16(h.dport) \o h.seq \o h.ack \o <<h.doff * 16, h.flags>> \o U16(h.win) \o <<0, 0>> \o U16(h.urg)
  \o h.opts \o h.payload

Ip4Wire(h, body) ==
  LET total == h.ihl * 4 + Len(body)
      flagbits == (IF h.rf THEN 4 ELSE 0) + (IF h.df THEN 2 ELSE 0) + (IF h.mf THEN 1 ELSE 0)
  IN <<h.vnib * 16 + h.ihl, h.tos>> \o U16(total) \o U16(h.ipid) \o <<flagbits * 32 + (Hi(h.frag) % 32), Lo(h.frag)>>
     \o <<h.ttl, h.proto, 0, 0>> \o h.src \o h.dst \o Rep(h.ipopt, (h.ihl - 5) * 4) \o body

Ip6Wire(h, body) ==
  <<h.vnib * 16 + (h.tos \div 16), (h.tos % 16) * 16 + h.flow[1]>> \o U16(h.flow[2]) \o U16(Len(body)) \o <<h.proto, h.ttl>>
  \o h.src \o h.dst \o body

IpWire(h) == IF h.ver = 4 THEN Ip4Wire(h, TcpWire(h)) ELSE Ip6Wire(h, TcpWire(h))

EthHdr(h) == h.dmac \o h.smac \o (IF h.ver = 4 THEN <<8, 0>> ELSE <<134, 221>>)
Frame(link, h) == CASE link = "eth"  -> EthHdr(h) \o IpWire(h)
                    [] link = "raw"  -> IpWire(h)
                    [] link = "null" -> <<30, 0, 0, 0>> \o IpWire(h)

Src4 == <<10, 0, 0, 1>>   Dst4 == <<10, 0, 0, 2>>
Src6 == <<32, 1, 13, 184, 0, 0, 0, 0, 0, 0, 0, 0, 0, 0, 0, 1>>
Dst6 == <<32, 1, 13, 184, 0, 0, 0, 0, 0, 0, 0, 0, 0, 0, 0, 2>>

\* a plain SYN, to be modified with EXCEPT
BaseHdr(ver) == [ver |-> ver, vnib |-> ver, ipopt |-> 1, dmac |-> <<2, 0, 0, 0, 0, 2>>, smac |-> <<2, 0, 0, 0, 0, 1>>, ttl |-> 64, ihl |-> 5, tos |-> 0, ipid |-> 4660, rf |-> FALSE, df |-> TRUE, mf |-> FALSE, frag |-> 0,
                 flow |-> <<0, 0>>, proto |-> 6, src |-> IF ver = 4 THEN Src4 ELSE Src6, dst |-> IF ver = 4 THEN Dst4 ELSE Dst6,
                 sport |-> 40000, dport |-> 80, seq |-> <<18, 52, 86, 120>>, ack |-> Zero4, doff |-> 5, flags |-> SYN,
                 win |-> 65535, urg |-> 0, opts |-> <<>>, payload |-> <<>>]
WithOpts(h, ob) == [h EXCEPT !.opts = ob, !.doff = 5 + (Len(ob) \div 4)]
=============================================================================
