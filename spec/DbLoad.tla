------------------------------- MODULE DbLoad -------------------------------
(***************************************************************************)
(* Loading a p0f database text, line by line (Database::from_str).         *)
(* Property C06 (c),(d): the loaded structure is exactly what the file     *)
(* says, in file order, under the right section and label; invalid text    *)
(* is rejected as a whole.                                                 *)
(*                                                                         *)
(* line == [kind |-> "comment"|"classes"|"ua_os"|"malformed"|"section"|"label"|"sig"| *)
(*          "sys", ...]                                                    *)
(*   classes: items : Seq(STRING)       ua_os: items : Seq([k, v])         *)
(*   section: name ("tcp:request", "mtu", ...)                             *)
(*   label  : text (raw), label (parsed record for tcp/http sections)      *)
(*   sig    : text (canonical), ty ("tcp"|"http"|"mtu"|"bad"), n (mtu)     *)
(***************************************************************************)
EXTENDS Integers, Sequences

Tables == {"tcp:request", "tcp:response", "http:request", "http:response"}
TableType(sec) == IF sec \in {"tcp:request", "tcp:response"} THEN "tcp" ELSE "http"

Empty == [sec |-> "", err |-> FALSE, classes |-> <<>>, ua |-> <<>>, mtu |-> <<>>,
          tab |-> [t \in Tables |-> <<>>]]

TyOk(ln, t) == ln.ty = t \/ ln.ty = "any"      \* "any": trace lines of a file the code accepted
AddSig(entries, x) == [entries EXCEPT ![Len(entries)].sigs = Append(@, x)]

\* ua_os items: [k, v, br] (br: the value was written in brackets, as in `iOS=[iPad]`)
RECURSIVE UaTrunc(_)
UaTrunc(items) ==   \* D06_ua_os_truncated: the list parser stops at the first bracketed value and the rest of the line is dropped
  IF Len(items) = 0 THEN <<>>
  ELSE IF items[1].br THEN <<[k |-> items[1].k, v |-> <<>>]>>
  ELSE <<[k |-> items[1].k, v |-> items[1].v]>> \o UaTrunc(Tail(items))
UaItems(items, D) == IF "D06_ua_os_truncated" \in D THEN UaTrunc(items)
                     ELSE [i \in 1..Len(items) |-> [k |-> items[i].k, v |-> items[i].v]]

Step(st, ln, D) ==
  IF st.err THEN st
  ELSE CASE ln.kind = "comment" -> st
         [] ln.kind = "classes" -> [st EXCEPT !.classes = @ \o ln.items]
         [] ln.kind = "ua_os"   -> [st EXCEPT !.ua = @ \o UaItems(ln.items, D)]
         [] ln.kind = "malformed" -> [st EXCEPT !.err = TRUE]            \* a directive line whose text cannot be read to its end: rejected, never loaded in part
         [] ln.kind = "section" -> [st EXCEPT !.sec = ln.name]
         [] OTHER ->
              IF st.sec = "" THEN [st EXCEPT !.err = TRUE]                 \* named value outside any section
              ELSE CASE ln.kind = "label" ->
                          IF st.sec = "mtu" THEN [st EXCEPT !.mtu = Append(@, [label |-> ln.text, sigs |-> <<>>])]
                          ELSE IF st.sec \in Tables
                               THEN [st EXCEPT !.tab[st.sec] = Append(@, [label |-> ln.label, sigs |-> <<>>])]
                               ELSE st
                     [] ln.kind = "sig" ->
                          IF st.sec = "mtu"
                          THEN (IF Len(st.mtu) = 0 \/ ~TyOk(ln, "mtu") THEN [st EXCEPT !.err = TRUE]
                                ELSE [st EXCEPT !.mtu = AddSig(@, ln.n)])
                          ELSE IF st.sec \in Tables
                               THEN (IF Len(st.tab[st.sec]) = 0 \/ ~TyOk(ln, TableType(st.sec)) THEN [st EXCEPT !.err = TRUE]
                                     ELSE [st EXCEPT !.tab[st.sec] = AddSig(@, ln.text)])
                               ELSE st
                     [] OTHER -> st                                        \* sys and other named values are ignored

\* structure as the harness projects a loaded Database
Project(st) == [classes |-> st.classes, ua_os |-> st.ua, mtu |-> st.mtu,
                tcp_request |-> st.tab["tcp:request"], tcp_response |-> st.tab["tcp:response"],
                http_request |-> st.tab["http:request"], http_response |-> st.tab["http:response"]]

RECURSIVE CountSigs(_)
CountSigs(entries) == IF Len(entries) = 0 THEN 0 ELSE Len(entries[1].sigs) + CountSigs(Tail(entries))
TotalSigs(st) == CountSigs(st.mtu) + CountSigs(st.tab["tcp:request"]) + CountSigs(st.tab["tcp:response"])
                 + CountSigs(st.tab["http:request"]) + CountSigs(st.tab["http:response"])
=============================================================================
