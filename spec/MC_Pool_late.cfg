SPECIFICATION Spec
INVARIANT NoLateQueued
CHECK_DEADLOCK FALSE
CONSTANTS
  NW <- NWv
  Cap <- CapV
  Batch <- BatchV
  Traces <- TracesV
  ConnOf <- ConnOfV
  Route <- RouteV
  Crate <- CrateV
  AllowShutdown <- ShutV
  Devs <- DevsV
