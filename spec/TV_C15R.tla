------------------------------ MODULE TV_C15R -------------------------------
(***************************************************************************)
(* C15, richly varied traffic (lib/props/traffic.py): the driver hands     *)
(* over the endpoints of every frame of a trace (as the frame carries      *)
(* them) and a list of filter configurations built from those endpoints;   *)
(* the documented rule (Filter!ShouldProcess) decides which frames each    *)
(* configuration admits.  The driver then compares, on the real code,      *)
(* analysing the whole trace with the filter against analysing the         *)
(* admitted sub-trace without one.                                         *)
(***************************************************************************)
EXTENDS Integers, Sequences, Json, IOUtils, TLC
FL == INSTANCE Filter
In == ndJsonDeserialize(IOEnv.TRACE)[1]
Shards == 16
VARIABLES shard, phase
vars == <<shard, phase>>
Emit(c) == PrintT("ADMIT " \o ToJson([c |-> c, admit |-> [i \in 1..Len(In.eps) |-> FL!ShouldProcess(In.cfgs[c], In.eps[i], {})]]))
Init == shard \in 0..(Shards - 1) /\ phase = 0
Next == phase = 0 /\ phase' = 1 /\ UNCHANGED shard
Inv == phase = 1 => \A c \in 1..Len(In.cfgs) : (c % Shards = shard) => Emit(c)
Spec == Init /\ [][Next]_vars
=============================================================================
