----------------------------- MODULE Resources ------------------------------
(***************************************************************************)
(* Resource bounds of an analyzer instance (property C11).                 *)
(* retained: bytes the instance holds after a packet; work: bytes          *)
(* allocated while handling one packet (a machine-independent proxy).      *)
(*   retained <= Base + conns * L      (conns <= capacity)                 *)
(*   work     <= A + B * len                                               *)
(* L, A, B are fixed constants, deliberately loose: the drivers carry      *)
(* 10-100 x more bytes per connection than L, so only growth with the      *)
(* connection's history can exceed them.                                   *)
(* The small model below explains why the bounds hold for the design and   *)
(* fail for the recorded deviations: a connection buffers at most Lmax     *)
(* bytes and one packet is handled by looking at the buffer once.          *)
(***************************************************************************)
EXTENDS Integers, Sequences, FiniteSets

L == 262144          \* 256 KiB per tracked connection
Base == 131072       \* empty tables, lazily initialised statics
A == 1048576         \* 1 MiB per packet, independent of history
B == 64              \* plus 64 bytes per packet byte

RetainedOk(conns, retained) == retained <= Base + conns * L
\* more connections than the capacity: what is kept is bounded by the capacity, so it stops growing once the tables are full.
\* Events in arrival order; `early` = the most that is kept while the first 8 x cap + 64 connections send their first packet;
\* nothing later may exceed that by more than Slack (independent of the constants above)
Slack == 65536
Max(S) == IF S = {} THEN 0 ELSE CHOOSE x \in S : \A y \in S : y <= x
PlateauOk(events, cap) ==
  LET early == Max({events[i].retained : i \in {j \in 1..Len(events) : events[j].idx = 0 /\ events[j].conn < 8 * cap + 64}})
  IN \A i \in 1..Len(events) : events[i].retained <= early + Slack
WorkOk(len, allocated) == allocated <= A + B * len

\* ---- design model (units of 1 KiB): a connection buffers until its head is reported or Lmax is reached, then stops
Lmax == 64
Store(buf, n, D) == IF "D11_unbounded_store" \in D THEN buf + n ELSE IF buf + n > Lmax THEN 0 ELSE buf + n
Work(buf, n, D) == IF "D11_reparse" \in D THEN 4 * (buf + n) ELSE 4 * (IF buf + n > Lmax THEN Lmax ELSE buf + n)
RECURSIVE After(_, _, _)
After(k, n, D) == IF k = 0 THEN 0 ELSE Store(After(k - 1, n, D), n, D)
\* after k segments of n KiB: retained and per-packet work stay within the (scaled) bounds for every k
ModelBounded(D) == \A k \in 1..400 : After(k, 2, D) <= 256 /\ Work(After(k - 1, 2, D), 2, D) <= 1024 + 2
\* ---- capture front ends: what analyze_pcap holds while it works (its reader's buffer, the analyzer's tables) does not depend on
\* how long the capture is: the peak for a capture four times as long is the same, up to FrontSlack
FrontSlack == 1048576
FrontEndOk(peak_small, peak_big) == peak_big <= peak_small + FrontSlack
=============================================================================
