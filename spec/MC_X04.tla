------------------------------- MODULE MC_X04 -------------------------------
(***************************************************************************)
(* X04: capture files generated around a handful of real frames            *)
(* (IOEnv.FRAMES: the same packets under Ethernet, raw-IP and loopback     *)
(* framing, built by the driver): byte order x precision x how the file    *)
(* ends x a record in the middle that cannot be read, and one at a time:   *)
(* declared link type / framing, snapshot length (also one that cuts the   *)
(* frames), time stamps at the ends of their ranges, zone / accuracy       *)
(* fields, files that are no capture files.  For each file: its octets,    *)
(* the data of its records, and the number of records that are certainly   *)
(* delivered before the analysis ends (CaptureFile!Certain).               *)
(***************************************************************************)
EXTENDS CaptureFile, Json, IOUtils, SequencesExt

In == ndJsonDeserialize(IOEnv.FRAMES)[1]
Shards == 8
VARIABLES shard, phase
vars == <<shard, phase>>

Orders == <<"le", "be">>
Precs == <<"us", "ns">>
H0(o, p) == [order |-> o, prec |-> p, zone |-> W(0), sigfigs |-> W(0), snaplen |-> W(65535), linktype |-> 1]
Pred(p) == IF p[2] = 0 THEN <<p[1] - 1, 65535>> ELSE <<p[1], p[2] - 1>>
Rc(d, k) == [sec |-> W(1700000000 + k), frac |-> W(1000 * k), incl |-> W(Len(d)), orig |-> W(Len(d)), data |-> d]
RecsOf(fs) == [k \in 1..Len(fs) |-> Rc(fs[k], k)]
MinOf(a, b) == IF a < b THEN a ELSE b
\* the frames cut to n octets, as a capture with snapshot length n holds them
Snapped(fs, n) == [k \in 1..Len(fs) |-> [Rc(SubSeq(fs[k], 1, MinOf(n, Len(fs[k]))), k) EXCEPT !.orig = W(Len(fs[k]))]]

Tails == <<"whole", "cut_data", "cut_header", "stray">>
Bads == <<"none", "incl_gt_orig", "incl_gt_snap", "frac">>
WithBad(h, rs, b) ==
  CASE b = "none" -> rs
    [] b = "incl_gt_orig" -> [rs EXCEPT ![3].orig = Pred(rs[3].incl)]
    [] b = "incl_gt_snap" -> rs                                   \* by the header: see HdrFor
    [] b = "frac" -> [rs EXCEPT ![3].frac = FracLimit(h.prec)]
\* a snapshot length one below the third record's length makes exactly that record (and any longer one) contradict the header
HdrFor(h, rs, b) == IF b = "incl_gt_snap" THEN [h EXCEPT !.snaplen = Pred(rs[3].incl)] ELSE h
WithTail(rs, t) ==
  CASE t = "whole" -> [rs |-> rs, cut |-> 0]
    [] t = "cut_data" -> [rs |-> rs, cut |-> 1]
    [] t = "cut_header" -> [rs |-> rs, cut |-> Len(rs[Len(rs)].data) + 3]
    [] t = "stray" -> [rs |-> Append(rs, Rc(<<>>, 9)), cut |-> 11]                 \* five octets behind the last record

Case(x, h, rs, cut, ok) ==
  LET bytes == FileBytes(h, rs, cut)
  IN [x |-> x, file |-> bytes, frames |-> [k \in 1..Len(rs) |-> rs[k].data], open_ok |-> ok /\ Len(bytes) >= 24,
      certain |-> IF ok /\ Len(bytes) >= 24 THEN Certain(h, rs, Len(bytes)) ELSE 0,
      \* records wholly inside the file, from the start: the most a lenient reader can deliver
      inside |-> IF ok /\ Len(bytes) >= 24 THEN Cardinality({i \in 1..Len(rs) : \A j \in 1..i : Inside(h, rs, Len(bytes), j)}) ELSE 0]

Base == {LET h == H0(o, p)  rs0 == RecsOf(In.eth)  rs == WithBad(h, rs0, b)  wt == WithTail(rs, t)
         IN Case([order |-> o, prec |-> p, tail |-> t, bad |-> b, what |-> "base"], HdrFor(h, rs0, b), wt.rs, wt.cut, TRUE) :
         o \in Range(Orders), p \in Range(Precs), t \in Range(Tails), b \in Range(Bads)}
Links == <<[lt |-> 1, fs |-> "eth"], [lt |-> 101, fs |-> "raw"], [lt |-> 12, fs |-> "raw"], [lt |-> 228, fs |-> "raw"], [lt |-> 0, fs |-> "null"], [lt |-> 113, fs |-> "eth"]>>
LinkCases == {Case([order |-> o, prec |-> p, linktype |-> l.lt, framing |-> l.fs, what |-> "link"], [H0(o, p) EXCEPT !.linktype = l.lt], RecsOf(In[l.fs]), 0, TRUE) :
              o \in Range(Orders), p \in Range(Precs), l \in Range(Links)}
SnapCases == {Case([order |-> o, prec |-> p, snaplen |-> Val(s), what |-> "snap"], [H0(o, p) EXCEPT !.snaplen = s], IF Val(s) < 1000 THEN Snapped(In.eth, Val(s)) ELSE RecsOf(In.eth), 0, TRUE) :
              o \in Range(Orders), p \in Range(Precs), s \in {W(262144), W(60), W(96), W(54), W(1)}}
TimeCases == {Case([order |-> o, prec |-> p, sec |-> s, what |-> "time"], [H0(o, p) EXCEPT !.zone = <<65535, 61936>>, !.sigfigs = W(6)],
                   [k \in 1..Len(In.eth) |-> [Rc(In.eth[k], k) EXCEPT !.sec = s, !.frac = IF k % 2 = 0 THEN Pred(FracLimit(p)) ELSE W(0)]], 0, TRUE) :
              o \in Range(Orders), p \in Range(Precs), s \in {W(0), <<65535, 65535>>, <<32768, 0>>}}
\* files that are no capture files, or hold nothing
Odd == {Case([what |-> "header only"], H0("le", "us"), <<>>, 0, TRUE), Case([what |-> "header only, big-endian nanoseconds"], H0("be", "ns"), <<>>, 0, TRUE),
        Case([what |-> "header cut short"], H0("le", "us"), <<>>, 1, TRUE), Case([what |-> "empty file"], H0("le", "us"), <<>>, 24, TRUE),
        [Case([what |-> "not a capture file (pcapng magic)"], H0("le", "us"), RecsOf(In.eth), 0, FALSE) EXCEPT !.file = <<10, 13, 13, 10>> \o SubSeq(@, 5, Len(@))],
        [Case([what |-> "not a capture file (text)"], H0("le", "us"), RecsOf(In.eth), 0, FALSE) EXCEPT !.file = <<71, 69, 84, 32>> \o SubSeq(@, 5, Len(@))]}
Cases == SetToSeq(Base \cup LinkCases \cup SnapCases \cup TimeCases \cup Odd)
Emit(i) == PrintT("REPLAY " \o ToJson([i |-> i] @@ Cases[i]))
Init == shard \in 0..(Shards - 1) /\ phase = 0
Next == phase = 0 /\ phase' = 1 /\ UNCHANGED shard
Inv == phase = 1 => \A i \in 1..Len(Cases) : (i % Shards = shard) => Emit(i)
Spec == Init /\ [][Next]_vars
\* laws of the format definition
ASSUME HeaderBytes(H0("le", "us")) = <<212, 195, 178, 161, 2, 0, 4, 0, 0, 0, 0, 0, 0, 0, 0, 0, 255, 255, 0, 0, 1, 0, 0, 0>>
ASSUME HeaderBytes(H0("be", "ns")) = <<161, 178, 60, 77, 0, 2, 0, 4, 0, 0, 0, 0, 0, 0, 0, 0, 0, 0, 255, 255, 0, 0, 0, 1>>
ASSUME Val(FracLimit("us")) = 1000000 /\ Val(FracLimit("ns")) = 1000000000
ASSUME \A c \in Range(Cases) : c.certain <= c.inside /\ c.inside <= Len(c.frames)
ASSUME PrintT("STAT " \o ToJson([n |-> Len(Cases)]))
=============================================================================
