------------------------------ MODULE HttpReasm ------------------------------
(***************************************************************************)
(* Per-connection HTTP stream reassembly (huginn-net-http http_process.rs) *)
(* on offsets.  Property C09.                                              *)
(*                                                                         *)
(* conn == [hlen : [{"c","s"} -> Nat]  bytes up to and including the end   *)
(*          of the head of each direction's stream,                        *)
(*          wrap : [{"c","s"} -> Nat | -1]  stream offset at which the     *)
(*          sequence number passes 2^32 (-1: it does not)]                 *)
(* seg  == [dir, off, len]   offset relative to the first data byte        *)
(*         (sequence number isn + 1 + off, modulo 2^32)                    *)
(* st   == [pieces : [dir -> set of <<off, len>>], parsed : [dir -> BOOL]] *)
(* Step yields out \in {"none", "ok", "garbled"} for the segment's own     *)
(* direction: a head is reported iff the bytes 0..hlen are all present,    *)
(* contiguously, and it has not been reported before.                      *)
(***************************************************************************)
EXTENDS Integers, FiniteSets, Sequences

Dirs == {"c", "s"}
Init0 == [pieces |-> [d \in Dirs |-> {}], parsed |-> [d \in Dirs |-> FALSE]]

Covered(ps, x) == \E p \in ps : p[1] <= x /\ x < p[1] + p[2]
\* all bytes 0 .. n-1 present
Prefix(ps, n) == \A x \in 0..(n - 1) : Covered(ps, x)

\* ---- the design
Step(conn, st, seg, D) ==
  LET d == seg.dir
      ps == st.pieces[d] \cup {<<seg.off, seg.len>>}
  IN IF st.parsed[d] THEN [st |-> st, out |-> "none"]
     ELSE IF Prefix(ps, conn.hlen[d])
          THEN [st |-> [pieces |-> [st.pieces EXCEPT ![d] = ps], parsed |-> [st.parsed EXCEPT ![d] = TRUE]], out |-> "ok"]
          ELSE [st |-> [st EXCEPT !.pieces[d] = ps], out |-> "none"]

\* ---- model of the code's assembly, used to recognise the recorded defects:
\* pieces are concatenated in order of absolute sequence number, gaps are not noticed.
\* AbsKey: pieces that start at or after the wrap offset sort before the others.
AbsBefore(conn, d, p, q) ==
  LET w == conn.wrap[d]
      pw == w >= 0 /\ p[1] >= w
      qw == w >= 0 /\ q[1] >= w
  IN IF pw # qw THEN pw ELSE p[1] < q[1]
\* the glued buffer begins with the true stream prefix of length n iff the pieces, in the code's order,
\* start at 0 and stay contiguous at least up to n
CodePrefixOk(conn, d, ps, n) ==
  /\ Prefix(ps, n)
  /\ \A p \in ps : p[1] < n => ~\E q \in ps : AbsBefore(conn, d, q, p) /\ q[1] > p[1]     \* nothing later is sorted before a head piece
\* classes of input on which the code's report can differ from the design's
\* the recorded defect (no contiguity check) concerns buffers WITH A HOLE: what is held does not form one run from offset 0, and the head
\* is not completely there.  A report on a gap-free but incomplete head is not that defect.
MaxEnd(ps) == IF ps = {} THEN 0 ELSE CHOOSE m \in {p[1] + p[2] : p \in ps} : \A p \in ps : p[1] + p[2] <= m
GapInHead(conn, d, ps) == ~Prefix(ps, conn.hlen[d]) /\ ~Prefix(ps, MaxEnd(ps))
WrapInStream(conn, d) == conn.wrap[d] >= 0

RECURSIVE Run(_, _, _, _)
Run(conn, segs, i, st) ==
  IF i > Len(segs) THEN <<>>
  ELSE LET r == Step(conn, st, segs[i], {}) IN <<r.out>> \o Run(conn, segs, i + 1, r.st)
Expected(conn, segs) == Run(conn, segs, 1, Init0)

\* pieces of direction d stored after the first i segments, as the code stores them (nothing once parsed: approximated by all)
PiecesUpTo(segs, i, d) == {<<segs[j].off, segs[j].len>> : j \in {k \in 1..i : segs[k].dir = d}}
=============================================================================
