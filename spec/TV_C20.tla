------------------------------- MODULE TV_C20 -------------------------------
(***************************************************************************)
(* C20: one row per packet of a trace: cfg, the three protocol analyzers'  *)
(* results for that packet (res) and the unified analyzer's (uni).         *)
(* Accepted iff uni = Unified!Merge(cfg, res).  Engine A (ASSUME): the     *)
(* masking laws hold for Merge on all configurations x presence patterns.  *)
(***************************************************************************)
EXTENDS Unified, Json, IOUtils, TLC
Rows == ndJsonDeserialize(IOEnv.TRACE)
Shards == 16
VARIABLES shard, phase
vars == <<shard, phase>>

Cfgs == [tcp : BOOLEAN, http : BOOLEAN, tls : BOOLEAN, matcher : BOOLEAN, db : BOOLEAN]
X(s) == <<[raw |-> s, lab |-> "L" \o s, q |-> "95"]>>
Pres == {[tcp |-> [acc |-> a1, f |-> [fld \in TcpFields |-> IF fld \in s1 THEN X(fld) ELSE <<>>]],
          http |-> [acc |-> a2, f |-> [fld \in HttpFields |-> IF fld \in s2 THEN X(fld) ELSE <<>>]],
          tls |-> [acc |-> a3, f |-> [fld \in TlsFields |-> IF fld \in s3 THEN X(fld) ELSE <<>>]]] :
            a1 \in BOOLEAN, a2 \in BOOLEAN, a3 \in BOOLEAN, s1 \in {{}, {"syn", "mtu"}, {"syn_ack", "server_uptime"}}, s2 \in {{}, {"req"}, {"resp"}}, s3 \in {{}, {"tls"}}}
ASSUME \A cfg \in Cfgs, res \in Pres : LawMatcherOnlyMasks(cfg, res) /\ \A p \in {"tcp", "http", "tls"} : LawDisableRemovesOnlyThat(cfg, res, p)

RowOk(r) ==
  LET want == Merge(r.cfg, r.res)
      bad == {fld \in AllFields : want[fld] # r.uni[fld]}
  IN \/ bad = {}
     \/ PrintT("BAD " \o ToJson([id |-> r.id, k |-> r.k, fields |-> bad, want |-> [fld \in bad |-> want[fld]], got |-> [fld \in bad |-> r.uni[fld]]]))
Init == shard \in 0..(Shards - 1) /\ phase = 0
Next == phase = 0 /\ phase' = 1 /\ UNCHANGED shard
Inv == phase = 1 => \A i \in 1..Len(Rows) : (i % Shards = shard) => RowOk(Rows[i])
Spec == Init /\ [][Next]_vars
=============================================================================
