------------------------------- MODULE TV_C09 -------------------------------
(***************************************************************************)
(* C09, implementation -> specification.  One row per recorded connection: *)
(* conn (head lengths, wrap offsets), segs (data segments in arrival       *)
(* order: dir, off, len), out (per segment, for its own direction: "none", *)
(* "ok" = reported and identical to the one-shot result, "garbled" =       *)
(* reported but different, "wrongdir" = the other direction's field set).  *)
(* Accepted iff out is what HttpReasm assigns.  A difference is attributed *)
(* to a recorded defect only on the input class that defect concerns.      *)
(***************************************************************************)
EXTENDS HttpReasm, Json, IOUtils, TLC

Rows == ndJsonDeserialize(IOEnv.TRACE)
Shards == 16
VARIABLES shard, phase
vars == <<shard, phase>>

Idx(segs, d) == SelectSeq([i \in 1..Len(segs) |-> i], LAMBDA i : segs[i].dir = d)
FirstDiff(r, want, d) ==
  LET ix == Idx(r.segs, d)
      bad == {k \in 1..Len(ix) : r.out[ix[k]] # want[ix[k]]}
  IN IF bad = {} THEN 0 ELSE ix[CHOOSE k \in bad : \A j \in bad : k <= j]

Classify(r, want, d) ==
  LET i == FirstDiff(r, want, d) IN
  IF i = 0 THEN "ok"
  ELSE IF r.out[i] \in {"ok", "garbled"} /\ want[i] = "none" /\ GapInHead(r.conn, d, PiecesUpTo(r.segs, i, d)) THEN "D09_no_contiguity"
  ELSE IF WrapInStream(r.conn, d) /\ r.out[i] \in {"none", "garbled", "ok"} THEN "D09_abs_order"
  ELSE "bad"

RowOk(r) ==
  LET want == Expected(r.conn, r.segs)
      cls == {Classify(r, want, d) : d \in Dirs}
  IN /\ \A c \in cls \ {"ok", "bad"} : PrintT("KNOWN " \o ToJson([dev |-> c, id |-> r.id]))
     /\ ("bad" \in cls => PrintT("BAD " \o ToJson([id |-> r.id, want |-> want, got |-> r.out])))
Init == shard \in 0..(Shards - 1) /\ phase = 0
Next == phase = 0 /\ phase' = 1 /\ UNCHANGED shard
Inv == phase = 1 => \A i \in 1..Len(Rows) : (i % Shards = shard) => RowOk(Rows[i])
Spec == Init /\ [][Next]_vars
=============================================================================
