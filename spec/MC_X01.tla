------------------------------- MODULE MC_X01 -------------------------------
(* X01 (extension): frames of every framing x IP version x leading bytes that resemble another framing x truncation points,     *)
(* with the parser's view, the detector's answer and whether they agree.  Well-formed frames of one link type must agree.        *)
EXTENDS Datalink, Json, IOUtils, TLC, SequencesExt
Shards == 16
VARIABLES shard, phase
vars == <<shard, phase>>
\* first two bytes of the destination MAC / of whatever comes first: ordinary, IPv4-looking, IPv6-looking, loopback-looking
Leads == <<<<2, 0>>, <<69, 0>>, <<70, 0>>, <<96, 0>>, <<30, 0>>, <<30, 1>>, <<65, 0>>>>
Hdr(ver, ihl, vnib) == [BaseHdr(ver) EXCEPT !.ihl = ihl, !.vnib = vnib]
Cuts == {0, 1, 14, 20, 21, 34}
Base == {[link |-> l, ver |-> v, ihl |-> i, vnib |-> n, lead |-> k, cut |-> c] :
           l \in {"eth", "raw", "null"}, v \in {4, 6}, i \in {4, 5, 6}, n \in {4, 6, 0}, k \in 1..Len(Leads), c \in Cuts}
Cases == {x \in Base : (x.ver = 6 => x.ihl = 5) /\ (x.link # "eth" => x.lead = 1)}
CaseSeq == SetToSeq(Cases)
FrameOf(x) ==
  LET f0 == Frame(x.link, Hdr(x.ver, x.ihl, x.vnib))
      f1 == IF x.link = "eth" THEN Leads[x.lead] \o SubSeq(f0, 3, Len(f0)) ELSE f0
  IN SubSeq(f1, 1, Len(f1) - x.cut)
WellFormed(x) == x.vnib = x.ver /\ x.ihl >= 5 /\ x.cut = 0
Emit(i) ==
  LET x == CaseSeq[i]  f == FrameOf(x) IN
  /\ (WellFormed(x) /\ x.lead = 1) => (Agree(f) /\ Parse(f).fmt = x.link)           \* law: ordinary frames are recognised, by both
  /\ PrintT("REPLAY " \o ToJson([i |-> i, x |-> x, frame |-> f, view |-> View(f), fmt |-> Parse(f).fmt, detect |-> Detect(f), agree |-> Agree(f),
                                  readings |-> Cardinality(Readings(f))]))
Init == shard \in 0..(Shards - 1) /\ phase = 0
Next == phase = 0 /\ phase' = 1 /\ UNCHANGED shard
Inv == phase = 1 => \A i \in 1..Len(CaseSeq) : (i % Shards = shard) => Emit(i)
Spec == Init /\ [][Next]_vars
=============================================================================
