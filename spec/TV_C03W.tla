------------------------------ MODULE TV_C03W -------------------------------
(***************************************************************************)
(* C03 (iv): the implementation's window classification over all 65536     *)
(* windows, per case c = [mss, th, ts, ver].  A row lists exactly the      *)
(* windows whose class is not the raw value (exc: [w, c]); accepted iff    *)
(* every listed class is WinClass and no other window has a non-raw class. *)
(***************************************************************************)
EXTENDS TcpExtract, Json, IOUtils, TLC

Rows == ndJsonDeserialize(IOEnv.TRACE)
Shards == 16
VARIABLES shard, phase
vars == <<shard, phase>>

Class(c, w) == WinClass(w, c.mss, c.th, c.ts, c.ver)
RowOk(row) ==
  LET c == row.c
      wrong == {i \in 1..Len(row.exc) : Class(c, row.exc[i].w) # row.exc[i].c}
      listed == {row.exc[i].w : i \in 1..Len(row.exc)}
      missing == {w \in 0..65535 : Class(c, w) # W("value", w) /\ w \notin listed}
  IN \/ (wrong = {} /\ missing = {})
     \/ PrintT("BAD " \o ToJson([case |-> c, nwrong |-> Cardinality(wrong), nmissing |-> Cardinality(missing),
                                  example |-> IF wrong # {} THEN LET i == CHOOSE x \in wrong : TRUE IN
                                                                  [w |-> row.exc[i].w, observed |-> row.exc[i].c, expected |-> Class(c, row.exc[i].w)]
                                              ELSE LET w == CHOOSE x \in missing : TRUE IN
                                                   [w |-> w, observed |-> W("value", w), expected |-> Class(c, w)]]))
Init == shard \in 0..(Shards - 1) /\ phase = 0
Next == phase = 0 /\ phase' = 1 /\ UNCHANGED shard
Inv == phase = 1 => \A r \in 1..Len(Rows) : (r % Shards = shard) => RowOk(Rows[r])
Spec == Init /\ [][Next]_vars
=============================================================================
