------------------------------- MODULE MC_C13 -------------------------------
(***************************************************************************)
(* C13 (TCP half): for every TCP signature of the bundled database         *)
(* (IOEnv.SIGS, exported by the code's own loader) and every choice of the *)
(* grid, the conforming packet (Reach!HdrOf), the labels the design        *)
(* accepts for it (own label, or an earlier entry the packet conforms to   *)
(* equally), and what the code model (observation as the code renders it,  *)
(* distances of Match, recorded deviations K) predicts.                    *)
(* Engine A: the packet built for a signature conforms to it.              *)
(***************************************************************************)
EXTENDS Reach, Json, IOUtils, TLC, SequencesExt

Db == ndJsonDeserialize(IOEnv.SIGS)[1]
Thorough == IOEnv.VERIF_TIER = "thorough"
K == {"D03_eol_continues"}
Shards == 16
VARIABLES shard, phase
vars == <<shard, phase>>

Hops == IF Thorough THEN {0, 1, 7, 30} ELSE {0, 7}
\* MSS values for signatures that leave it open; below 100 the code keeps the window as a raw value and consults the MSS only when matching
Msss == IF Thorough THEN {88, 96, 99, 100, 536, 1220, 1460, 8960} ELSE {88, 1460}
Scs  == IF Thorough THEN {0, 1, 7, 13, 14} ELSE {7, 14}
ChoiceGrid == {[ver |-> v, hop |-> h, m |-> m, sc |-> s, ecnip |-> e, pl |-> p] :
              v \in {4, 6}, h \in Hops, m \in Msss, s \in Scs, e \in BOOLEAN, p \in BOOLEAN}
\* choices that make a difference for this signature (avoid generating the same packet twice)
Relevant(sig, c) ==
  /\ (sig.mss >= 0 => c.m = CHOOSE m \in Msss : TRUE)
  /\ ((sig.wscale >= 0 \/ ~\E i \in 1..Len(sig.olayout) : sig.olayout[i].k = "ws") => c.sc = CHOOSE s \in Scs : TRUE)
  /\ (~Has("ecn", sig) => ~c.ecnip)

Table(name) == IF name = "tcp_request" THEN Db.tcp_request ELSE Db.tcp_response

CaseOf(name, i, c) ==
  LET tab == Table(name)
      sig == tab[i].sig
      synack == name = "tcp_response"
      h == HdrOf(sig, c, synack)
      ol == AreaOf(sig, c, synack)
      obs0 == Obs(h, ol, ThCode(h), {})
      obsK == CodeObs(h, ol, K)
      accept == {tab[j].label : j \in {x \in 1..i : Conforms(obs0, tab[x].sig, h)}}
      dists == [j \in 1..Len(tab) |-> TcpDist(obsK, tab[j].sig)]
      best == SelectBest(dists)
  IN [table |-> name, i |-> i, line |-> tab[i].text, choice |-> c, frame |-> Frame("eth", h),
      conforms |-> Conforms(obs0, sig, h),
      accept |-> SetToSeq(accept),
      predicted |-> IF best = 0 THEN <<>> ELSE <<tab[best].label>>,
      predicted_entry |-> best, predicted_dist |-> IF best = 0 THEN -1 ELSE dists[best],
      own_dist |-> dists[i],
      reasons |-> SetToSeq(Reasons(obsK, sig, c.ver))]

EmitSig(name, i) ==
  LET sig == Table(name)[i].sig
      cs == {c \in ChoiceGrid : Relevant(sig, c) /\ Constructible(sig, c, name = "tcp_response")}
  IN /\ \A c \in cs : LET r == CaseOf(name, i, c) IN r.conforms /\ PrintT("REPLAY " \o ToJson(r))
     /\ (cs = {} => PrintT("STAT " \o ToJson([skipped |-> Table(name)[i].text, table |-> name])))

Init == shard \in 0..(Shards - 1) /\ phase = 0
Next == phase = 0 /\ phase' = 1 /\ UNCHANGED shard
Inv == phase = 1 =>
   /\ \A i \in 1..Len(Db.tcp_request) : (i % Shards = shard) => EmitSig("tcp_request", i)
   /\ \A i \in 1..Len(Db.tcp_response) : (i % Shards = shard) => EmitSig("tcp_response", i)
Spec == Init /\ [][Next]_vars
=============================================================================
