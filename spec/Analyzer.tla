------------------------------ MODULE Analyzer ------------------------------
(***************************************************************************)
(* One analyzer instance = the per-connection machines side by side.       *)
(* Property C07: the results attributed to a connection depend on that     *)
(* connection's own packets only.                                          *)
(* A connection is a script: a sequence of steps.  A step is               *)
(*   [k |-> "plain", out |-> o]      a packet whose result o depends on    *)
(*                                   the connection's own history only     *)
(*   [k |-> "ins", e |-> x]          HTTP/2 header block that inserts x    *)
(*                                   into the HPACK table and reports it   *)
(*   [k |-> "ref"]                   block that references table entry 62  *)
(*   [k |-> "zero"]                  block that sets the table size to 0   *)
(*   [k |-> "zerofail"] / [k |-> "insfail", e |-> x]   block that changes  *)
(*                                   the table and then fails to decode    *)
(* The only state of this abstraction is the HPACK dynamic table: one per  *)
(* connection in the design; ONE FOR THE WHOLE INSTANCE under the recorded *)
(* deviation D07_shared_hpack; one for the instance that is reset only     *)
(* after a successful decode under the seeded D07_reset_on_success.        *)
(***************************************************************************)
EXTENDS Integers, Sequences, FiniteSets

\* result of one step against table t: [out, t']
StepOn(s, t) ==
  CASE s.k = "plain" -> [out |-> s.out, t |-> t]
    [] s.k = "ins"   -> [out |-> <<"hdr", s.e>>, t |-> [t EXCEPT !.tab = IF t.cap = 0 THEN <<>> ELSE <<s.e>> \o @]]
    [] s.k = "ref"   -> [out |-> IF Len(t.tab) > 0 THEN <<"hdr", t.tab[1]>> ELSE <<"undecodable">>, t |-> t]
    [] s.k = "zero"  -> [out |-> <<"none">>, t |-> [tab |-> <<>>, cap |-> 0]]
    [] s.k = "zerofail" -> [out |-> <<"undecodable">>, t |-> [tab |-> <<>>, cap |-> 0]]
    [] s.k = "insfail"  -> [out |-> <<"undecodable">>, t |-> [t EXCEPT !.tab = IF t.cap = 0 THEN <<>> ELSE <<s.e>> \o @]]
\* a block that does not decode (by kind, or a reference into an empty table)
Fails(s, t) == s.k \in {"zerofail", "insfail"} \/ (s.k = "ref" /\ Len(t.tab) = 0)
Fresh == [tab |-> <<>>, cap |-> 1]

\* outputs of a script run alone
RECURSIVE Alone(_, _)
Alone(script, t) == IF Len(script) = 0 THEN <<>> ELSE LET r == StepOn(script[1], t) IN <<r.out>> \o Alone(Tail(script), r.t)
=============================================================================
