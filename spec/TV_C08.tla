------------------------------- MODULE TV_C08 -------------------------------
(***************************************************************************)
(* C08, implementation -> specification.  One row per recorded connection: *)
(* recs/tail (how the client stream was built), segs (segment lengths in   *)
(* arrival order), reader (incremental reader API vs packet-level          *)
(* analyzer), out (per segment: 0 = nothing reported, k = the k-th record  *)
(* was reported with exactly the one-shot result, -1 = something else was  *)
(* reported).  Accepted iff out is what TlsReasm assigns.                  *)
(***************************************************************************)
EXTENDS TlsReasm, Json, IOUtils, TLC

Rows == ndJsonDeserialize(IOEnv.TRACE)
Shards == 16
VARIABLES shard, phase
vars == <<shard, phase>>
RowOk(r) ==
  LET want == Expected(r.recs, r.segs, r.reader, {}) IN
  \/ r.out = want
  \/ (r.out = Expected(r.recs, r.segs, r.reader, {"D08_nonhello_keeps_flow"}) /\ PrintT("KNOWN " \o ToJson([dev |-> "D08_nonhello_keeps_flow", id |-> r.id])))
  \/ PrintT("BAD " \o ToJson([id |-> r.id, want |-> want, got |-> r.out]))
Init == shard \in 0..(Shards - 1) /\ phase = 0
Next == phase = 0 /\ phase' = 1 /\ UNCHANGED shard
Inv == phase = 1 => \A i \in 1..Len(Rows) : (i % Shards = shard) => RowOk(Rows[i])
Spec == Init /\ [][Next]_vars
=============================================================================
