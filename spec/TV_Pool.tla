------------------------------- MODULE TV_Pool ------------------------------
(***************************************************************************)
(* Trace validation of real pool runs (C18 accounting, C10).  Events in    *)
(* the recorder's global order (hook H2), several runs concatenated:       *)
(*   reset (crate, nw)                start of a run                       *)
(*   ds (p)                           dispatch(p) called                   *)
(*   de (p, o)                        dispatch(p) returned o               *)
(*   wp (p, w, id)                    worker w took packet p (identity id) *)
(*   st (dispatched, dropped)         statistics after the pool drained    *)
(* The trace actions are Pool's steps at the grain the code exposes:       *)
(*   ds = DStart;  wp = (DSend if still pending) . WRecv/WFill . WProc;    *)
(*   de = (DSend if still pending) . DCount.                               *)
(* State is the history part of Pool (outcome, analysed) plus the worker   *)
(* each identity was seen on.                                              *)
(***************************************************************************)
EXTENDS Integers, Sequences, FiniteSets, Json, IOUtils, TLC

Rec == ndJsonDeserialize(IOEnv.TRACE)
VARIABLES l, cfg, started, outc, done, wof
vars == <<l, cfg, started, outc, done, wof>>

Init == l = 1 /\ cfg = [crate |-> "", nw |-> 0] /\ started = {} /\ outc = {} /\ done = {} /\ wof = {}
Ev == Rec[l]
Is(k) == l <= Len(Rec) /\ Ev.k = k /\ l' = l + 1

Reset == Is("reset") /\ cfg' = [crate |-> Ev.crate, nw |-> Ev.nw] /\ started' = {} /\ outc' = {} /\ done' = {} /\ wof' = {}
DS == Is("ds") /\ Ev.p \notin started /\ started' = started \cup {Ev.p} /\ UNCHANGED <<cfg, outc, done, wof>>
\* a worker takes a packet: it was handed to dispatch, has not been reported dropped, is taken once,
\* by a valid worker, and by the worker that serves its identity
WP == /\ Is("wp") /\ Ev.p \in started /\ Ev.p \notin done
      /\ <<Ev.p, "dropped">> \notin outc
      /\ Ev.w >= 0 /\ Ev.w < cfg.nw
      /\ \A x \in wof : x[1] = Ev.id => x[2] = Ev.w
      /\ done' = done \cup {Ev.p} /\ wof' = wof \cup {<<Ev.id, Ev.w>>}
      /\ UNCHANGED <<cfg, started, outc>>
DE == /\ Is("de") /\ Ev.p \in started /\ ~\E o \in {"queued", "dropped"} : <<Ev.p, o>> \in outc
      /\ (Ev.o = "dropped" => Ev.p \notin done)
      /\ outc' = outc \cup {<<Ev.p, Ev.o>>}
      /\ UNCHANGED <<cfg, started, done, wof>>
NQ == Cardinality({x \in outc : x[2] = "queued"})
ND == Cardinality({x \in outc : x[2] = "dropped"})
\* after the drain: every queued packet was taken, every call returned, the counters agree with the outcomes
ST == /\ Is("st")
      /\ \A x \in outc : x[2] = "queued" => x[1] \in done
      /\ \A p \in started : \E o \in {"queued", "dropped"} : <<p, o>> \in outc
      /\ Ev.dropped = ND
      /\ Ev.dispatched = (IF cfg.crate = "tcp" THEN NQ ELSE NQ + ND - Ev.unroutable)
      /\ UNCHANGED <<cfg, started, outc, done, wof>>
Next == Reset \/ DS \/ WP \/ DE \/ ST
Spec == Init /\ [][Next]_vars

Accepted ==
  LET n == TLCGet("stats").diameter - 1 IN
  IF n = Len(Rec) THEN PrintT("VERDICT " \o ToJson([ok |-> TRUE, events |-> n]))
  ELSE PrintT("VERDICT " \o ToJson([ok |-> FALSE, events |-> Len(Rec), matched |-> n, unmatched |-> Rec[n + 1]]))
=============================================================================
