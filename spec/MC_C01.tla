------------------------------- MODULE MC_C01 -------------------------------
(* C01: the (kind, length, position) space of TCP option encodings, as frames *)
EXTENDS Totality, Json, IOUtils, TLC
Thorough == IOEnv.VERIF_TIER = "thorough"
Shards == 16
VARIABLES shard, phase
vars == <<shard, phase>>
Kinds == {0, 1, 2, 3, 4, 5, 8, 9, 254}
Sizes == IF Thorough THEN {4, 8, 12, 16, 20, 24, 28, 32, 36, 40} ELSE {4, 12, 40}
Lens == 0..42
Links == IF Thorough THEN {"eth", "raw", "null"} ELSE {"eth"}
Init == shard \in 0..(Shards - 1) /\ phase = 0
Next == phase = 0 /\ phase' = 1 /\ UNCHANGED shard
Inv == phase = 1 =>
  \A s \in Sizes : \A p \in 0..(s - 1) : (((s + p) % Shards) = shard) =>
     \A l \in Links, v \in {4, 6}, k \in Kinds, n \in Lens :
        ((k \in {0, 1} => n = 0) /\ (~Thorough => (p >= s - 12 \/ p < 2))) => PrintT("REPLAY " \o ToJson([f |-> OptFrame(l, v, s, p, k, n, IF (p + n) % 2 = 0 THEN SYN ELSE SYN + ACK), kind |-> k, len |-> n, pos |-> p, size |-> s]))
Spec == Init /\ [][Next]_vars
=============================================================================
