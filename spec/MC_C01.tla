------------------------------- MODULE MC_C01 -------------------------------
(* C01: the (kind, length, position) space of TCP option encodings, as frames *)
EXTENDS Totality, Json, IOUtils, TLC
Thorough == IOEnv.VERIF_TIER = "thorough"
Shards == 16
VARIABLES shard, phase
vars == <<shard, phase>>
Kinds == {0, 1, 2, 3, 4, 5, 8, 9, 254}
Sizes == IF Thorough THEN {4, 8, 12, 16, 20, 24, 28, 32, 36, 40} ELSE {4, 12, 40}
Lens == 0..42
Links == IF Thorough THEN {"eth", "raw", "null"} ELSE {"eth"}
Init == shard \in 0..(Shards - 1) /\ phase = 0
Next == phase = 0 /\ phase' = 1 /\ UNCHANGED shard
H2Types == 0..10
H2Flags == IF Thorough THEN {0, 1, 4, 5, 8, 9, 12, 13, 32, 33, 36, 37, 40, 41, 44, 45} ELSE {0, 4, 8, 12, 32, 36, 40, 44}
H2Lens == IF Thorough THEN 0..12 ELSE 0..8
H2First == (IF Thorough THEN 0..14 ELSE 0..9) \cup {255}
InvH2 == phase = 1 =>
  \A t \in H2Types : ((t % Shards) = shard) =>
     \A fl \in H2Flags, st \in {0, 1}, n \in H2Lens, b0 \in H2First, d \in {-1, 0, 1}, pre \in BOOLEAN, tail \in BOOLEAN :
        ((d # 0 => b0 = 0) /\ (n = 0 => b0 = 0) /\ (~Thorough => (tail = FALSE \/ b0 \in {0, 255}))) =>
           PrintT("H2 " \o ToJson([b |-> H2Conn(pre, H2Shape(t, fl, st, n, b0, d), tail)]))
InvTls == phase = 1 =>
  /\ \A f \in TlsFields : \A d \in -8..8 : (((d + 8) % Shards) = shard) => PrintT("TLS " \o ToJson([b |-> TlsHelloWith(f, d), field |-> f, delta |-> d]))
  /\ \A i \in 1..Len(TlsTexts) : ((i % Shards) = shard) =>
        /\ PrintT("TLS " \o ToJson([b |-> TlsHelloText(<<97, 46, 98>>, <<TlsTexts[i]>>), field |-> "text", delta |-> i]))
        /\ PrintT("TLS " \o ToJson([b |-> TlsHelloText(<<97, 46, 98>>, <<<<104, 50>>, TlsTexts[i]>>), field |-> "text", delta |-> 100 + i]))
        /\ PrintT("TLS " \o ToJson([b |-> TlsHelloText(TlsTexts[i], <<<<104, 50>>>>), field |-> "text", delta |-> 200 + i]))
Inv == phase = 1 =>
  \A s \in Sizes : \A p \in 0..(s - 1) : (((s + p) % Shards) = shard) =>
     \A l \in Links, v \in {4, 6}, k \in Kinds, n \in Lens :
        ((k \in {0, 1} => n = 0) /\ (~Thorough => (p >= s - 12 \/ p < 2))) => PrintT("REPLAY " \o ToJson([f |-> OptFrame(l, v, s, p, k, n, IF (p + n) % 2 = 0 THEN SYN ELSE SYN + ACK), kind |-> k, len |-> n, pos |-> p, size |-> s]))
Spec == Init /\ [][Next]_vars
=============================================================================
