SPECIFICATION Spec
POSTCONDITION Accepted
CHECK_DEADLOCK FALSE
