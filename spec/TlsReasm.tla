------------------------------ MODULE TlsReasm ------------------------------
(***************************************************************************)
(* Per-connection TLS ClientHello reassembly (huginn-net-tls process.rs +  *)
(* tls_client_hello_reader.rs), on lengths.  Property C08.                 *)
(*                                                                         *)
(* A client stream is a sequence of records followed by `tail` bytes that  *)
(* are not a record:  rec == [n : total bytes incl. the 5-byte header,     *)
(*                            kind : "hello" | "handshake" | "appdata"]    *)
(* st == [tracked : BOOLEAN, start : stream offset of the tracked record,  *)
(*        len : bytes buffered, pos : stream offset of the next segment]   *)
(* Step(st, n) consumes one segment of n bytes and yields the new state    *)
(* and out = 0 (nothing reported) or k (the k-th record, a ClientHello,    *)
(* is reported).                                                           *)
(***************************************************************************)
EXTENDS Integers, Sequences

RECURSIVE StartOf(_, _)
StartOf(recs, k) == IF k = 1 THEN 0 ELSE StartOf(recs, k - 1) + recs[k - 1].n
\* index of the record that starts exactly at stream offset p, 0 if none
RecAt(recs, p) == IF \E k \in 1..Len(recs) : StartOf(recs, k) = p THEN CHOOSE k \in 1..Len(recs) : StartOf(recs, k) = p ELSE 0

Init0 == [tracked |-> FALSE, start |-> 0, len |-> 0, pos |-> 0]

\* packet-level analyzer: a connection is picked up only at a segment that begins with a handshake record header (>= 5 bytes)
Step(recs, st, n, D) ==
  LET k0 == RecAt(recs, st.pos)
      admit == ~st.tracked /\ n >= 5 /\ k0 # 0 /\ recs[k0].kind \in {"hello", "handshake"}
      tracked == st.tracked \/ admit
      start == IF st.tracked THEN st.start ELSE st.pos
      len == (IF st.tracked THEN st.len ELSE 0) + n
      k == RecAt(recs, start)
  IN IF ~tracked THEN [st |-> [st EXCEPT !.pos = @ + n], out |-> 0]
     ELSE IF k = 0 \/ recs[k].kind = "appdata"
          THEN \* a tracked buffer that does not begin with a handshake record never yields anything
               [st |-> [tracked |-> TRUE, start |-> start, len |-> len, pos |-> st.pos + n], out |-> 0]
     ELSE IF len < recs[k].n THEN [st |-> [tracked |-> TRUE, start |-> start, len |-> len, pos |-> st.pos + n], out |-> 0]
     ELSE \* the record is complete with this segment: reported iff it is a ClientHello; the connection is forgotten
          IF recs[k].kind = "hello"
          THEN [st |-> [tracked |-> FALSE, start |-> 0, len |-> 0, pos |-> st.pos + n], out |-> k]
          ELSE IF "D08_nonhello_keeps_flow" \in D
               THEN \* code: the reader is reset but the flow stays in the table; the next segment starts a new buffer
                    [st |-> [tracked |-> TRUE, start |-> st.pos + n, len |-> 0, pos |-> st.pos + n], out |-> 0]
               ELSE [st |-> [tracked |-> FALSE, start |-> 0, len |-> 0, pos |-> st.pos + n], out |-> 0]

\* incremental reader API: no admission rule, one signature per reader
ReaderStep(recs, st, n) ==
  LET len == st.len + n IN
  IF st.tracked THEN [st |-> [st EXCEPT !.pos = @ + n], out |-> 0]            \* tracked = "signature already parsed"
  ELSE IF Len(recs) = 0 \/ recs[1].kind = "appdata" \/ len < recs[1].n THEN [st |-> [st EXCEPT !.len = len, !.pos = @ + n], out |-> 0]
  ELSE IF recs[1].kind = "hello" THEN [st |-> [tracked |-> TRUE, start |-> 0, len |-> 0, pos |-> st.pos + n], out |-> 1]
  ELSE [st |-> [tracked |-> FALSE, start |-> 0, len |-> 0, pos |-> st.pos + n], out |-> 0]

RECURSIVE Run(_, _, _, _, _, _)
Run(recs, segs, i, st, reader, D) ==
  IF i > Len(segs) THEN <<>>
  ELSE LET r == IF reader THEN ReaderStep(recs, st, segs[i]) ELSE Step(recs, st, segs[i], D)
       IN <<r.out>> \o Run(recs, segs, i + 1, r.st, reader, D)
Expected(recs, segs, reader, D) == Run(recs, segs, 1, Init0, reader, D)
=============================================================================
