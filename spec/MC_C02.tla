------------------------------- MODULE MC_C02 -------------------------------
(***************************************************************************)
(* C02, engine A and B.                                                    *)
(* A: on the model of the index (Match!TcpSigKeys / HttpSigKeys), looking  *)
(*    up only the indexed candidates selects the same entry as a full scan *)
(*    (IndexTransparent), for every database of <= 3 signatures over the   *)
(*    vocabulary below and every observation; with D02_http_any_10_11 the  *)
(*    same statement must FAIL (the model sees the recorded defect).       *)
(* B: the same databases, printed to p0f text, with all observations, as   *)
(*    REPLAY vectors for the real loader + find_best_match.                *)
(***************************************************************************)
EXTENDS Match, Json, IOUtils, TLC, SequencesExt

Shards == 16
Stride == atoi(IOEnv.VERIF_STRIDE)
Offset == atoi(IOEnv.VERIF_OFFSET) % Stride
VARIABLES shard, phase
vars == <<shard, phase>>

L1 == <<O("mss"), O("nop"), O("ws")>>
L2 == <<O("mss"), O("sok"), O("ts"), O("nop"), O("ws")>>
VerS == <<"4", "6", "*">>
PcS == <<"0", "+", "*">>
\* an end-of-options marker that is not the last element (what the analyzer reports when option bytes follow it)
L3 == <<O("mss"), OEol(2), O("nop"), OEol(0)>>
LayS == <<L1, L2, L3>>
MssS == <<-1, 1460>>
TtlS == <<TtlV(64), TtlV(128)>>
NT == 3 * 3 * 3 * 2 * 2
TcpSigAt(k) ==
  LET d1 == k % 3  r1 == k \div 3
      d2 == r1 % 3 r2 == r1 \div 3
      d3 == r2 % 3 r3 == r2 \div 3
      d4 == r3 % 2 d5 == r3 \div 2
  IN [ver |-> VerS[d1 + 1], pclass |-> PcS[d2 + 1], olayout |-> LayS[d3 + 1], mss |-> MssS[d4 + 1], ittl |-> TtlS[d5 + 1],
      olen |-> 0, wsize |-> W("mss", 4), wscale |-> 7, quirks |-> <<"df", "id+">>]
TcpObs == {[ver |-> v, pclass |-> p, olayout |-> l, mss |-> m, ittl |-> t, olen |-> 0, wsize |-> W("mss", 4), wscale |-> 7, quirks |-> <<"df", "id+">>] :
             v \in {"4", "6"}, p \in {"0", "+"}, l \in {L1, L2, L3}, m \in {1460, 1400}, t \in {TtlD(57, 7), TtlD(120, 8)}}

Extra(n) == [i \in 1..n |-> H("X-Extra-" \o ToString(i))]
HVerS == <<"0", "1", "*">>
HoS == <<<<H("Host"), HO("Accept")>>, <<H("Host"), H("User-Agent")>>>>
SwS == <<"", "curl">>
NH == 3 * 2 * 2
HttpSigAt(k) == [ver |-> HVerS[(k % 3) + 1], horder |-> HoS[((k \div 3) % 2) + 1], habsent |-> <<>>, sw |-> SwS[(k \div 6) + 1]]
HttpObs == {[ver |-> v, horder |-> h, habsent |-> <<>>, sw |-> w] :
              v \in {"0", "1", "2", "3"}, h \in {<<H("Host")>>, <<H("Host"), H("Accept")>>, <<H("Host"), H("User-Agent")>>}, w \in {"", "curl"}}
           \* far observations: 4 / 7 / 10 unexpected headers in either list and another software string, so that the best match lies at
           \* every distance from 1 to 9 (the quality reported must be the one of THAT distance on the HTTP scale)
           \cup {[ver |-> "1", horder |-> <<H("Host")>> \o Extra(k), habsent |-> Extra(a), sw |-> w] : k \in {0, 4, 7, 10}, a \in {0, 4, 10}, w \in {"curl", "zz"}}

\* databases: sequences of 1..3 signature numbers (base n), index in length-then-lexicographic order
NDb(n) == n + n * n + n * n * n
DbAt(n, i) == IF i < n THEN <<i>>
              ELSE IF i < n + n * n THEN LET j == i - n IN <<j \div n, j % n>>
              ELSE LET j == i - n - n * n IN <<j \div (n * n), (j \div n) % n, j % n>>

\* ---- A
TcpTransparent(sigs) == \A o \in TcpObs : SelectBest(TcpCandidates(sigs, o)) = SelectBest(TcpAll(sigs, o))
HttpTransparent(sigs, D) == \A o \in HttpObs : SelectBest(HttpCandidates(sigs, o, D)) = SelectBest(HttpAll(sigs, o))
\* anti-vacuity: the invariant can fail -- it does for the recorded defect
ASSUME \E i \in 0..(NH - 1) : ~HttpTransparent(<<HttpSigAt(i)>>, {"D02_http_any_10_11"})

\* ---- B: text of a database; grouping g: 0 = one label per signature, 1 = all under one label, 2 = first two share a label, 3 / 4 = with labels that have no signatures
Lbl(n) == "label = s:unix:Os" \o ToString(n) \o ":f" \o ToString(n)
\* g = 5: the third entry is declared under the SAME label text as the first (a label may be declared again later in a section; the
\* entries keep their places in the file)
Empty(n) == "label = s:unix:Empty" \o ToString(n) \o ":none"
RECURSIVE Lines(_, _, _, _)
Lines(texts, g, k, acc) ==
  IF k > Len(texts) THEN acc
  ELSE LET newlabel == (k = 1) \/ g \in {0, 3, 4, 5} \/ (g = 2 /\ k = 3)
           \* labels without any signature line: before every label (g = 3), between the first two entries (g = 4)
           empties == IF (g = 3 /\ newlabel) \/ (g = 4 /\ k = 2) THEN <<Empty(k)>> ELSE <<>>
       IN Lines(texts, g, k + 1, acc \o empties \o (IF newlabel THEN <<Lbl(IF g = 5 /\ k = 3 THEN 1 ELSE k)>> ELSE <<>>) \o <<"sig = " \o texts[k]>>)
DbText(section, texts, g) == Join(<<"[" \o section \o "]">> \o Lines(texts, g, 1, <<>>), "\n") \o "\n"

TcpObsSeq == SetToSeq(TcpObs)
HttpObsSeq == SetToSeq(HttpObs)
EmitTcp(i) ==
  LET sigs == [k \in 1..Len(DbAt(NT, i)) |-> TcpSigAt(DbAt(NT, i)[k])]
      g == i % 6
      table == IF (i \div 6) % 2 = 0 THEN "tcp_request" ELSE "tcp_response"
  IN TcpTransparent(sigs) /\
     PrintT("REPLAY " \o ToJson([kind |-> "tcp", i |-> i, table |-> table, g |-> g,
              db |-> DbText(IF table = "tcp_request" THEN "tcp:request" ELSE "tcp:response", [k \in 1..Len(sigs) |-> PrintTcpSig(sigs[k])], g),
              sver |-> [k \in 1..Len(sigs) |-> sigs[k].ver], obs |-> TcpObsSeq]))
EmitHttp(i) ==
  LET sigs == [k \in 1..Len(DbAt(NH, i)) |-> HttpSigAt(DbAt(NH, i)[k])]
      g == i % 6
      table == IF (i \div 6) % 2 = 0 THEN "http_request" ELSE "http_response"
  IN HttpTransparent(sigs, {}) /\
     PrintT("REPLAY " \o ToJson([kind |-> "http", i |-> i, table |-> table, g |-> g,
              db |-> DbText(IF table = "http_request" THEN "http:request" ELSE "http:response", [k \in 1..Len(sigs) |-> PrintHttpSig(sigs[k])], g),
              sver |-> [k \in 1..Len(sigs) |-> sigs[k].ver], obs |-> HttpObsSeq]))

\* ---- pairs: two signatures that differ in exactly ONE field (every field of the signature in turn, wildcard and concrete forms), in
\* both orders, with observations that are instances of the one, of the other, and of neither: whatever the index is keyed on, it
\* must not hide the entry a full scan selects
B0 == [ver |-> "4", pclass |-> "0", olayout |-> L1, mss |-> 1460, ittl |-> TtlV(64), olen |-> 0, wsize |-> W("mss", 4), wscale |-> 7, quirks |-> <<"df", "id+">>]
FieldVariants == <<[B0 EXCEPT !.ver = "6"], [B0 EXCEPT !.ver = "*"], [B0 EXCEPT !.ittl = TtlV(128)], [B0 EXCEPT !.olen = 4], [B0 EXCEPT !.mss = -1], [B0 EXCEPT !.mss = 1400],
                   [B0 EXCEPT !.wsize = W("value", 8192)], [B0 EXCEPT !.wsize = W("mod", 1024)], [B0 EXCEPT !.wsize = WAny], [B0 EXCEPT !.wscale = -1], [B0 EXCEPT !.wscale = 14],
                   [B0 EXCEPT !.olayout = L2], [B0 EXCEPT !.olayout = L3], [B0 EXCEPT !.olayout = <<>>], [B0 EXCEPT !.quirks = <<>>], [B0 EXCEPT !.quirks = <<"df">>],
                   [B0 EXCEPT !.quirks = <<"id+", "df">>], [B0 EXCEPT !.pclass = "+"], [B0 EXCEPT !.pclass = "*"]>>
InstOf(s) == [ver |-> IF s.ver = "*" THEN "6" ELSE s.ver, pclass |-> IF s.pclass = "*" THEN "+" ELSE s.pclass, olayout |-> s.olayout, mss |-> IF s.mss < 0 THEN 1337 ELSE s.mss,
              ittl |-> TtlD(s.ittl.a - 7, 7), olen |-> s.olen, wsize |-> IF s.wsize.k = "any" THEN W("value", 999) ELSE s.wsize, wscale |-> IF s.wscale < 0 THEN 3 ELSE s.wscale, quirks |-> s.quirks]
EmitPair(k) ==
  LET a == B0  b == FieldVariants[((k - 1) \div 2) + 1]
      sigs == IF k % 2 = 1 THEN <<a, b>> ELSE <<b, a>>
      table == IF (k \div 2) % 2 = 0 THEN "tcp_request" ELSE "tcp_response"
      obs == <<InstOf(a), InstOf(b), [InstOf(b) EXCEPT !.olen = 8], [InstOf(a) EXCEPT !.wscale = 9]>>
      \* the same two, followed by a third entry declared under the FIRST entry's label again (grouping 5): the entries keep their places
      sigs3 == sigs \o <<[B0 EXCEPT !.ittl = TtlV(255)]>>
  IN /\ PrintT("REPLAY " \o ToJson([kind |-> "tcp", i |-> 1000000 + k, table |-> table, g |-> 0,
              db |-> DbText(IF table = "tcp_request" THEN "tcp:request" ELSE "tcp:response", [j \in 1..2 |-> PrintTcpSig(sigs[j])], 0),
              sver |-> [j \in 1..2 |-> sigs[j].ver], obs |-> obs]))
     /\ PrintT("REPLAY " \o ToJson([kind |-> "tcp", i |-> 1500000 + k, table |-> table, g |-> 5,
              db |-> DbText(IF table = "tcp_request" THEN "tcp:request" ELSE "tcp:response", [j \in 1..3 |-> PrintTcpSig(sigs3[j])], 5),
              sver |-> [j \in 1..3 |-> sigs3[j].ver], obs |-> obs]))
HB0 == [ver |-> "1", horder |-> <<H("Host"), HO("Accept"), H("User-Agent")>>, habsent |-> <<H("Keep-Alive")>>, sw |-> "curl"]
HFieldVariants == <<[HB0 EXCEPT !.ver = "0"], [HB0 EXCEPT !.ver = "*"], [HB0 EXCEPT !.horder = <<H("Host"), H("User-Agent")>>], [HB0 EXCEPT !.horder = <<H("User-Agent"), H("Host")>>],
                    [HB0 EXCEPT !.habsent = <<>>], [HB0 EXCEPT !.habsent = <<H("Keep-Alive"), H("Accept-Charset")>>], [HB0 EXCEPT !.sw = ""], [HB0 EXCEPT !.sw = "Wget"]>>
HInstOf(s, v) == [ver |-> IF s.ver = "*" THEN v ELSE s.ver, horder |-> [i \in 1..Len(s.horder) |-> H(s.horder[i].name)], habsent |-> <<>>, sw |-> IF s.sw = "" THEN "zz" ELSE s.sw \o "/8.0"]
EmitHPair(k) ==
  LET a == HB0  b == HFieldVariants[((k - 1) \div 2) + 1]
      sigs == IF k % 2 = 1 THEN <<a, b>> ELSE <<b, a>>
      table == IF (k \div 2) % 2 = 0 THEN "http_request" ELSE "http_response"
      obs == <<HInstOf(a, "1"), HInstOf(b, "1"), HInstOf(b, "2"), HInstOf(b, "3"), HInstOf(a, "0")>>
      sigs3 == sigs \o <<[HB0 EXCEPT !.sw = "Third"]>>
  IN /\ PrintT("REPLAY " \o ToJson([kind |-> "http", i |-> 2000000 + k, table |-> table, g |-> 0,
              db |-> DbText(IF table = "http_request" THEN "http:request" ELSE "http:response", [j \in 1..2 |-> PrintHttpSig(sigs[j])], 0),
              sver |-> [j \in 1..2 |-> sigs[j].ver], obs |-> obs]))
     /\ PrintT("REPLAY " \o ToJson([kind |-> "http", i |-> 2500000 + k, table |-> table, g |-> 5,
              db |-> DbText(IF table = "http_request" THEN "http:request" ELSE "http:response", [j \in 1..3 |-> PrintHttpSig(sigs3[j])], 5),
              sver |-> [j \in 1..3 |-> sigs3[j].ver], obs |-> obs]))

Mine(n, s) == {j \in 0..((n - 1 - Offset) \div Stride) : j % Shards = s}
Init == shard \in 0..(Shards - 1) /\ phase = 0
Next == phase = 0 /\ phase' = 1 /\ UNCHANGED shard
Inv == phase = 1 =>
   /\ \A j \in Mine(NDb(NT), shard) : EmitTcp(j * Stride + Offset)
   /\ \A j \in 0..(NDb(NH) - 1) : (j % Shards = shard) => EmitHttp(j)
   /\ \A k \in 1..(2 * Len(FieldVariants)) : (k % Shards = shard) => EmitPair(k)
   /\ \A k \in 1..(2 * Len(HFieldVariants)) : (k % Shards = shard) => EmitHPair(k)
ASSUME PrintT("STAT " \o ToJson([ntcp |-> NDb(NT), nhttp |-> NDb(NH), stride |-> Stride]))
Spec == Init /\ [][Next]_vars
=============================================================================
