------------------------------- MODULE MC_C18 -------------------------------
(***************************************************************************)
(* C18 (affinity): families of frames that share one connection identity   *)
(* while every other field varies (payload, flags, sequence numbers, TTL,  *)
(* IP id, TOS, window, IP header length incl. < 5, TCP options, framing,   *)
(* Ethernet addresses, the IPv4 fragment word (RF / DF / MF),              *)
(* truncation that keeps the ports, direction), IPv4 and IPv6.  Each frame *)
(* carries the identity each pool must key on:                             *)
(*   tcp: source address; tls: directed 4-tuple; http: undirected 4-tuple  *)
(***************************************************************************)
EXTENDS TcpExtract, Json, IOUtils, TLC, SequencesExt

Shards == 16
VARIABLES shard, phase
vars == <<shard, phase>>

Ends == <<[v |-> 4, a |-> <<10, 0, 0, 1>>, b |-> <<10, 0, 0, 2>>, pa |-> 40000, pb |-> 80],
          [v |-> 4, a |-> <<10, 0, 0, 1>>, b |-> <<10, 0, 0, 2>>, pa |-> 40001, pb |-> 80],
          [v |-> 4, a |-> <<192, 168, 7, 9>>, b |-> <<10, 0, 0, 2>>, pa |-> 40000, pb |-> 443],
          [v |-> 6, a |-> Src6, b |-> Dst6, pa |-> 50000, pb |-> 8080],
          [v |-> 6, a |-> Dst6, b |-> [Dst6 EXCEPT ![16] = 9], pa |-> 50000, pb |-> 8080],
          \* both ends on one address (loopback, hairpin), equal ports, lower address with the lower port
          [v |-> 4, a |-> <<127, 0, 0, 1>>, b |-> <<127, 0, 0, 1>>, pa |-> 40000, pb |-> 8080],
          [v |-> 6, a |-> Src6, b |-> Src6, pa |-> 8080, pb |-> 50000],
          [v |-> 4, a |-> <<10, 0, 0, 1>>, b |-> <<10, 0, 0, 2>>, pa |-> 5000, pb |-> 5000],
          [v |-> 4, a |-> <<10, 0, 0, 1>>, b |-> <<10, 0, 0, 2>>, pa |-> 80, pb |-> 40000],
          \* one sender, other destinations (for the TCP pool the destination is not part of the identity): every byte position differs somewhere
          [v |-> 4, a |-> <<10, 0, 0, 1>>, b |-> <<200, 9, 9, 9>>, pa |-> 40000, pb |-> 80],
          [v |-> 6, a |-> Src6, b |-> [Dst6 EXCEPT ![1] = 254], pa |-> 50000, pb |-> 8080],
          [v |-> 6, a |-> Src6, b |-> [i \in 1..16 |-> 255 - Dst6[i]], pa |-> 50001, pb |-> 443]>>

Std == [opts |-> <<[k |-> "mss", v |-> 1460], [k |-> "sok"], [k |-> "ts", val |-> <<0, 0, 1, 44>>, ecr |-> Zero4], [k |-> "nop"], [k |-> "ws", v |-> 7]>>, trail |-> <<>>]
Pay(n) == [i \in 1..n |-> 65 + (i % 26)]
Hdr(e, rev) ==
  [BaseHdr(e.v) EXCEPT !.src = IF rev THEN e.b ELSE e.a, !.dst = IF rev THEN e.a ELSE e.b, !.sport = IF rev THEN e.pb ELSE e.pa, !.dport = IF rev THEN e.pa ELSE e.pb]

\* variations of everything that is not the identity
Variants(h) ==
  {[link |-> l, cut |-> 0, h |-> WithOpts([h EXCEPT !.flags = f, !.payload = Pay(p), !.ttl = t, !.ipid = t * 7, !.win = 1000 + t, !.seq = <<t, 1, 2, 3>>, !.tos = t % 4], IF o THEN OptArea(Std) ELSE <<>>)] :
      l \in {"eth", "raw", "null"}, f \in {SYN, ACK, PSH + ACK, FIN + ACK, RST}, p \in {0, 1, 40}, t \in {1, 64, 255}, o \in BOOLEAN}
  \cup (IF h.ver = 4 THEN {[link |-> "eth", cut |-> 0, h |-> [h EXCEPT !.ihl = i, !.payload = Pay(p)]] : i \in 0..15, p \in {0, 33}} ELSE {})
  \cup {[link |-> "eth", cut |-> c, h |-> [h EXCEPT !.payload = Pay(40)]] : c \in {1, 17, 40}}               \* truncated payload, TCP header intact
  \* Ethernet addresses, among them ones whose first bytes read like another framing (1e 00 .. with an IP version nibble at
  \* offset 4: the loopback capture header; 45 .. / 60 ..: a raw IP header), with lengths and IP ids that differ
  \cup {[link |-> "eth", cut |-> 0, h |-> [h EXCEPT !.dmac = m[1], !.smac = m[2], !.payload = Pay(p), !.ipid = 100 + t, !.ttl = t]] :
          m \in {<<<<30, 0, 94, 16, 74, 1>>, <<2, 0, 0, 0, 0, 1>>>>, <<<<30, 0, 0, 0, 96, 0>>, <<30, 0, 0, 0, 69, 0>>>>, <<<<69, 0, 0, 40, 0, 0>>, <<64, 0, 64, 6, 0, 0>>>>,
                  <<<<96, 0, 0, 0, 0, 20>>, <<6, 64, 0, 0, 0, 0>>>>, <<<<255, 255, 255, 255, 255, 255>>, <<0, 0, 0, 0, 0, 0>>>>},
          p \in {0, 33}, t \in {1, 64, 255}}
  \* IPv4 options of differing content (NOP, end-of-list, octets of a timestamp / record-route option that change from hop to hop)
  \cup (IF h.ver = 4 THEN {[link |-> l, cut |-> 0, h |-> [h EXCEPT !.ihl = i, !.ipopt = b, !.payload = Pay(p)]] :
                               l \in {"eth", "raw"}, i \in {6, 7, 15}, b \in {0, 1, 68, 7, 255}, p \in {0, 33}} ELSE {})
  \* the fragment word of IPv4: reserved bit, DF, MF (a first fragment still carries the ports)
  \cup (IF h.ver = 4 THEN {[link |-> l, cut |-> 0, h |-> [h EXCEPT !.rf = r, !.df = d, !.mf = m, !.payload = Pay(p)]] :
                               l \in {"eth", "raw"}, r \in BOOLEAN, d \in BOOLEAN, m \in BOOLEAN, p \in {0, 33}} ELSE {})

IdentOf(e, rev) ==
  LET s == IF rev THEN <<e.b, e.pb>> ELSE <<e.a, e.pa>>
      d == IF rev THEN <<e.a, e.pa>> ELSE <<e.b, e.pb>>
  IN [tcp |-> ToString(s[1]), tls |-> ToString(<<s, d>>), http |-> ToString({s, d})]

EmitEnd(k) ==
  \A rev \in BOOLEAN :
    \A x \in Variants(Hdr(Ends[k], rev)) :
      LET fr == Frame(x.link, x.h) IN
      PrintT("REPLAY " \o ToJson([k |-> k, rev |-> rev, ihl |-> x.h.ihl, ident |-> IdentOf(Ends[k], rev),
                                   frame |-> SubSeq(fr, 1, Len(fr) - x.cut)]))
Init == shard \in 0..(Shards - 1) /\ phase = 0
Next == phase = 0 /\ phase' = 1 /\ UNCHANGED shard
Inv == phase = 1 => \A k \in 1..Len(Ends) : (k % Shards = shard) => EmitEnd(k)
Spec == Init /\ [][Next]_vars
=============================================================================
