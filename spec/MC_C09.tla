------------------------------- MODULE MC_C09 -------------------------------
(***************************************************************************)
(* C09, engine A: every ordered partition of a 5-unit stream per direction *)
(* (head = first H units) and every arrival order of the pieces, both      *)
(* directions interleaved, explored by TLC with the reassembly machine.    *)
(* Invariants: never before the head is complete, at most once, reported   *)
(* exactly when the head's bytes are all present, only from contiguous     *)
(* pieces.                                                                 *)
(***************************************************************************)
EXTENDS HttpReasm, TLC

N == 5
\* ordered partitions of 0..N-1 as sets of cut positions
Cuts == SUBSET (1..(N - 1))
PiecesOf(cuts) == LET bs == {0} \cup cuts \cup {N} IN
                  {<<a, (CHOOSE b \in bs : b > a /\ \A x \in bs : x > a => x >= b) - a>> : a \in bs \ {N}}

VARIABLES hc, hs, pc, ps, st, outs, arrived
vars == <<hc, hs, pc, ps, st, outs, arrived>>
Conn == [hlen |-> [d \in Dirs |-> IF d = "c" THEN hc ELSE hs], wrap |-> [d \in Dirs |-> -1]]

Init == /\ hc \in 1..N /\ hs \in {2, N}
        /\ pc \in Cuts /\ ps \in {{}, {1, 3}}
        /\ st = Init0 /\ outs = <<>> /\ arrived = {}
Arrive(d, p) ==
  /\ <<d, p>> \notin arrived
  /\ LET r == Step(Conn, st, [dir |-> d, off |-> p[1], len |-> p[2]], {}) IN
       st' = r.st /\ outs' = Append(outs, [dir |-> d, out |-> r.out, had |-> Prefix(r.st.pieces[d], Conn.hlen[d])])
  /\ arrived' = arrived \cup {<<d, p>>}
  /\ UNCHANGED <<hc, hs, pc, ps>>
Next == (\E p \in PiecesOf(pc) : Arrive("c", p)) \/ (\E p \in PiecesOf(ps) : Arrive("s", p))
Spec == Init /\ [][Next]_vars

AtMostOnce == \A d \in Dirs : Cardinality({i \in 1..Len(outs) : outs[i].dir = d /\ outs[i].out # "none"}) <= 1
NeverBeforeComplete == \A i \in 1..Len(outs) : outs[i].out # "none" => outs[i].had
NeverGarbled == \A i \in 1..Len(outs) : outs[i].out \in {"none", "ok"}
ReportedWhenComplete == \A d \in Dirs : Prefix(st.pieces[d], Conn.hlen[d]) => st.parsed[d]
Inv == AtMostOnce /\ NeverBeforeComplete /\ NeverGarbled /\ ReportedWhenComplete
=============================================================================
