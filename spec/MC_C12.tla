------------------------------- MODULE MC_C12 -------------------------------
(***************************************************************************)
(* C12, engine A and B.                                                    *)
(* A: the definitions of Match.tla obey the laws the property states, on   *)
(*    bounded domains (every TTL form pair over a boundary set, window     *)
(*    form pairs, header lists up to length 2, software strings).          *)
(* B: for every signature of the bundled database (IOEnv.SIGS, exported by *)
(*    the code's own loader) and of a generated set: its instances (every  *)
(*    wildcard filled from a grid, hop counts 0/1/7/30, optional headers   *)
(*    in or out, software token embedded) and single/double/triple field   *)
(*    perturbations of one instance, each with the distance Match assigns. *)
(***************************************************************************)
EXTENDS Match, Json, IOUtils, TLC, SequencesExt, FiniteSetsExt

Db == ndJsonDeserialize(IOEnv.SIGS)[1]
TcpSigs == Db.tcp_request \o Db.tcp_response
HttpSigs == Db.http_request \o Db.http_response
Shards == 16
VARIABLES shard, phase
vars == <<shard, phase>>

\* ------------------------------------------------------------------ A: laws on the definition
B8 == {0, 1, 2, 31, 32, 33, 63, 64, 65, 127, 128, 129, 254, 255}
TtlDom == {TtlV(a) : a \in B8} \cup {TtlG(a) : a \in B8} \cup {TtlB(a) : a \in B8}
          \cup {TtlD(a, b) : a \in B8, b \in {0, 1, 30, 31, 255}}
TtlLawsHold == \A o \in TtlDom, s \in TtlDom :
   LET d == TtlDist(o, s) IN
   /\ TtlLaw(o, s, d)
   /\ (TtlInstance(o, s) => d = 0)
   /\ (d = 0 => (o = s \/ (o.k # s.k /\ Implied(o) = Implied(s))))

B16 == {0, 1, 255, 256, 1024, 1460, 5840, 8192, 16384, 65535}
WinDom == {W("mss", n) : n \in {0, 1, 4, 255}} \cup {W("mtu", n) : n \in {0, 1, 4, 255}}
          \cup {W("value", n) : n \in B16} \cup {W("mod", n) : n \in B16}
WinLawsHold == \A o \in WinDom, s \in WinDom \cup {WAny}, m \in {-1, 0, 1, 1460} : WinLaw(o, s, m, WinDist(o, s, m))

HA == <<H("A"), HV("A", "x"), H("B"), HV("C", "y")>>
SA == <<H("A"), HO("A"), HV("A", "x"), HOV("A", "x"), H("B"), HO("B"), HOV("C", "y")>>
Lists(alpha) == {<<>>} \cup {<<alpha[i]>> : i \in 1..Len(alpha)} \cup {<<alpha[i], alpha[j]>> : i, j \in 1..Len(alpha)}
HdrLawsHold == \A o \in Lists(HA), s \in Lists(SA) :
   /\ HInstance(o, s) => HeaderDist(o, s) = 0
   /\ HeaderDist(o, s) \in {REJ, 0, 1, 2, 3}
SwLawsHold ==
   /\ \A o \in {"", "a", "ab", "xaby"}, s \in {"", "a", "ab", "b", "ba"} : (StrContains(o, s) => SwDist(o, s, {}) = 0) /\ SwDist(o, s, {}) \in {0, PenSw}
   /\ SwDist("Mozilla Firefox/3.0", "Firefox/", {}) = 0
   /\ SwDist("Mozilla Firefox/3.0", "Firefox/", {"D12_sw_reversed"}) = PenSw      \* the model sees the recorded defect
   /\ SwDist("Fire", "Firefox/", {"D12_sw_reversed"}) = 0

ASSUME TtlLawsHold /\ WinLawsHold /\ HdrLawsHold /\ SwLawsHold

\* ------------------------------------------------------------------ B: instances and perturbations
Hops == {0, 1, 7, 30}
TtlInst(s) == IF s.k = "value" THEN {TtlD(s.a - h, h) : h \in {x \in Hops : x < s.a}} \cup {s} ELSE {s}
VerInst(s) == IF s = "*" THEN {"4", "6"} ELSE {s}
PcInst(s) == IF s = "*" THEN {"0", "+"} ELSE {s}
MssInst(s) == IF s < 0 THEN {-1, 1460} ELSE {s}
ScInst(s) == IF s < 0 THEN {-1, 7} ELSE {s}
WinInst(s) == IF s.k = "any" THEN {W("value", 8192), W("mss", 4), W("mod", 1024), W("mtu", 2)} ELSE {s}

TcpInstances(s) ==
  {[ver |-> v, ittl |-> t, olen |-> s.olen, mss |-> m, wsize |-> w, wscale |-> c, olayout |-> s.olayout,
    quirks |-> s.quirks, pclass |-> p] :
     v \in VerInst(s.ver), t \in TtlInst(s.ittl), m \in MssInst(s.mss), w \in WinInst(s.wsize), c \in ScInst(s.wscale), p \in PcInst(s.pclass)}

Flip(x, a, b) == IF x = a THEN b ELSE a
OtherWin(w) == IF w.k = "any" THEN w ELSE [w EXCEPT !.n = IF w.n = 3 THEN 5 ELSE 3]
OtherTtl(t) == IF t.k = "dist" THEN [t EXCEPT !.b = IF t.b = 3 THEN 4 ELSE 3] ELSE [t EXCEPT !.a = IF t.a = 3 THEN 4 ELSE 3]
P_olen(o) == [o EXCEPT !.olen = IF o.olen = 4 THEN 8 ELSE 4]
P_mss(o) == [o EXCEPT !.mss = IF o.mss = 1337 THEN 1338 ELSE 1337]
P_sc(o) == [o EXCEPT !.wscale = IF o.wscale = 3 THEN 4 ELSE 3]
P_win(o) == [o EXCEPT !.wsize = OtherWin(o.wsize)]
P_ttl(o) == [o EXCEPT !.ittl = OtherTtl(o.ittl)]
P_ver(o) == [o EXCEPT !.ver = Flip(o.ver, "4", "6")]
P_pc(o) == [o EXCEPT !.pclass = Flip(o.pclass, "0", "+")]
P_lay(o) == [o EXCEPT !.olayout = Append(o.olayout, O("nop"))]
P_q(o) == [o EXCEPT !.quirks = IF Len(o.quirks) = 0 THEN <<"df">> ELSE Tail(o.quirks)]
\* the same NUMBER of quirks, one of them twice in place of another (the analyzer does emit `ecn` twice: IP-level and TCP-level), and
\* the same quirks in reverse order (lists are compared as written)
P_qdup(o) == [o EXCEPT !.quirks = IF Len(o.quirks) < 2 THEN <<"ecn", "ecn">> ELSE [i \in 1..Len(o.quirks) |-> IF i = Len(o.quirks) THEN o.quirks[1] ELSE o.quirks[i]]]
P_qrev(o) == [o EXCEPT !.quirks = IF Len(o.quirks) < 2 THEN <<"df", "id+">> ELSE [i \in 1..Len(o.quirks) |-> o.quirks[Len(o.quirks) + 1 - i]]]

\* the same window written as a raw value: that multiple of the observation's own MSS (an instance of mss*n in another form), alone and
\* together with another MSS than the one the signature may pin (the multiple is relative to the OBSERVED MSS)
RawWin(o, m) == IF o.wsize.k = "mss" /\ m > 0 /\ o.wsize.n * m <= 65535 THEN [o EXCEPT !.mss = m, !.wsize = W("value", o.wsize.n * m)] ELSE o
P_raw(o) == RawWin(o, o.mss)
P_rawmss(o) == RawWin(o, IF o.mss = 1337 THEN 1338 ELSE 1337)
P_rawsmall(o) == RawWin(o, 64)
\* the option is ABSENT from the observed segment (no MSS, no window scale) where the signature pins a value -- alone and together with
\* every other window form (a signature window written mss*n says nothing about the MSS field itself)
P_nomss(o) == [o EXCEPT !.mss = -1]
P_nosc(o) == [o EXCEPT !.wscale = -1]
Perturbed(b) == <<P_nomss(b), P_nosc(b), P_nomss(P_nosc(b)), P_nomss(P_win(b)), P_nomss(P_raw(b)), P_nosc(P_olen(b)), P_raw(b), P_rawmss(b), P_rawsmall(b), P_olen(b), P_mss(b), P_sc(b), P_win(b), P_ttl(b), P_ver(b), P_pc(b), P_lay(b), P_q(b), P_qdup(b), P_qrev(b),
                  P_olen(P_mss(b)), P_olen(P_sc(b)), P_ttl(P_olen(b)), P_olen(P_mss(P_sc(b))), P_win(P_ttl(P_mss(b))),
                  P_ver(P_olen(b)), P_q(P_mss(b))>>

\* generated signatures beyond the bundled ones: forms the bundled file does not use
GenTcp == <<
  [ver |-> "6", ittl |-> TtlG(64), olen |-> 8, mss |-> 0, wsize |-> W("mod", 512), wscale |-> 14, olayout |-> <<OEol(2)>>, quirks |-> <<"flow", "ecn">>, pclass |-> "+"],
  [ver |-> "*", ittl |-> TtlB(255), olen |-> 0, mss |-> -1, wsize |-> WAny, wscale |-> -1, olayout |-> <<OUnk(77), O("sack")>>, quirks |-> <<>>, pclass |-> "*"],
  [ver |-> "4", ittl |-> TtlV(255), olen |-> 0, mss |-> 65535, wsize |-> W("mtu", 255), wscale |-> 0, olayout |-> <<O("ts")>>, quirks |-> <<"bad", "exws", "opt+">>, pclass |-> "0"],
  [ver |-> "4", ittl |-> TtlV(1), olen |-> 0, mss |-> 1, wsize |-> W("value", 0), wscale |-> -1, olayout |-> <<O("mss")>>, quirks |-> <<"seq-">>, pclass |-> "0"]
>>
AllTcp == [i \in 1..(Len(TcpSigs) + Len(GenTcp)) |-> IF i <= Len(TcpSigs) THEN TcpSigs[i].sig ELSE GenTcp[i - Len(TcpSigs)]]

TcpVector(i) ==
  LET s == AllTcp[i]
      inst == SetToSeq(TcpInstances(s))
      base == inst[1]
      obs == inst \o Perturbed(base)
  IN [kind |-> "tcp", i |-> i, sig |-> s, obs |-> obs, ninst |-> Len(inst),
      exp |-> [k \in 1..Len(obs) |-> TcpDist(obs[k], s)]]

\* scalar fields on whole value grids (boundaries of the wire formats: window scale 14 is the largest legal shift, 15 and above go with
\* the `exws` quirk; MSS 0 / 65535; option-area lengths): signature value x observed value, everything else equal
ScalBase == [ver |-> "4", ittl |-> TtlV(64), olen |-> 0, mss |-> 1460, wsize |-> W("value", 8192), wscale |-> 7, olayout |-> <<O("mss"), O("nop"), O("ws")>>, quirks |-> <<"df", "exws">>, pclass |-> "0"]
WsVals == <<-1, 0, 1, 7, 13, 14, 15, 16, 20, 254, 255>>
MssVals == <<-1, 0, 1, 64, 99, 100, 1337, 1460, 65534, 65535>>
OlenVals == <<0, 4, 8, 36, 40>>
ScalVector(f, k) ==
  LET vals == CASE f = "wscale" -> WsVals [] f = "mss" -> MssVals [] OTHER -> OlenVals
      sub(r, x) == CASE f = "wscale" -> [r EXCEPT !.wscale = x] [] f = "mss" -> [r EXCEPT !.mss = x] [] OTHER -> [r EXCEPT !.olen = x]
      s == sub(ScalBase, vals[k])
      obs == [j \in 1..Len(vals) |-> sub(ScalBase, vals[j])]
  IN [kind |-> "tcp", i |-> 100000, sig |-> s, obs |-> obs, ninst |-> 0, exp |-> [j \in 1..Len(obs) |-> TcpDist(obs[j], s)]]
ScalCases == {<<"wscale", k>> : k \in 1..Len(WsVals)} \cup {<<"mss", k>> : k \in 1..Len(MssVals)} \cup {<<"olen", k>> : k \in 2..Len(OlenVals)}

\* HTTP: optional headers in or out (every subset of the first 4 optional ones), software token alone / embedded
OptIdx(s) == LET all == {i \in 1..Len(s.horder) : s.horder[i].opt} IN {i \in all : Cardinality({j \in all : j < i}) < 4}
Keep(s, drop) == SelectSeq([i \in 1..Len(s.horder) |-> [h |-> s.horder[i], i |-> i]], LAMBDA e : e.i \notin drop)
Unopt(h) == [h EXCEPT !.opt = FALSE]
HorderInst(s) == {[k \in 1..Len(Keep(s, drop)) |-> Unopt(Keep(s, drop)[k].h)] : drop \in SUBSET OptIdx(s)}
SwInst(sw) == IF sw = "" THEN {"", "Anything/1.0"} ELSE {sw, "Zz/5.0 (" \o sw \o "9.9) Qq"}
HVerInst(v) == IF v = "*" THEN {"0", "1"} ELSE {v}
HttpInstances(s) == {[ver |-> v, horder |-> h, habsent |-> s.habsent, sw |-> w] : v \in HVerInst(s.ver), h \in HorderInst(s), w \in SwInst(s.sw)}
HttpPerturbed(b, s) ==
  <<[b EXCEPT !.ver = Flip(b.ver, "0", "1")], [b EXCEPT !.sw = "~nothing~"], [b EXCEPT !.ver = "2"], [b EXCEPT !.ver = "3"]>>
HttpVector(i) ==
  LET s == HttpSigs[i].sig
      inst == SetToSeq(HttpInstances(s))
      obs == inst \o HttpPerturbed(inst[1], s)
  IN [kind |-> "http", i |-> i, resp |-> i > Len(Db.http_request), sig |-> s, obs |-> obs, ninst |-> Len(inst),
      exp |-> [k \in 1..Len(obs) |-> HttpDist(obs[k], s, {})],
      alt |-> [k \in 1..Len(obs) |-> HttpDist(obs[k], s, {"D12_sw_reversed"})]]

InstancesAreInstances(i) == \A o \in TcpInstances(AllTcp[i]) : TcpInstance(o, AllTcp[i]) /\ TcpDist(o, AllTcp[i]) = 0
HttpInstancesAreInstances(i) == \A o \in HttpInstances(HttpSigs[i].sig) : HttpInstance(o, HttpSigs[i].sig) /\ HttpDist(o, HttpSigs[i].sig, {}) = 0

Init == shard \in 0..(Shards - 1) /\ phase = 0
Next == phase = 0 /\ phase' = 1 /\ UNCHANGED shard
Inv == phase = 1 =>
   /\ \A i \in 1..Len(AllTcp) : (i % Shards = shard) => (InstancesAreInstances(i) /\ PrintT("REPLAY " \o ToJson(TcpVector(i))))
   /\ \A i \in 1..Len(HttpSigs) : (i % Shards = shard) => (HttpInstancesAreInstances(i) /\ PrintT("REPLAY " \o ToJson(HttpVector(i))))
   /\ \A c \in ScalCases : ((c[2] % Shards) = shard) => PrintT("REPLAY " \o ToJson(ScalVector(c[1], c[2])))
Spec == Init /\ [][Next]_vars
=============================================================================
