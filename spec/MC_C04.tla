------------------------------- MODULE MC_C04 -------------------------------
(***************************************************************************)
(* C04: enumeration of ClientHello messages with the JA4 parts Ja4.tla     *)
(* assigns; checks on the definition that the sorted parts are invariant   *)
(* under permutation and GREASE insertion while the original-order parts   *)
(* follow the order.  Families: ver, presence, perm, grease, sizes, big, misc, embed, alpn, lookalike, recver.  *)
(***************************************************************************)
EXTENDS Ja4, Json, IOUtils, TLC

Fam == IOEnv.VERIF_FAM
Shards == 16
VARIABLES shard, phase
vars == <<shard, phase>>
AllD04 == {"D04_version_presence", "D04_unknown_12"}

Raw(t) == [t |-> t, k |-> "raw", body |-> <<>>]
RawB(t, b) == [t |-> t, k |-> "raw", body |-> b]
Sni(host) == [t |-> 0, k |-> "sni", host |-> host]
AlpnE(protos) == [t |-> 16, k |-> "alpn", protos |-> protos]
Sv(vs) == [t |-> 43, k |-> "sv", versions |-> vs]
Sa(algs) == [t |-> 13, k |-> "sa", algs |-> algs]
Groups(g) == [t |-> 10, k |-> "groups", groups |-> g]
H2 == <<104, 50>>                                  \* "h2"
Http11 == <<104, 116, 116, 112, 47, 49, 46, 49>>   \* "http/1.1"
Host == <<101, 120, 97, 109, 112, 108, 101, 46, 99, 111, 109>>   \* example.com
G1 == 2570  G2 == 23130  G3 == 64250
Base == [legacy |-> 771, sid |-> <<>>, ciphers |-> <<4865, 4866, 49195>>, comps |-> <<0>>, noext |-> FALSE,
         exts |-> <<Sni(Host), Raw(23), Groups(<<29, 23>>), AlpnE(<<H2, Http11>>), Sa(<<1027, 2052, 1025>>), Sv(<<772, 771>>)>>]

\* ---- ver
Legacies == <<768, 769, 770, 771, 772, 773, 512, 32540>>
SvLists == <<<<>>, <<772>>, <<771>>, <<G1, 772, 771>>, <<771, 770>>, <<G2>>, <<769>>, <<770, 772, 771, 769>>, <<773>>>>
VerCases == {[Base EXCEPT !.legacy = Legacies[i], !.exts = IF j = 0 THEN <<Raw(23)>> ELSE <<Raw(23), Sv(SvLists[j])>>] :
               i \in 1..Len(Legacies), j \in 0..Len(SvLists)}

\* ---- presence matrix of the typed extensions x ALPN lists x extension block forms
Opt(b, e) == IF b THEN <<e>> ELSE <<>>
PresenceCases ==
  {[Base EXCEPT !.exts = Opt(s, Sni(Host)) \o Opt(a, AlpnE(ap)) \o Opt(g, Groups(<<G1, 29>>)) \o Opt(sa, Sa(<<G3, 1027, 1283>>)) \o Opt(v, Sv(<<772>>))] :
      s \in BOOLEAN, a \in BOOLEAN, g \in BOOLEAN, sa \in BOOLEAN, v \in BOOLEAN, ap \in {<<H2>>, <<Http11, H2>>}}
  \cup {[Base EXCEPT !.exts = <<>>], [Base EXCEPT !.exts = <<>>, !.noext = TRUE]}

\* ---- all permutations of 4 ciphers and of 4 extensions
P4 == {p \in [1..4 -> 1..4] : \A i, j \in 1..4 : i # j => p[i] # p[j]}
C4 == <<49195, 4865, 47, 255>>
E4 == <<RawB(65281, <<0>>), Sa(<<1027, 1025>>), RawB(5, <<1, 0, 0, 0, 0>>), Sv(<<772>>)>>   \* renegotiation_info, status_request with valid bodies
PermBase == [Base EXCEPT !.ciphers = C4, !.exts = E4]
PermCases == {[Base EXCEPT !.ciphers = Perm(C4, p), !.exts = Perm(E4, q)] : p \in P4, q \in P4}

\* ---- GREASE anywhere: every subset of three values at front / middle / end of both lists
Ins(xs, pos, v) == SubSeq(xs, 1, pos) \o <<v>> \o SubSeq(xs, pos + 1, Len(xs))
GreaseCases ==
  {[PermBase EXCEPT !.ciphers = cs, !.exts = es] :
      cs \in {C4, Ins(C4, 0, G1), Ins(C4, 2, G2), Ins(C4, 4, G3), Ins(Ins(C4, 0, G1), 5, G1), Ins(Ins(Ins(C4, 4, G3), 2, G2), 0, G1)},
      es \in {E4, Ins(E4, 0, Raw(G2)), Ins(E4, 2, RawB(G1, <<0>>)), Ins(E4, 4, Raw(G3)), Ins(Ins(E4, 4, Raw(G3)), 0, Raw(G1))}}

\* ---- list sizes around the two-digit saturation
Ciph(n) == [i \in 1..n |-> 4000 + ((i * 37) % 900)]
Exts(n) == [i \in 1..n |-> Raw(300 + ((i * 11) % 200) + 200 * (i \div 200))]
SizeCases == {[Base EXCEPT !.ciphers = Ciph(n), !.exts = Exts(m)] : n \in {1, 98, 99, 100, 130}, m \in {1, 98, 99, 100, 130}}

\* ---- big: records far above an Ethernet MTU (a padding extension of n octets: post-quantum key shares, GRO/TSO captures, jumbo frames
\* and loopback deliver them in ONE segment), up to the largest record a 16-bit length admits
BigCases == {[Base EXCEPT !.exts = <<Sni(Host), Sv(<<772, 771>>), AlpnE(<<H2>>), RawB(21, Rep(0, n))>>] : n \in (IF IOEnv.VERIF_TIER = "thorough" THEN {1380, 1460, 1500, 2400, 5000} ELSE {1500, 2400})}

\* ---- session ids, compression lists, unknown extension bodies
MiscCases == {[Base EXCEPT !.sid = s, !.comps = c, !.exts = <<Sni(Host), RawB(65000, b), AlpnE(<<Http11>>), RawB(21, Rep(0, 40))>>] :
                s \in {<<>>, Rep(9, 32), <<1>>}, c \in {<<0>>, <<1, 0>>}, b \in {<<>>, <<1, 2, 3>>, Rep(255, 300)}}

\* ---- opaque fields that look like TLS records themselves (a reassembler must not re-synchronise on them):
\* a record header at the start of the session id and of an unknown extension, and a complete decoy ClientHello record
\* carried in an extension body
Decoy == [Base EXCEPT !.legacy = 769, !.ciphers = <<47, 53>>, !.exts = <<Sni(<<100, 101, 99, 111, 121, 46, 120>>)>>]
RecLike == <<22, 3, 1, 0, 20, 1, 0, 0, 16, 3, 3>> \o Rep(7, 21)
EmbedCases == {[Base EXCEPT !.sid = s, !.exts = <<Sni(Host), RawB(35, b), Sv(<<772, 771>>), AlpnE(<<H2>>)>>] :
                 s \in {<<>>, RecLike}, b \in {<<22, 3, 3, 0, 2, 1, 0>>, Wire(Decoy), <<23, 3, 3, 0, 4, 1, 2, 3, 4>> \o Wire(Decoy)}}

\* ---- alpn: first and last character of the FIRST protocol (alphanumeric first and last bytes, two characters or more:
\* the cases every edition of the specification agrees on), whatever follows in the list and wherever the extension sits
Str2B(s) == [i \in 1..Len(s) |-> LET c == SubSeq(s, i, i) IN
               IF \E k \in 1..26 : SubSeq("abcdefghijklmnopqrstuvwxyz", k, k) = c THEN 96 + (CHOOSE k \in 1..26 : SubSeq("abcdefghijklmnopqrstuvwxyz", k, k) = c)
               ELSE IF \E k \in 1..26 : SubSeq("ABCDEFGHIJKLMNOPQRSTUVWXYZ", k, k) = c THEN 64 + (CHOOSE k \in 1..26 : SubSeq("ABCDEFGHIJKLMNOPQRSTUVWXYZ", k, k) = c)
               ELSE IF \E k \in 1..10 : SubSeq("0123456789", k, k) = c THEN 47 + (CHOOSE k \in 1..10 : SubSeq("0123456789", k, k) = c)
               ELSE IF c = "/" THEN 47 ELSE IF c = "." THEN 46 ELSE 45]
AlpnLists == {<<Str2B("h2")>>, <<Str2B("h3")>>, <<Str2B("http/1.1"), Str2B("h2")>>, <<Str2B("h2"), Str2B("http/1.1")>>, <<Str2B("spdy/3.1"), Str2B("x")>>, <<Str2B("dot")>>,
              <<Str2B("acme-tls/1")>>, <<Str2B("Ab"), Str2B("zz")>>, <<Str2B("imap"), Str2B("pop3"), Str2B("h2")>>, <<Str2B("0z")>>, <<Str2B("h2c")>>}
AlpnCases == {[Base EXCEPT !.exts = IF front THEN <<AlpnE(ap), Sni(Host), Sv(<<772>>)>> ELSE <<Sni(Host), Sa(<<1027>>), AlpnE(ap)>>] : ap \in AlpnLists, front \in BOOLEAN}

\* ---- lookalike: code points that resemble GREASE (low nibbles a, or equal bytes) but are not among the 16 values of RFC 8701:
\* they are ordinary values and stay in every list and count
Look == <<6698, 2586, 23146, 64251, 2827, 41120, 2571>>       \* 1a2a 0a1a 5a6a fafb 0b0b a0a0 0a0b
LookCases == {[Base EXCEPT !.ciphers = <<4865, Look[i], 4866, G1, Look[j]>>, !.exts = <<Sni(Host), Sa(<<1027, Look[j], G2, 2052>>), Groups(<<29, Look[i]>>), Sv(<<772, Look[i]>>)>>] : i \in 1..7, j \in {1, 3, 6}}
             \cup {[Base EXCEPT !.exts = <<Sni(Host), Raw(Look[i]), Sv(<<772>>)>>] : i \in 1..7}

\* ---- recver: the same hellos under every record-layer version 3.0 .. 3.4
RecVerCases == {[recminor |-> m] @@ h : m \in 0..4, h \in {Base, [Base EXCEPT !.legacy = 769, !.exts = <<Sni(Host)>>], [Base EXCEPT !.exts = <<Sv(<<772, 771>>), AlpnE(<<H2>>)>>]}}

\* ---- sni: host names of every shape a client may send -- address literals (IPv4, IPv6, bracketed), numeric-looking names, one
\* character, upper case, a trailing dot, punycode, a 63-character label: the SNI flag says that the extension is there, the reported
\* name is the octets of the extension
SniHosts == {<<49, 57, 50, 46, 48, 46, 50, 46, 49, 48>>,
             <<50, 48, 48, 49, 58, 100, 98, 56, 58, 58, 49>>,
             <<58, 58, 49>>,
             <<49, 46, 50, 46, 51>>,
             <<49, 48, 46, 101, 120, 97, 109, 112, 108, 101, 46, 99, 111, 109>>,
             <<97>>,
             <<69, 88, 65, 77, 80, 76, 69, 46, 67, 79, 77>>,
             <<101, 120, 97, 109, 112, 108, 101, 46, 99, 111, 109, 46>>,
             <<120, 110, 45, 45, 98, 99, 104, 101, 114, 45, 107, 118, 97, 46, 101, 120, 97, 109, 112, 108, 101>>,
             <<91, 50, 48, 48, 49, 58, 100, 98, 56, 58, 58, 49, 93>>,
             <<48, 120, 55, 102, 46, 49>>,
             <<108, 111, 99, 97, 108, 104, 111, 115, 116>>,
             <<50, 53, 54, 46, 49, 46, 49, 46, 49>>,
             <<97, 97, 97, 97, 97, 97, 97, 97, 97, 97, 97, 97, 97, 97, 97, 97, 97, 97, 97, 97, 97, 97, 97, 97, 97, 97, 97, 97, 97, 97, 97, 97, 97, 97, 97, 97, 97, 97, 97, 97, 97, 97, 97, 97, 97, 97, 97, 97, 97, 97, 97, 97, 97, 97, 97, 97, 97, 97, 97, 97, 97, 97, 97, 46, 101, 120, 97, 109, 112, 108, 101>>}
SniCases == {[Base EXCEPT !.exts = <<Sni(hst), Sv(<<772, 771>>)>> \o (IF al THEN <<AlpnE(<<H2>>)>> ELSE <<>>)] : hst \in SniHosts, al \in BOOLEAN}

Cases == CASE Fam = "sni" -> SniCases [] Fam = "recver" -> RecVerCases [] Fam = "lookalike" -> LookCases [] Fam = "alpn" -> AlpnCases [] Fam = "embed" -> EmbedCases [] Fam = "ver" -> VerCases [] Fam = "presence" -> PresenceCases [] Fam = "perm" -> PermCases
           [] Fam = "grease" -> GreaseCases [] Fam = "big" -> BigCases [] Fam = "sizes" -> SizeCases [] Fam = "misc" -> MiscCases
CaseSeq == SetToSeq(Cases)

Laws(h) ==
  /\ (Fam \in {"perm", "grease"}) => LawSortedInvariant(PermBase, h)
  /\ (Fam = "perm") => (B(h, FALSE) = JoinHex(h.ciphers))                       \* original order follows the bytes
  /\ Len(Wire(h)) = 5 + 256 * Wire(h)[4] + Wire(h)[5]                            \* declared record length = actual

Emit(i) ==
  LET h == CaseSeq[i] IN
  Laws(h) /\ PrintT("REPLAY " \o ToJson([fam |-> Fam, i |-> i, bytes |-> Wire(h), exp |-> Ja4(h, {}),
       alts |-> SetToSeq({[devs |-> S, exp |-> Ja4(h, S)] : S \in (SUBSET AllD04 \ {{}})})]))

Init == shard \in 0..(Shards - 1) /\ phase = 0
Next == phase = 0 /\ phase' = 1 /\ UNCHANGED shard
Inv == phase = 1 => \A i \in 1..Len(CaseSeq) : (i % Shards = shard) => Emit(i)
Spec == Init /\ [][Next]_vars
=============================================================================
