------------------------------ MODULE MC_C06a -------------------------------
(***************************************************************************)
(* C06 (a): every TCP / HTTP signature value over the p0f vocabulary with  *)
(* its canonical text.  TLC enumerates the values (mixed-radix decoding of *)
(* an index, so that quick runs can take every STRIDE-th value), checks    *)
(* that Print is injective on what it enumerates (distinct values, distinct*)
(* text: otherwise text could not round-trip), and prints one REPLAY       *)
(* vector per value: {fam, v, text}.                                       *)
(***************************************************************************)
EXTENDS P0fVocab, TLC, Json, IOUtils, FiniteSets, SequencesExt

VARIABLES shard, phase
vars == <<shard, phase>>
Shards == 16
Stride == atoi(IOEnv.VERIF_STRIDE)
Offset == atoi(IOEnv.VERIF_OFFSET) % Stride

VerS  == <<"4", "6", "*">>
TtlS  == <<TtlV(0), TtlV(64), TtlV(255), TtlD(54, 10), TtlD(255, 0), TtlD(0, 255), TtlG(64), TtlB(64), TtlB(0)>>
OlenS == <<0, 40, 255>>
MssS  == <<-1, 0, 1460, 65535>>
WsS   == <<WAny, W("mss", 0), W("mss", 4), W("mss", 255), W("mtu", 2), W("value", 0), W("value", 65535),
           W("mod", 1024), W("mod", 0)>>
ScS   == <<-1, 0, 7, 255>>
PcS   == <<"0", "+", "*">>
OptP  == <<O("nop"), O("mss"), O("ws"), O("sok"), O("sack"), O("ts"), OEol(0), OEol(3), OEol(255), OUnk(9), OUnk(255)>>
NO == Len(OptP)
NLay == 1 + NO + NO * NO + NO * NO * NO
LayAt(i) ==
  IF i = 0 THEN <<>>
  ELSE IF i <= NO THEN <<OptP[i]>>
  ELSE IF i <= NO + NO * NO THEN LET j == i - NO - 1 IN <<OptP[(j \div NO) + 1], OptP[(j % NO) + 1]>>
  ELSE LET j == i - NO - NO * NO - 1 IN <<OptP[(j \div (NO * NO)) + 1], OptP[((j \div NO) % NO) + 1], OptP[(j % NO) + 1]>>

NQk == Len(QuirkTokens)
\* quirk lists: empty, each single, each ordered pair i<j, each reversed pair j>i for adjacent ones, the full list
QPairs == {<<i, j>> \in (1..NQk) \X (1..NQk) : i < j}
QuirkLists ==
  {<<>>} \cup {<<QuirkTokens[i]>> : i \in 1..NQk} \cup {<<QuirkTokens[p[1]], QuirkTokens[p[2]]>> : p \in QPairs}
  \cup {<<QuirkTokens[i + 1], QuirkTokens[i]>> : i \in 1..(NQk - 1)} \cup {QuirkTokens}
QS == SetToSeq(QuirkLists)
NQ == Len(QS)

BaseLay == <<<<O("mss")>>, <<O("mss"), O("sok"), O("ts"), O("nop"), O("ws")>>>>
BaseQ   == <<<<>>, <<"df", "id+">>>>

\* family A: all scalar fields x 2 layouts x 2 quirk lists
NA == Len(VerS) * Len(TtlS) * Len(OlenS) * Len(MssS) * Len(WsS) * Len(ScS) * Len(PcS) * 2 * 2
TcpA(k) ==
  LET d1 == k % Len(VerS)      r1 == k \div Len(VerS)
      d2 == r1 % Len(TtlS)     r2 == r1 \div Len(TtlS)
      d3 == r2 % Len(OlenS)    r3 == r2 \div Len(OlenS)
      d4 == r3 % Len(MssS)     r4 == r3 \div Len(MssS)
      d5 == r4 % Len(WsS)      r5 == r4 \div Len(WsS)
      d6 == r5 % Len(ScS)      r6 == r5 \div Len(ScS)
      d7 == r6 % Len(PcS)      r7 == r6 \div Len(PcS)
      d8 == r7 % 2             d9 == r7 \div 2
  IN [ver |-> VerS[d1 + 1], ittl |-> TtlS[d2 + 1], olen |-> OlenS[d3 + 1], mss |-> MssS[d4 + 1],
      wsize |-> WsS[d5 + 1], wscale |-> ScS[d6 + 1], pclass |-> PcS[d7 + 1],
      olayout |-> BaseLay[d8 + 1], quirks |-> BaseQ[d9 + 1]]

\* family B: all layouts x all quirk lists x 2 scalar bases
NB == NLay * NQ * 2
TcpB(k) ==
  LET l == k % NLay   r == k \div NLay
      q == r % NQ     b == r \div NQ
  IN IF b = 0
     THEN [ver |-> "4", ittl |-> TtlV(64), olen |-> 0, mss |-> 1460, wsize |-> W("mss", 4), wscale |-> 7, pclass |-> "0",
           olayout |-> LayAt(l), quirks |-> QS[q + 1]]
     ELSE [ver |-> "*", ittl |-> TtlB(128), olen |-> 0, mss |-> -1, wsize |-> WAny, wscale |-> -1, pclass |-> "+",
           olayout |-> LayAt(l), quirks |-> QS[q + 1]]

\* HTTP signatures
HVerS == <<"0", "1", "*">>
HdrP == <<H("Host"), HO("Accept"), HV("Accept", "*/*"), HOV("Cache-Control", "no-cache"),
          HV("Accept-Language", "en-us,en;q=0.5"), H("User-Agent"), HV("X-Odd", "a=b: c;[x"), HOV("Via", "")>>
NH == Len(HdrP)
NHo == NH + NH * NH + NH * NH * NH
HorderAt(i) ==   \* i in 0..NHo-1, length 1..3
  IF i < NH THEN <<HdrP[i + 1]>>
  ELSE IF i < NH + NH * NH THEN LET j == i - NH IN <<HdrP[(j \div NH) + 1], HdrP[(j % NH) + 1]>>
  ELSE LET j == i - NH - NH * NH IN <<HdrP[(j \div (NH * NH)) + 1], HdrP[((j \div NH) % NH) + 1], HdrP[(j % NH) + 1]>>
AbsS == <<<<>>, <<H("Host")>>, <<H("Accept-Encoding"), H("Keep-Alive")>>, <<H("Keep-Alive"), H("Accept-Encoding"), H("Host")>>,
          <<HV("Connection", "close")>>>>
SwS == <<"", "Firefox/", "Apache:2.2 (Unix),x", "a b">>
NHt == Len(HVerS) * NHo * Len(AbsS) * Len(SwS)
HttpAt(k) ==
  LET d1 == k % Len(HVerS)  r1 == k \div Len(HVerS)
      d2 == r1 % NHo        r2 == r1 \div NHo
      d3 == r2 % Len(AbsS)  d4 == r2 \div Len(AbsS)
  IN [ver |-> HVerS[d1 + 1], horder |-> HorderAt(d2), habsent |-> AbsS[d3 + 1], sw |-> SwS[d4 + 1]]

\* family E: edge values that every run enumerates completely (no stride): the empty option layout
NE == Len(VerS) * 2 * Len(PcS)
TcpE(k) == [TcpB(0) EXCEPT !.ver = VerS[(k % 3) + 1], !.quirks = BaseQ[((k \div 3) % 2) + 1], !.pclass = PcS[(k \div 6) + 1], !.olayout = <<>>]

Fam == <<[name |-> "tcpA", n |-> NA], [name |-> "tcpB", n |-> NB], [name |-> "http", n |-> NHt], [name |-> "tcpE", n |-> NE]>>
ValueAt(f, k) == CASE f = 1 -> TcpA(k) [] f = 2 -> TcpB(k) [] f = 3 -> HttpAt(k) [] f = 4 -> TcpE(k)
TextOf(f, v) == IF f = 3 THEN PrintHttpSig(v) ELSE PrintTcpSig(v)

\* indices this shard handles in family f
StrideOf(f) == IF f = 4 THEN 1 ELSE Stride
OffsetOf(f) == IF f = 4 THEN 0 ELSE Offset
Mine(f, s) == {j \in 0..((Fam[f].n - 1 - OffsetOf(f)) \div StrideOf(f)) : j % Shards = s}

Emit(f, j) ==
  LET k == j * StrideOf(f) + OffsetOf(f)
      v == ValueAt(f, k)
  IN PrintT("REPLAY " \o ToJson([fam |-> Fam[f].name, k |-> k, v |-> v, text |-> TextOf(f, v)]))

\* Print is injective on the values of one shard's sample (distinct values have distinct text)
Injective(f, s) ==
  LET ks == Mine(f, s)
      vals == {ValueAt(f, j * StrideOf(f) + OffsetOf(f)) : j \in ks}
  IN Cardinality({TextOf(f, v) : v \in vals}) = Cardinality(vals)

Init == shard \in 0..(Shards - 1) /\ phase = 0
Next == phase = 0 /\ phase' = 1 /\ UNCHANGED shard
Inv == phase = 1 => \A f \in 1..4 : Injective(f, shard) /\ \A j \in Mine(f, shard) : Emit(f, j)

ASSUME PrintT("STAT " \o ToJson([na |-> NA, nb |-> NB, nhttp |-> NHt, stride |-> Stride, offset |-> Offset]))
Spec == Init /\ [][Next]_vars
=============================================================================
