------------------------------- MODULE TV_C02 -------------------------------
(***************************************************************************)
(* C02, implementation -> specification.  One event per (database,         *)
(* observation): dists (the implementation's own calculate_distance for    *)
(* every entry in file order, -1 = rejected), qs (its quality for each     *)
(* distance), rep (1-based flat index find_best_match reported, 0 = none), *)
(* rq (the quality it reported), sver / over (entry and observation        *)
(* version keys, used only to recognise the recorded index defect).        *)
(* Accepted iff rep = SelectBest(dists) and rq is the quality of that      *)
(* distance.                                                               *)
(***************************************************************************)
EXTENDS Match, Json, IOUtils, TLC

Rows == ndJsonDeserialize(IOEnv.TRACE)
Shards == 16
VARIABLES shard, phase
vars == <<shard, phase>>

Good(e) == LET b == SelectBest(e.dists) IN e.rep = b /\ (b = 0 => e.rq = -1) /\ (b > 0 => e.rq = e.qs[b])

\* the recorded defect: `*` HTTP signatures are filed under 1.0 and 1.1 only
MaskedD02(e) == [i \in 1..Len(e.dists) |-> IF e.sver[i] = "*" /\ e.over \in {"2", "3"} THEN REJ ELSE e.dists[i]]
KnownD02(e) == e.http /\ LET b == SelectBest(MaskedD02(e)) IN e.rep = b /\ (b = 0 => e.rq = -1) /\ (b > 0 => e.rq = e.qs[b])

\* rows of very large tables carry their distances run-length encoded (runs[j] = <<distance, how many entries in a row have it>>, qruns
\* likewise for the qualities): the first entry with the smallest distance is the first entry of the first run with the smallest
\* non-negative distance
RECURSIVE StartOf(_, _)
StartOf(runs, j) == IF j = 1 THEN 1 ELSE StartOf(runs, j - 1) + runs[j - 1][2]
BestRun(runs) == LET acc == {j \in 1..Len(runs) : runs[j][1] >= 0} IN
                 IF acc = {} THEN 0 ELSE CHOOSE j \in acc : \A k \in acc : runs[j][1] < runs[k][1] \/ (runs[j][1] = runs[k][1] /\ j <= k)
GoodRuns(e) == LET j == BestRun(e.runs) IN
               IF j = 0 THEN e.rep = 0 /\ e.rq = -1 ELSE e.rep = StartOf(e.runs, j) /\ e.rq = e.qbest
RunRowOk(e) == GoodRuns(e) \/ PrintT("BAD " \o ToJson([id |-> e.id, k |-> e.k, want |-> (IF BestRun(e.runs) = 0 THEN 0 ELSE StartOf(e.runs, BestRun(e.runs))), rep |-> e.rep, rq |-> e.rq, dists |-> e.runs]))
ASSUME BestRun(<<<<-1, 5>>, <<3, 2>>, <<-1, 1>>, <<0, 4>>, <<0, 1>>>>) = 4 /\ StartOf(<<<<-1, 5>>, <<3, 2>>, <<-1, 1>>, <<0, 4>>, <<0, 1>>>>, 4) = 9 /\ BestRun(<<<<-1, 9>>>>) = 0

RowOk(e) == \/ ("runs" \in DOMAIN e /\ RunRowOk(e))
            \/ ("runs" \in DOMAIN e)
            \/ Good(e)
            \/ (KnownD02(e) /\ PrintT("KNOWN " \o ToJson([dev |-> "D02_http_any_10_11", id |-> e.id, k |-> e.k])))
            \/ PrintT("BAD " \o ToJson([id |-> e.id, k |-> e.k, want |-> SelectBest(e.dists), rep |-> e.rep, rq |-> e.rq, dists |-> e.dists]))

Init == shard \in 0..(Shards - 1) /\ phase = 0
Next == phase = 0 /\ phase' = 1 /\ UNCHANGED shard
Inv == phase = 1 => \A r \in 1..Len(Rows) : (r % Shards = shard) => RowOk(Rows[r])
Spec == Init /\ [][Next]_vars
=============================================================================
