------------------------------- MODULE TV_C02 -------------------------------
(***************************************************************************)
(* C02, implementation -> specification.  One event per (database,         *)
(* observation): dists (the implementation's own calculate_distance for    *)
(* every entry in file order, -1 = rejected), qs (its quality for each     *)
(* distance), rep (1-based flat index find_best_match reported, 0 = none), *)
(* rq (the quality it reported), sver / over (entry and observation        *)
(* version keys, used only to recognise the recorded index defect).        *)
(* Accepted iff rep = SelectBest(dists) and rq is the quality of that      *)
(* distance.                                                               *)
(***************************************************************************)
EXTENDS Match, Json, IOUtils, TLC

Rows == ndJsonDeserialize(IOEnv.TRACE)
Shards == 16
VARIABLES shard, phase
vars == <<shard, phase>>

Good(e) == LET b == SelectBest(e.dists) IN e.rep = b /\ (b = 0 => e.rq = -1) /\ (b > 0 => e.rq = e.qs[b])

\* the recorded defect: `*` HTTP signatures are filed under 1.0 and 1.1 only
MaskedD02(e) == [i \in 1..Len(e.dists) |-> IF e.sver[i] = "*" /\ e.over \in {"2", "3"} THEN REJ ELSE e.dists[i]]
KnownD02(e) == e.http /\ LET b == SelectBest(MaskedD02(e)) IN e.rep = b /\ (b = 0 => e.rq = -1) /\ (b > 0 => e.rq = e.qs[b])

RowOk(e) == \/ Good(e)
            \/ (KnownD02(e) /\ PrintT("KNOWN " \o ToJson([dev |-> "D02_http_any_10_11", id |-> e.id, k |-> e.k])))
            \/ PrintT("BAD " \o ToJson([id |-> e.id, k |-> e.k, want |-> SelectBest(e.dists), rep |-> e.rep, rq |-> e.rq, dists |-> e.dists]))

Init == shard \in 0..(Shards - 1) /\ phase = 0
Next == phase = 0 /\ phase' = 1 /\ UNCHANGED shard
Inv == phase = 1 => \A r \in 1..Len(Rows) : (r % Shards = shard) => RowOk(Rows[r])
Spec == Init /\ [][Next]_vars
=============================================================================
