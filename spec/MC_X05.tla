------------------------------- MODULE MC_X05 -------------------------------
(* X05 (extension): every User-Agent of a small vocabulary x label names x matched or not x two rule orders; the machine *)
(* of Diagnosis.tla is explored to its end for each, the laws are invariants, and one REPLAY line per finished behaviour  *)
(* carries the case with the diagnosis under the code's reading (DCode) and under p0f's reading ({}).                      *)
EXTENDS Diagnosis, Json, TLC, IOUtils
DCode == {"X05_name_as_needle"}
R(k, kl, v) == [k |-> k, kl |-> kl, v |-> v]
RuleSets == <<
  <<R("Linux", "linux", ""), R("Windows", "windows", ""), R("iOS", "ios", "iPad"), R("Mac OS X", "mac os x", "")>>,
  <<R("Windows", "windows", ""), R("Mac OS X", "mac os x", ""), R("Linux", "linux", ""), R("iOS", "ios", "iPhone"), R("iOS", "ios", "iPad")>>,
  <<R("Mac OS", "mac os", ""), R("Solaris", "solaris", "SunOS"), R("X", "x", "")>>,
  <<>> >>
UAs == {"Mozilla/5.0 (X11; Linux x86_64)", "Mozilla/5.0 (Windows NT 10.0) Linux-compat", "Linux; Windows", "mozilla (linux; windows)", "LINUX",
        "Mozilla/5.0 (iPad; CPU OS 15)", "iOS-App/1.0", "iPhone iPad iOS", "Mozilla/5.0 (Macintosh; Intel Mac OS X 10_15)", "Mac OS", "XMac OS XX", "Mac OSX",
        "curl/8.0", "SunOS 5.11", "Solaris", "x", "X", "Linu", "inux", "Windows"}
\* thorough tier: every ordered pair of tokens (needles, their patterns, case variants, near misses, fillers) as a User-Agent
Tokens == {"Linux", "linux", "Windows", "iOS", "iPad", "iPhone", "Mac OS X", "Mac OS", "SunOS", "Solaris", "X", "curl", "(", ""}
Thorough == "VERIF_TIER" \in DOMAIN IOEnv /\ IOEnv.VERIF_TIER = "thorough"
UAsT == IF Thorough THEN UAs \cup {a \o ";" \o b : a \in Tokens \ {""}, b \in Tokens} \cup {a \o b : a \in Tokens \ {""}, b \in Tokens \ {""}} ELSE UAs
Labels == {"linux", "windows", "ios", "mac os x", "chrome", "x"}
Requests(rs) == {[hasUa |-> TRUE, ua |-> u, matched |-> m, label |-> IF m THEN l ELSE "", rs |-> rs, db |-> TRUE] : u \in UAsT, m \in BOOLEAN, l \in Labels}
                  \cup {[hasUa |-> FALSE, ua |-> "", matched |-> m, label |-> IF m THEN l ELSE "", rs |-> rs, db |-> TRUE] : m \in BOOLEAN, l \in Labels}
                  \cup {[hasUa |-> u # "", ua |-> u, matched |-> FALSE, label |-> "", rs |-> rs, db |-> FALSE] : u \in UAsT \cup {""}}
All == UNION {Requests(rs) : rs \in 1..Len(RuleSets)}
Init == DInit(All)
Next == DNext(RuleSets[req.rs], DCode)
Spec == Init /\ [][Next]_dvars
Law1 == StepwiseIsFunction(RuleSets[req.rs], DCode)
Law2 == Shape(RuleSets[req.rs], DCode)
\* p0f's reading differs from the code's only where a rule with a pattern is involved
Law3 == pc = "done" /\ (\A i \in 1..Len(RuleSets[req.rs]) : RuleSets[req.rs][i].v = "") => Diagnose(req, RuleSets[req.rs], {}) = diag
Emit == pc = "done" =>
  PrintT("REPLAY " \o ToJson([req |-> req, rules |-> RuleSets[req.rs], rule |-> rule, diag |-> diag, p0f |-> Diagnose(req, RuleSets[req.rs], {})]))
=============================================================================
