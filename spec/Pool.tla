-------------------------------- MODULE Pool --------------------------------
(***************************************************************************)
(* Worker pool of the three protocol crates (parallel.rs): dispatchers,    *)
(* bounded per-worker queues, workers with batching, counters, shutdown.   *)
(* Properties C10 (parallel = sequential) and C18 (affinity, accounting).  *)
(* One action per critical section of the code:                            *)
(*   DStart  - dispatch reads the shutdown flag                            *)
(*   DSend   - hash + try_send                                             *)
(*   DCount  - counters updated, DispatchResult returned                   *)
(*   WHead / WRecv / WTimeout / WTmo / WFill / WFillDone / WProc - worker  *)
(*             loop: WHead is the loop head (leave when shutdown is set    *)
(*             and the queue is empty), WRecv / WTimeout the two outcomes  *)
(*             of recv_timeout, WTmo the flag test after a timeout         *)
(*   WGone   - the worker function returns (receiver dropped)              *)
(*   Shutdown - the flag is set (shutdown())                               *)
(* Analysis is abstract but stateful: a packet is analysed correctly iff   *)
(* the same worker has already analysed all earlier packets of its         *)
(* connection (per-worker private tables).                                 *)
(***************************************************************************)
EXTENDS Integers, Sequences, FiniteSets

CONSTANTS NW,        \* number of workers
          Cap,       \* queue capacity
          Batch,     \* batch size
          Traces,    \* Traces[d] : sequence of packets dispatcher d hands over
          ConnOf(_), \* connection (undirected) of a packet
          Route(_),  \* worker index 1..NW chosen for a packet
          Crate,     \* "tcp" | "http" | "tls" (counter conventions)
          AllowShutdown,
          Devs       \* named deviations of the code from the intended design (empty: the code as it stands)

Disp == DOMAIN Traces
Packets == UNION {{Traces[d][i] : i \in 1..Len(Traces[d])} : d \in Disp}

VARIABLES q, shutdown, dpc, dnext, dres, outcome, cDispatched, cDropped, wDropped, wpc, batch, analysed, log, owed
vars == <<q, shutdown, dpc, dnext, dres, outcome, cDispatched, cDropped, wDropped, wpc, batch, analysed, log, owed>>

Init == /\ q = [w \in 1..NW |-> <<>>] /\ shutdown = FALSE
        /\ dpc = [d \in Disp |-> "idle"] /\ dnext = [d \in Disp |-> 1] /\ dres = [d \in Disp |-> "ok"]
        /\ outcome = [p \in Packets |-> "none"] /\ cDispatched = 0 /\ cDropped = 0 /\ wDropped = [w \in 1..NW |-> 0]
        /\ wpc = [w \in 1..NW |-> "head"] /\ batch = [w \in 1..NW |-> <<>>]
        /\ analysed = [p \in Packets |-> 0] /\ log = [w \in 1..NW |-> <<>>] /\ owed = {}

Cur(d) == Traces[d][dnext[d]]

DStart(d) ==
  /\ dpc[d] = "idle" /\ dnext[d] <= Len(Traces[d])
  /\ IF shutdown
     THEN /\ outcome' = [outcome EXCEPT ![Cur(d)] = "dropped"]
          /\ cDropped' = IF Crate = "http" THEN cDropped + 1 ELSE cDropped     \* only the http pool counts a post-shutdown drop
          /\ dnext' = [dnext EXCEPT ![d] = @ + 1]
          /\ UNCHANGED <<dpc>>
     ELSE dpc' = [dpc EXCEPT ![d] = "send"] /\ UNCHANGED <<outcome, cDropped, dnext>>
  /\ UNCHANGED <<q, shutdown, dres, cDispatched, wDropped, wpc, batch, analysed, log, owed>>

DSend(d) ==
  /\ dpc[d] = "send"
  /\ LET w == Route(Cur(d)) IN
       IF Len(q[w]) < Cap /\ wpc[w] # "gone"          \* try_send fails when the queue is full or its worker is gone (receiver dropped)
       THEN q' = [q EXCEPT ![w] = Append(@, Cur(d))] /\ dres' = [dres EXCEPT ![d] = "ok"]
       ELSE UNCHANGED q /\ dres' = [dres EXCEPT ![d] = "full"]
  /\ cDispatched' = IF Crate \in {"http", "tls"} THEN cDispatched + 1 ELSE cDispatched   \* http/tls count attempts
  /\ dpc' = [dpc EXCEPT ![d] = "count"]
  /\ UNCHANGED <<shutdown, dnext, outcome, cDropped, wDropped, wpc, batch, analysed, log, owed>>

DCount(d) ==
  /\ dpc[d] = "count"
  /\ IF dres[d] = "ok"
     THEN /\ outcome' = [outcome EXCEPT ![Cur(d)] = "queued"]
          /\ cDispatched' = IF Crate = "tcp" THEN cDispatched + 1 ELSE cDispatched
          /\ UNCHANGED <<cDropped, wDropped>>
     ELSE /\ outcome' = [outcome EXCEPT ![Cur(d)] = "dropped"]
          /\ cDropped' = cDropped + 1 /\ wDropped' = [wDropped EXCEPT ![Route(Cur(d))] = @ + 1]
          /\ UNCHANGED cDispatched
  /\ dpc' = [dpc EXCEPT ![d] = "idle"] /\ dnext' = [dnext EXCEPT ![d] = @ + 1]
  /\ UNCHANGED <<q, shutdown, dres, wpc, batch, analysed, log, owed>>

\* loop head: a worker leaves once shutdown is set and its queue is empty (packets already queued are finished first)
WHead(w) ==
  /\ wpc[w] = "head"
  /\ wpc' = [wpc EXCEPT ![w] = IF shutdown /\ q[w] = <<>> THEN "exit" ELSE "wait"]
  /\ UNCHANGED <<q, shutdown, dpc, dnext, dres, outcome, cDispatched, cDropped, wDropped, batch, analysed, log, owed>>
\* recv_timeout returns a packet
WRecv(w) ==
  /\ wpc[w] = "wait" /\ q[w] # <<>>
  /\ batch' = [batch EXCEPT ![w] = <<Head(q[w])>>] /\ q' = [q EXCEPT ![w] = Tail(@)]
  /\ wpc' = [wpc EXCEPT ![w] = "fill"]
  /\ UNCHANGED <<shutdown, dpc, dnext, dres, outcome, cDispatched, cDropped, wDropped, analysed, log, owed>>
\* recv_timeout returns Timeout: the queue was empty when the timer fired
WTimeout(w) ==
  /\ wpc[w] = "wait" /\ q[w] = <<>>
  /\ wpc' = [wpc EXCEPT ![w] = "tmo"]
  /\ UNCHANGED <<q, shutdown, dpc, dnext, dres, outcome, cDispatched, cDropped, wDropped, batch, analysed, log, owed>>
\* after a timeout the flag is read again.  Intended: go back to the loop head (which looks at the queue once more).
\* DX3_timeout_exit: the code before the repair left at once when the flag was set, without looking at the queue again.
WTmo(w) ==
  /\ wpc[w] = "tmo"
  /\ wpc' = [wpc EXCEPT ![w] = IF shutdown /\ "DX3_timeout_exit" \in Devs THEN "exit" ELSE "head"]
  /\ UNCHANGED <<q, shutdown, dpc, dnext, dres, outcome, cDispatched, cDropped, wDropped, batch, analysed, log, owed>>
\* the worker function returns: its receiver is dropped, what is still in the queue is discarded, later sends fail
WGone(w) ==
  /\ wpc[w] = "exit"
  /\ wpc' = [wpc EXCEPT ![w] = "gone"] /\ q' = [q EXCEPT ![w] = <<>>]
  /\ UNCHANGED <<shutdown, dpc, dnext, dres, outcome, cDispatched, cDropped, wDropped, batch, analysed, log, owed>>
WFill(w) ==
  /\ wpc[w] = "fill" /\ Len(batch[w]) < Batch /\ q[w] # <<>>
  /\ batch' = [batch EXCEPT ![w] = Append(@, Head(q[w]))] /\ q' = [q EXCEPT ![w] = Tail(@)]
  /\ UNCHANGED <<shutdown, dpc, dnext, dres, outcome, cDispatched, cDropped, wDropped, wpc, analysed, log, owed>>
WFillDone(w) ==
  /\ wpc[w] = "fill" /\ (Len(batch[w]) >= Batch \/ q[w] = <<>>)
  /\ wpc' = [wpc EXCEPT ![w] = "proc"]
  /\ UNCHANGED <<q, shutdown, dpc, dnext, dres, outcome, cDispatched, cDropped, wDropped, batch, analysed, log, owed>>
WProc(w) ==
  /\ wpc[w] = "proc" /\ batch[w] # <<>>
  /\ analysed' = [analysed EXCEPT ![Head(batch[w])] = @ + 1]
  /\ log' = [log EXCEPT ![w] = Append(@, Head(batch[w]))]
  /\ batch' = [batch EXCEPT ![w] = Tail(@)]
  /\ wpc' = [wpc EXCEPT ![w] = IF Len(batch[w]) = 1 THEN "head" ELSE "proc"]
  /\ UNCHANGED <<q, shutdown, dpc, dnext, dres, outcome, cDispatched, cDropped, wDropped, owed>>
\* shutdown(): the flag is set.  `owed` remembers what the pool owes its caller at that moment: every packet that is already
\* in a queue or was already reported queued (a dispatch call that has only read the flag so far is concurrent with shutdown
\* and owes nothing).
Shutdown == AllowShutdown /\ ~shutdown /\ shutdown' = TRUE
            /\ owed' = {p \in Packets : outcome[p] = "queued"} \cup {Cur(d) : d \in {e \in Disp : dpc[e] = "count" /\ dres[e] = "ok"}}
            /\ UNCHANGED <<q, dpc, dnext, dres, outcome, cDispatched, cDropped, wDropped, wpc, batch, analysed, log>>

Next == (\E d \in Disp : DStart(d) \/ DSend(d) \/ DCount(d)) \/ (\E w \in 1..NW : WHead(w) \/ WRecv(w) \/ WTimeout(w) \/ WTmo(w) \/ WGone(w) \/ WFill(w) \/ WFillDone(w) \/ WProc(w)) \/ Shutdown
DNext(d) == DStart(d) \/ DSend(d) \/ DCount(d)
WNext(w) == WHead(w) \/ WRecv(w) \/ WTimeout(w) \/ WTmo(w) \/ WGone(w) \/ WFill(w) \/ WFillDone(w) \/ WProc(w)
\* every thread keeps running (an idle worker spins through head / wait / timeout, so fairness is per thread)
Spec == Init /\ [][Next]_vars /\ (\A d \in Disp : WF_vars(DNext(d))) /\ (\A w \in 1..NW : WF_vars(WNext(w)))

\* ---- properties
Quiescent == /\ \A d \in Disp : dpc[d] = "idle" /\ dnext[d] > Len(Traces[d])
             /\ \A w \in 1..NW : q[w] = <<>> /\ batch[w] = <<>>
AtMostOnce == \A p \in Packets : analysed[p] <= 1
DroppedNever == \A p \in Packets : outcome[p] = "dropped" => analysed[p] = 0
QueuedOnce == (Quiescent /\ ~shutdown) => \A p \in Packets : outcome[p] = "queued" => analysed[p] = 1
EveryOutcome == Quiescent => \A p \in Packets : outcome[p] \in {"queued", "dropped"}
NDropped == Cardinality({p \in Packets : outcome[p] = "dropped"})
NQueued == Cardinality({p \in Packets : outcome[p] = "queued"})
CountersAgree == (Quiescent /\ ~shutdown) =>
   /\ cDropped = NDropped
   /\ cDispatched = (IF Crate = "tcp" THEN NQueued ELSE NQueued + NDropped)
ValidIndex == \A p \in Packets : Route(p) \in 1..NW

\* C10: position of p in its dispatcher's trace; earlier packets of the same connection
TracePos(p) == CHOOSE x \in {<<d, i>> : d \in Disp, i \in 1..20} : x[2] <= Len(Traces[x[1]]) /\ Traces[x[1]][x[2]] = p
Earlier(p) == LET x == TracePos(p) IN {Traces[x[1]][j] : j \in 1..(x[2] - 1)} \cap {r \in Packets : ConnOf(r) = ConnOf(p)}
\* p was analysed with the state a sequential analyzer would have had: every earlier packet of its connection was analysed before, by the same worker
WorkerOf(p) == CHOOSE w \in 1..NW : \E i \in 1..Len(log[w]) : log[w][i] = p
IdxIn(w, p) == CHOOSE i \in 1..Len(log[w]) : log[w][i] = p
Correct(p) == analysed[p] = 1 /\ \A r \in Earlier(p) : analysed[r] = 1 /\ WorkerOf(r) = WorkerOf(p) /\ IdxIn(WorkerOf(r), r) < IdxIn(WorkerOf(p), p)
SequentialEquivalence == (Quiescent /\ ~shutdown /\ NDropped = 0) => \A p \in Packets : Correct(p)
\* every run settles: all dispatch calls have returned and either everything queued is analysed or (after shutdown) the workers are gone
Termination == <>((\A d \in Disp : dpc[d] = "idle" /\ dnext[d] > Len(Traces[d])) /\ ((~shutdown /\ Quiescent) \/ (\A w \in 1..NW : wpc[w] = "gone")))
\* ---- life cycle (shutdown)
AllExited == \A w \in 1..NW : wpc[w] = "gone"
DispatchersDone == \A d \in Disp : dpc[d] = "idle" /\ dnext[d] > Len(Traces[d])
\* what was queued when shutdown() was called is analysed before the workers are gone
ShutdownDrains == (shutdown /\ AllExited) => \A p \in owed : analysed[p] = 1
\* a worker leaves only after shutdown
ExitOnlyAfterShutdown == \A w \in 1..NW : wpc[w] \in {"exit", "gone"} => shutdown
\* after shutdown every worker leaves (needs fairness of the worker steps)
WorkersLeave == shutdown ~> AllExited
\* NOT a property of the design: a dispatch call that read the flag before shutdown() may enqueue after its worker has left;
\* it is then reported queued and never analysed (model checked to be reachable: MC_Pool scenario x03_late)
NoLateQueued == (shutdown /\ AllExited /\ DispatchersDone) => \A p \in Packets : outcome[p] = "queued" => analysed[p] = 1
=============================================================================
