------------------------------- MODULE Reach --------------------------------
(***************************************************************************)
(* C13: traffic that conforms to a signature under the p0f field           *)
(* definitions (the inverse direction of TcpExtract), and what the design  *)
(* and the code model say the database lookup returns for it.              *)
(* choice == [ver (4|6), hop, m (MSS used where the signature leaves it    *)
(*            open), sc (window scale likewise), ecnip (ECN expressed in   *)
(*            the IP header instead of the TCP flags), pl (payload)]       *)
(***************************************************************************)
EXTENDS TcpExtract, Match

Has(q, sig) == \E i \in 1..Len(sig.quirks) : sig.quirks[i] = q
NZ == <<0, 0, 1, 44>>

OptOf(o, sig, c, synack) ==
  CASE o.k = "mss"  -> [k |-> "mss", v |-> IF sig.mss >= 0 THEN sig.mss ELSE c.m]
    [] o.k = "ws"   -> [k |-> "ws", v |-> IF Has("exws", sig) THEN 15 ELSE IF sig.wscale >= 0 THEN sig.wscale ELSE c.sc]
    [] o.k = "sok"  -> [k |-> "sok"]
    [] o.k = "sack" -> [k |-> "sack", n |-> 1]
    [] o.k = "ts"   -> [k |-> "ts", val |-> IF Has("ts1-", sig) THEN Zero4 ELSE NZ,
                        ecr |-> IF synack \/ Has("ts2+", sig) THEN NZ ELSE Zero4]
    [] o.k = "nop"  -> [k |-> "nop"]
    [] o.k = "eol"  -> [k |-> "eol"]
    [] o.k = "unk"  -> [k |-> "unk", kind |-> o.n, data |-> <<0, 0>>]

\* the option area a layout describes (eol+n: marker followed by n padding bytes)
AreaOf(sig, c, synack) ==
  LET lay == sig.olayout
      n == Len(lay)
      lastEol == n > 0 /\ lay[n].k = "eol"
  IN [opts |-> [i \in 1..n |-> OptOf(lay[i], sig, c, synack)],
      trail |-> IF lastEol THEN (IF Has("opt+", sig) /\ lay[n].n > 0 THEN <<1>> \o Rep(0, lay[n].n - 1) ELSE Rep(0, lay[n].n)) ELSE <<>>]

MssUsed(sig, c) == IF sig.mss >= 0 THEN sig.mss ELSE c.m
WinOf(sig, c) ==
  LET m == MssUsed(sig, c) IN
  CASE sig.wsize.k = "mss"   -> sig.wsize.n * m
    [] sig.wsize.k = "mtu"   -> sig.wsize.n * (m + MinHdr(c.ver))
    [] sig.wsize.k = "value" -> sig.wsize.n
    [] sig.wsize.k = "mod"   -> IF sig.wsize.n * 3 <= 65535 THEN sig.wsize.n * 3 ELSE sig.wsize.n
    [] sig.wsize.k = "any"   -> 12345

\* can this signature be rendered as a packet at all, for this choice?
Constructible(sig, c, synack) ==
  LET ol == AreaOf(sig, c, synack) IN
  /\ ~Has("bad", sig)
  /\ WireLen(ol.opts) + Len(ol.trail) <= 40 /\ (WireLen(ol.opts) + Len(ol.trail)) % 4 = 0
  /\ \A i \in 1..(Len(sig.olayout) - 1) : sig.olayout[i].k # "eol"
  /\ WinOf(sig, c) <= 65535
  /\ (c.ver = 6 => sig.olen = 0) /\ sig.olen % 4 = 0 /\ sig.olen <= 40
  /\ (sig.ittl.k \in {"value", "bad"}) /\ sig.ittl.a - c.hop >= 1
  /\ (sig.ver = "*" \/ sig.ver = (IF c.ver = 4 THEN "4" ELSE "6"))
  /\ (sig.pclass = "*" \/ sig.pclass = (IF c.pl THEN "+" ELSE "0"))
  \* p0f writes 0 for the MSS / scale of a packet that carries no such option
  /\ ((sig.mss > 0) => \E i \in 1..Len(sig.olayout) : sig.olayout[i].k = "mss")
  /\ ((sig.wscale > 0) => \E i \in 1..Len(sig.olayout) : sig.olayout[i].k = "ws")
  /\ ~(Has("id+", sig) /\ Has("id-", sig)) /\ ~(Has("ack+", sig) /\ synack) /\ ~(Has("ack-", sig) /\ ~synack)
  /\ ~(Has("ts2+", sig) /\ synack)

HdrOf(sig, c, synack) ==
  LET df == Has("df", sig) \/ Has("id+", sig)
      ecn == Has("ecn", sig)
      base == BaseHdr(c.ver)
      fl == (IF synack THEN SYN + ACK ELSE SYN) + (IF Has("urgf+", sig) THEN URG ELSE 0) + (IF Has("pushf+", sig) THEN PSH ELSE 0)
            + (IF ecn /\ ~c.ecnip THEN ECE + CWR ELSE 0)
      ol == AreaOf(sig, c, synack)
  IN WithOpts([base EXCEPT
        !.ttl = sig.ittl.a - c.hop,
        !.ihl = 5 + (sig.olen \div 4),
        !.df = df,
        !.ipid = IF Has("id+", sig) THEN 4660 ELSE IF Has("id-", sig) THEN 0 ELSE IF df THEN 0 ELSE 4660,
        !.tos = IF ecn /\ c.ecnip THEN 2 ELSE 0,
        !.rf = Has("0+", sig),
        !.flow = IF Has("flow", sig) THEN <<1, 2>> ELSE <<0, 0>>,
        !.seq = IF Has("seq-", sig) THEN Zero4 ELSE NZ,
        !.ack = IF synack THEN (IF Has("ack-", sig) THEN Zero4 ELSE NZ) ELSE (IF Has("ack+", sig) THEN NZ ELSE Zero4),
        !.urg = IF Has("uptr+", sig) THEN 7 ELSE 0,
        !.flags = fl,
        !.win = WinOf(sig, c),
        !.payload = IF c.pl THEN <<71>> ELSE <<>>], OptArea(ol))

\* the quirks of a signature that apply to traffic of this IP version (p0f ignores the others)
Applicable(sig, ver) == SelectSeq(sig.quirks, LAMBDA q : IF ver = 6 THEN q \notin {"df", "id+", "id-", "0+"} ELSE q # "flow")

\* p0f conformance of a packet's observation to a signature: Match!TcpInstance, with the documented version rule for quirks,
\* quirks as a set (the language gives them no order), a `nnn-` signature TTL as an upper bound, and a raw window
\* that is the stated multiple / modulus / value
Conforms(obs, sig, hdr) ==
  LET ver == hdr.ver IN
  /\ (sig.ver = "*" \/ obs.ver = sig.ver)
  /\ IF sig.ittl.k = "bad" THEN hdr.ttl <= sig.ittl.a
     ELSE sig.ittl.k = "value" /\ hdr.ttl <= sig.ittl.a /\ sig.ittl.a - hdr.ttl <= 35
  /\ obs.olen = sig.olen
  /\ (sig.mss < 0 \/ obs.mss = sig.mss \/ (sig.mss = 0 /\ obs.mss < 0))
  /\ (sig.wscale < 0 \/ obs.wscale = sig.wscale \/ (sig.wscale = 0 /\ obs.wscale < 0))
  /\ obs.olayout = sig.olayout
  /\ obs.quirks = {Applicable(sig, ver)[i] : i \in 1..Len(Applicable(sig, ver))}
  /\ (sig.pclass = "*" \/ obs.pclass = sig.pclass)
  /\ LET m == IF obs.mss < 0 THEN 0 ELSE obs.mss IN
     CASE sig.wsize.k = "any"   -> TRUE
       [] sig.wsize.k = "value" -> hdr.win = sig.wsize.n
       [] sig.wsize.k = "mod"   -> sig.wsize.n > 0 /\ hdr.win % sig.wsize.n = 0
       [] sig.wsize.k = "mss"   -> hdr.win = sig.wsize.n * m
       [] sig.wsize.k = "mtu"   -> hdr.win = sig.wsize.n * (m + MinHdr(ver))

\* option-related quirks in the order the option walk pushes them
RECURSIVE OptOrderFrom(_, _, _)
OptOrderFrom(h, seen, i) ==
  IF i > Len(seen) THEN <<>>
  ELSE (CASE seen[i].k = "ws" -> (IF seen[i].v > 14 THEN <<"exws">> ELSE <<>>)
          [] seen[i].k = "ts" -> (IF IsZero(seen[i].val) THEN <<"ts1-">> ELSE <<>>) \o (IF SynOnly(h.flags) /\ ~IsZero(seen[i].ecr) THEN <<"ts2+">> ELSE <<>>)
          [] OTHER -> <<>>) \o OptOrderFrom(h, seen, i + 1)
OptOrder(h, ol) == OptOrderFrom(h, Seen(ol), 1) \o (IF FirstEol(ol.opts) # 0 /\ ~IsZero(After(ol)) THEN <<"opt+">> ELSE <<>>)

\* the code model: observation as the code renders it (quirks in the code's emission order), distance as Match defines it
CodeQuirks(h, ol) ==     \* order in which visit_tcp pushes quirks (duplicates kept)
  LET hq == HdrQuirks(h)  oq == OptQuirks(h, ol)
      ipecn == (h.tos % 4) # 0
      tcpecn == HasFlag(h.flags, ECE) \/ HasFlag(h.flags, CWR)
      Pick(q) == IF q \in hq \cup oq THEN <<q>> ELSE <<>>
  IN (IF h.ver = 4 THEN (IF ipecn THEN <<"ecn">> ELSE <<>>) \o Pick("0+") \o Pick("df") \o Pick("id+") \o Pick("id-")
      ELSE Pick("flow") \o (IF ipecn THEN <<"ecn">> ELSE <<>>))
     \o (IF tcpecn THEN <<"ecn">> ELSE <<>>) \o Pick("seq-") \o Pick("ack-") \o Pick("ack+") \o Pick("urgf+") \o Pick("uptr+") \o Pick("pushf+")
     \o OptOrder(h, ol)

CodeObs(h, ol, K) == [Obs(h, ol, ThCode(h), K) EXCEPT !.quirks = CodeQuirks(h, ol)]

\* why the code model does not give distance 0 to the signature the traffic was built from
Reasons(obs, sig, ver) ==
     (IF TtlDist(obs.ittl, sig.ittl) = REJ THEN {"ttl_form"} ELSE IF TtlDist(obs.ittl, sig.ittl) > 0 THEN {"ttl_initial"} ELSE {})
  \cup (IF WinDist(obs.wsize, sig.wsize, obs.mss) = REJ THEN {"win_form"} ELSE IF WinDist(obs.wsize, sig.wsize, obs.mss) > 0 THEN {"win_value"} ELSE {})
  \cup (IF obs.olayout # sig.olayout THEN {"layout"} ELSE {})
  \cup (IF obs.quirks # sig.quirks
        THEN (IF {obs.quirks[i] : i \in 1..Len(obs.quirks)} = {sig.quirks[i] : i \in 1..Len(sig.quirks)} THEN {"quirk_order"}
              ELSE IF ver = 6 /\ {obs.quirks[i] : i \in 1..Len(obs.quirks)} = {Applicable(sig, 6)[i] : i \in 1..Len(Applicable(sig, 6))} THEN {"quirks_v6"}
              ELSE IF ver = 4 /\ {obs.quirks[i] : i \in 1..Len(obs.quirks)} = {Applicable(sig, 4)[i] : i \in 1..Len(Applicable(sig, 4))} THEN {"quirks_v4"}
              ELSE {"quirks_other"})
        ELSE {})
  \cup (IF MssDist(obs.mss, sig.mss) # 0 THEN {"mss"} ELSE {}) \cup (IF WscaleDist(obs.wscale, sig.wscale) # 0 THEN {"wscale"} ELSE {})
  \cup (IF OlenDist(obs.olen, sig.olen) # 0 THEN {"olen"} ELSE {})
=============================================================================
