SPECIFICATION Spec
INVARIANT Inv
PROPERTY ErrIsFinal
CHECK_DEADLOCK FALSE
