------------------------------- MODULE TV_C11 -------------------------------
(***************************************************************************)
(* C11: measured traces of long connections.  Row: scenario (crate, kind,  *)
(* conns, cap, ...) and events [idx, len, retained, allocated] recorded by *)
(* the counting allocator after / while handling packet idx of each        *)
(* connection.  Accepted iff every event is within Resources' bounds.      *)
(* Engine A: the design model is bounded, the recorded deviations are not. *)
(***************************************************************************)
EXTENDS Resources, Json, IOUtils, TLC
Rows == ndJsonDeserialize(IOEnv.TRACE)
ASSUME ModelBounded({})
ASSUME ~ModelBounded({"D11_unbounded_store"}) /\ ~ModelBounded({"D11_reparse", "D11_unbounded_store"})
Shards == 16
VARIABLES shard, phase
vars == <<shard, phase>>
Worst(r) == LET bad == {i \in 1..Len(r.events) : ~RetainedOk(r.conns, r.events[i].retained) \/ ~WorkOk(r.events[i].len, r.events[i].allocated)} IN
            IF bad = {} THEN 0 ELSE CHOOSE x \in bad : \A y \in bad : x <= y
RowOk(r) ==
  /\ (r.over /\ ~PlateauOk(r.events, r.cap)) =>
        PrintT("BAD " \o ToJson([id |-> r.id, event |-> r.events[Len(r.events)], retained_bound |-> -1, work_bound |-> -1, retained_ok |-> FALSE, work_ok |-> TRUE]))
  /\ Worst(r) # 0 =>
        LET i == Worst(r) IN
        PrintT("BAD " \o ToJson([id |-> r.id, event |-> r.events[i], retained_bound |-> Base + r.conns * L, work_bound |-> A + B * r.events[i].len,
                                  retained_ok |-> RetainedOk(r.conns, r.events[i].retained), work_ok |-> WorkOk(r.events[i].len, r.events[i].allocated)]))
Init == shard \in 0..(Shards - 1) /\ phase = 0
Next == phase = 0 /\ phase' = 1 /\ UNCHANGED shard
Inv == phase = 1 => \A i \in 1..Len(Rows) : (i % Shards = shard) => RowOk(Rows[i])
Spec == Init /\ [][Next]_vars
=============================================================================
