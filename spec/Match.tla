------------------------------- MODULE Match --------------------------------
(***************************************************************************)
(* Signature matching of huginn-net-db: component distances, their sum,    *)
(* the instance relation, index keys and best-match selection.             *)
(* Properties C02 (index transparency, optimum of a full scan), C12        *)
(* (distance laws), C13 (reachability uses Instance/ Distances).           *)
(*                                                                         *)
(* Rejected distance is REJ (-1).  Penalties are the constants documented  *)
(* in the source ("High = 0, Medium = 1, Low = 2"; HTTP adds "Bad = 3").   *)
(***************************************************************************)
EXTENDS P0fVocab, FiniteSets

REJ == -1
Min(a, b) == IF a < b THEN a ELSE b

PenTtl == 2
PenOlen == 2
PenMss == 2
PenWscale == 1
PenWin == 2
PenSw == 3

-----------------------------------------------------------------------------
(* TTL *)
Implied(t) == IF t.k = "dist" THEN Min(255, t.a + t.b) ELSE t.a   \* initial TTL a value stands for

TtlCrossForms == {<<"dist", "value">>, <<"value", "dist">>, <<"guess", "value">>, <<"value", "guess">>}
TtlComparable(o, s) == o.k = s.k \/ <<o.k, s.k>> \in TtlCrossForms
TtlSame(o, s) == IF o.k = s.k THEN (o.a = s.a /\ (o.k = "dist" => o.b = s.b)) ELSE Implied(o) = Implied(s)

\* the reference distance
TtlDist(o, s) == IF ~TtlComparable(o, s) THEN REJ ELSE IF TtlSame(o, s) THEN 0 ELSE PenTtl

\* the instance relation of the p0f language for the initial-TTL field:
\* a signature names an initial TTL; an observation that is that TTL minus a hop count instantiates it
TtlInstance(o, s) ==
  \/ o = s
  \/ s.k = "value" /\ o.k = "dist" /\ o.a + o.b = s.a
  \/ s.k = "value" /\ o.k = "guess" /\ o.a = s.a

\* law the implementation's table must obey, entry by entry (d = observed distance or REJ)
TtlLaw(o, s, d) ==
  /\ TtlInstance(o, s) => d = 0
  /\ (o.k = s.k /\ o # s) => d = PenTtl          \* same form, different value: exactly the penalty
  /\ d \in {REJ, 0, PenTtl}
  /\ (d = 0 /\ o.k = s.k) => o = s                 \* nothing but an equal value scores 0 within a form

-----------------------------------------------------------------------------
(* window size; mss is the observation's MSS (-1 if none) *)
WinDist(o, s, mss) ==
  IF s.k = "any" THEN 0
  ELSE IF o.k = s.k THEN (IF o.n = s.n THEN 0 ELSE PenWin)
  ELSE IF o.k = "value" /\ s.k = "mss"
       THEN (IF mss > 0 /\ o.n = s.n * mss THEN 0 ELSE PenWin)          \* exactly that multiple
       ELSE REJ

WinInstance(o, s) == s.k = "any" \/ o = s

\* the only pairs for which distance 0 is defensible under some reading of the p0f window forms (MTU-relative forms
\* cannot be judged without the link MTU and are left open)
WinZeroAllowed(o, s, mss) ==
  \/ WinInstance(o, s)
  \/ o.k = "value" /\ s.k = "mss" /\ mss > 0 /\ o.n = s.n * mss
  \/ o.k = "value" /\ s.k = "mod" /\ s.n > 0 /\ (o.n % s.n) = 0
  \/ o.k = "mss" /\ s.k = "value" /\ mss > 0 /\ o.n * mss = s.n
  \/ o.k = "mss" /\ s.k = "mod" /\ mss > 0 /\ s.n > 0 /\ ((o.n * mss) % s.n) = 0
  \/ o.k = "mod" /\ s.k = "mod" /\ s.n > 0 /\ (o.n % s.n) = 0
  \/ o.k = "mtu" \/ s.k = "mtu"

WinLaw(o, s, mss, d) ==
  /\ (d = 0) => WinZeroAllowed(o, s, mss)          \* nothing that is not an instance is accepted at distance 0
  /\ WinInstance(o, s) => d = 0
  /\ (o.k = s.k /\ o.n # s.n) => d = PenWin
  /\ d \in {REJ, 0, PenWin}
  /\ (o.k = "value" /\ s.k = "mss" /\ mss > 0 /\ o.n = s.n * mss) => d = 0    \* raw window that is that multiple

-----------------------------------------------------------------------------
(* scalar fields; -1 = wildcard in a signature / absent in an observation *)
OlenDist(o, s) == IF o = s THEN 0 ELSE PenOlen
MssDist(o, s) == IF s < 0 \/ o = s THEN 0 ELSE PenMss
WscaleDist(o, s) == IF s < 0 \/ o = s THEN 0 ELSE PenWscale

VerDist(o, s) == IF s = "*" \/ o = s THEN 0 ELSE REJ
PclassDist(o, s) == IF s = "*" \/ o = s THEN 0 ELSE REJ
ExactDist(o, s) == IF o = s THEN 0 ELSE REJ                  \* option layout, quirks

Sum(ds) == IF \E i \in 1..Len(ds) : ds[i] = REJ THEN REJ
           ELSE LET RECURSIVE Add(_) Add(k) == IF k = 0 THEN 0 ELSE ds[k] + Add(k - 1) IN Add(Len(ds))

TcpDist(o, s) ==
  Sum(<<VerDist(o.ver, s.ver), TtlDist(o.ittl, s.ittl), OlenDist(o.olen, s.olen), MssDist(o.mss, s.mss),
        WinDist(o.wsize, s.wsize, o.mss), WscaleDist(o.wscale, s.wscale), ExactDist(o.olayout, s.olayout),
        ExactDist(o.quirks, s.quirks), PclassDist(o.pclass, s.pclass)>>)

TcpInstance(o, s) ==
  /\ (s.ver = "*" \/ o.ver = s.ver) /\ TtlInstance(o.ittl, s.ittl) /\ o.olen = s.olen
  /\ (s.mss < 0 \/ o.mss = s.mss) /\ WinInstance(o.wsize, s.wsize) /\ (s.wscale < 0 \/ o.wscale = s.wscale)
  /\ o.olayout = s.olayout /\ o.quirks = s.quirks /\ (s.pclass = "*" \/ o.pclass = s.pclass)

-----------------------------------------------------------------------------
(* HTTP header lists: the documented two-pointer comparison *)
RECURSIVE HErrors(_, _, _, _)
HErrors(obs, sig, i, j) ==
  IF i > Len(obs) /\ j > Len(sig) THEN 0
  ELSE IF j > Len(sig) THEN 1 + HErrors(obs, sig, i + 1, j)                    \* extra observed header
  ELSE IF i > Len(obs) THEN (IF sig[j].opt THEN 0 ELSE 1) + HErrors(obs, sig, i, j + 1)
  ELSE IF obs[i].name = sig[j].name /\ obs[i].val = sig[j].val THEN HErrors(obs, sig, i + 1, j + 1)
  ELSE IF obs[i].name = sig[j].name THEN (IF sig[j].opt THEN 0 ELSE 1) + HErrors(obs, sig, i + 1, j + 1)
  ELSE IF sig[j].opt THEN HErrors(obs, sig, i, j + 1)
  ELSE 1 + HErrors(obs, sig, i, j + 1)

Band(e) == IF e <= 2 THEN 0 ELSE IF e <= 5 THEN 1 ELSE IF e <= 8 THEN 2 ELSE IF e <= 11 THEN 3 ELSE REJ
HeaderDist(obs, sig) == Band(HErrors(obs, sig, 1, 1))

\* obs is sig with some optional headers left out (names and values otherwise identical, order kept)
RECURSIVE HInstance(_, _)
HInstance(obs, sig) ==
  IF Len(sig) = 0 THEN Len(obs) = 0
  ELSE \/ Len(obs) > 0 /\ obs[1].name = sig[1].name /\ obs[1].val = sig[1].val /\ HInstance(Tail(obs), Tail(sig))
       \/ sig[1].opt /\ HInstance(obs, Tail(sig))

\* software string: the observed string contains the expected token
RECURSIVE StrContainsAt(_, _, _)
StrContainsAt(hay, needle, k) ==
  IF k + Len(needle) - 1 > Len(hay) THEN FALSE
  ELSE SubSeq(hay, k, k + Len(needle) - 1) = needle \/ StrContainsAt(hay, needle, k + 1)
StrContains(hay, needle) == Len(needle) = 0 \/ StrContainsAt(hay, needle, 1)

SwDist(o, s, D) ==
  IF "D12_sw_reversed" \in D
  THEN (IF StrContains(s, o) THEN 0 ELSE PenSw)        \* code: signature.contains(observed)
  ELSE (IF StrContains(o, s) THEN 0 ELSE PenSw)

HttpDist(o, s, D) ==
  Sum(<<VerDist(o.ver, s.ver), HeaderDist(o.horder, s.horder), HeaderDist(o.habsent, s.habsent), SwDist(o.sw, s.sw, D)>>)

HttpInstance(o, s) ==
  /\ (s.ver = "*" \/ o.ver = s.ver) /\ HInstance(o.horder, s.horder) /\ o.habsent = s.habsent /\ StrContains(o.sw, s.sw)

-----------------------------------------------------------------------------
(* quality: laws only -- the statement fixes no table *)
QualityLaw(q) ==   \* q : distance -> score * 100 over 0..N
  /\ \A d \in DOMAIN q : 5 <= q[d] /\ q[d] <= 100
  /\ \A d \in DOMAIN q : (q[d] = 100) <=> (d = 0)
  /\ \A d \in DOMAIN q : (d + 1 \in DOMAIN q) => q[d + 1] <= q[d]

-----------------------------------------------------------------------------
(* best match (C02).  dists: sequence over all entries in file order of REJ | n *)
RECURSIVE BestFrom(_, _, _)
BestFrom(dists, k, best) ==          \* best = 0 (none) or index of current best
  IF k > Len(dists) THEN best
  ELSE IF dists[k] # REJ /\ (best = 0 \/ dists[k] < dists[best]) THEN BestFrom(dists, k + 1, k)
  ELSE BestFrom(dists, k + 1, best)
SelectBest(dists) == BestFrom(dists, 1, 0)    \* first entry with the smallest distance; 0 if none accepts

\* the index: keys under which a signature is filed, key an observation is looked up with
TcpSigKeys(s) ==
  {<<v, s.olayout, p>> : v \in (IF s.ver = "*" THEN {"4", "6"} ELSE {s.ver}),
                         p \in (IF s.pclass = "*" THEN {"0", "+"} ELSE {s.pclass})}
TcpObsKey(o) == <<o.ver, o.olayout, o.pclass>>

HttpSigKeys(s, D) ==
  IF s.ver = "*"
  THEN (IF "D02_http_any_10_11" \in D THEN {"0", "1"} ELSE {"0", "1", "2", "3"})
  ELSE {s.ver}
HttpObsKey(o) == o.ver

\* candidates in file order, as positions into the entry list
TcpCandidates(sigs, o) == [i \in 1..Len(sigs) |-> IF TcpObsKey(o) \in TcpSigKeys(sigs[i]) THEN TcpDist(o, sigs[i]) ELSE REJ]
TcpAll(sigs, o) == [i \in 1..Len(sigs) |-> TcpDist(o, sigs[i])]
HttpCandidates(sigs, o, D) == [i \in 1..Len(sigs) |-> IF HttpObsKey(o) \in HttpSigKeys(sigs[i], D) THEN HttpDist(o, sigs[i], {}) ELSE REJ]
HttpAll(sigs, o) == [i \in 1..Len(sigs) |-> HttpDist(o, sigs[i], {})]
=============================================================================
