------------------------------- MODULE Akamai -------------------------------
(***************************************************************************)
(* Akamai HTTP/2 fingerprint S|WU|P|PS (Blackhat EU 2017) of a client      *)
(* connection start, and the incremental extractor.  Property C17.         *)
(* frame == [k |-> "settings", params : Seq([id, val : pair]), stream, ack]*)
(*        | [k |-> "wu", stream, inc : pair (31 bits), rbit : BOOLEAN]     *)
(*        | [k |-> "prio", stream, p : Http2 prio record, rbit : BOOLEAN]  *)
(*        | [k |-> "headers", stream, list : header list, o : framing]     *)
(*        | [k |-> "ping"] | [k |-> "data", stream, n]                     *)
(***************************************************************************)
EXTENDS Http2, FiniteSets

\* decimal text of a u32 given as <<hi16, lo16>>
DivP(a, d) == LET q1 == a[1] \div d  r1 == a[1] % d  t == r1 * 65536 + a[2] IN <<q1, t \div d>>
ModP(a, d) == ((a[1] % d) * 65536 + a[2]) % d
RECURSIVE Dec(_)
Dec(a) == IF a[1] = 0 /\ a[2] < 10 THEN ToString(a[2]) ELSE Dec(DivP(a, 10)) \o ToString(ModP(a, 10))

FrameBytes(f, dyn) ==
  CASE f.k = "settings" -> Frame(TSettings, IF f.ack THEN 1 ELSE 0, f.stream, Flatten([i \in 1..Len(f.params) |-> U16(f.params[i].id) \o U32(f.params[i].val)]))
    [] f.k = "wu"       -> Frame(TWindow, 0, f.stream, U32(<<f.inc[1] + (IF f.rbit THEN 32768 ELSE 0), f.inc[2]>>))
    [] f.k = "prio"     -> Frame(TPriority, 0, f.stream + (IF f.rbit THEN 0 ELSE 0), PrioBytes(f.p))
    [] f.k = "headers"  -> HeaderFrames(EncodeBlock([updates |-> <<>>, fields |-> f.list], dyn).bytes, f.stream, f.o)
    [] f.k = "ping"     -> Ping
    [] f.k = "data"     -> DataFrame(f.stream, f.n)

\* bytes of each frame of the sequence (the HPACK table is threaded through the HEADERS frames)
RECURSIVE FramesBytes(_, _)
FramesBytes(fs, dyn) ==
  IF Len(fs) = 0 THEN <<>>
  ELSE <<FrameBytes(fs[1], dyn)>> \o FramesBytes(Tail(fs), IF fs[1].k = "headers" THEN EncodeBlock([updates |-> <<>>, fields |-> fs[1].list], dyn).dyn ELSE dyn)

FirstOf(fs, P(_)) == LET idx == {i \in 1..Len(fs) : P(fs[i])} IN IF idx = {} THEN 0 ELSE CHOOSE i \in idx : \A j \in idx : i <= j
IsSettings0(f) == f.k = "settings" /\ f.stream = 0
IsWu0(f) == f.k = "wu" /\ f.stream = 0
IsReqHeaders(f) == f.k = "headers" /\ f.stream > 0

\* a pseudo-header the scheme has no letter for (":protocol" of RFC 8441 ...) keeps its place in the order, written "?" + its wire name
\* (the code's documented rendering of PseudoHeader::Unknown)
Letter(n) == CASE n = ":method" -> "m" [] n = ":path" -> "p" [] n = ":authority" -> "a" [] n = ":scheme" -> "s" [] n = ":status" -> "st" [] OTHER -> "?" \o n

\* the fingerprint of a frame sequence; <<>> when it holds no SETTINGS frame on stream 0 (with parameters)
Fp(fs) ==
  LET si == FirstOf(fs, IsSettings0)
      wi == FirstOf(fs, IsWu0)
      hi == FirstOf(fs, IsReqHeaders)
      prios == SelectSeq(fs, LAMBDA f : f.k = "prio")
      S == Join([i \in 1..Len(fs[si].params) |-> ToString(fs[si].params[i].id) \o ":" \o Dec(fs[si].params[i].val)], ";")
      WU == IF wi = 0 \/ fs[wi].inc = <<0, 0>> THEN "00" ELSE Dec(fs[wi].inc)
      Pp == IF Len(prios) = 0 THEN "0"
            ELSE Join([i \in 1..Len(prios) |-> ToString(prios[i].stream) \o ":" \o (IF prios[i].p.excl THEN "1" ELSE "0") \o ":" \o Dec(prios[i].p.dep)
                                                \o ":" \o ToString(prios[i].p.weight + 1)], ",")
      pseudo == IF hi = 0 THEN <<>> ELSE SelectSeq(fs[hi].list, LAMBDA e : IsPseudo(e.name))
      PS == Join([i \in 1..Len(pseudo) |-> Letter(pseudo[i].name)], ",")
  IN IF si = 0 \/ Len(fs[si].params) = 0 THEN <<>> ELSE <<S \o "|" \o WU \o "|" \o Pp \o "|" \o PS>>

\* ---- incremental extractor, on offsets.
\* ends[i] = stream offset just after frame i (including the preface); fps[k + 1] = Fp(first k frames)
\* Feeding chunk lengths cs: one report, on the chunk that completes the first SETTINGS frame, equal to the one-shot
\* fingerprint of everything received so far.
Complete(ends, cum) == Cardinality({i \in 1..Len(ends) : ends[i] <= cum})
RECURSIVE Inc(_, _, _, _, _, _)
Inc(ends, sidx, fps, cs, i, cum) ==
  IF i > Len(cs) THEN <<>>
  ELSE LET now == cum + cs[i]
           fires == sidx > 0 /\ cum < ends[sidx] /\ now >= ends[sidx]
       IN <<IF fires THEN fps[Complete(ends, now) + 1] ELSE <<>>>> \o Inc(ends, sidx, fps, cs, i + 1, now)
Incremental(ends, sidx, fps, cs) == Inc(ends, sidx, fps, cs, 1, 0)
=============================================================================
