------------------------------ MODULE TV_C11F ------------------------------
(***************************************************************************)
(* C11 (capture front ends), implementation -> specification.  Row: one    *)
(* analyzer and one kind of endless connection, captured twice (n and 4n   *)
(* segments), each capture analysed by analyze_pcap while the counting     *)
(* allocator's live bytes were sampled: the two peaks.  Accepted iff       *)
(* Resources!FrontEndOk: the peak does not grow with the capture.          *)
(***************************************************************************)
EXTENDS Resources, Json, IOUtils, TLC
Rows == ndJsonDeserialize(IOEnv.TRACE)
RowOk(r) == FrontEndOk(r.peak_small, r.peak_big) \/ PrintT("BAD " \o ToJson(r))
VARIABLES phase
Init == phase = 0
Next == phase = 0 /\ phase' = 1
Inv == phase = 1 => \A i \in 1..Len(Rows) : RowOk(Rows[i])
Spec == Init /\ [][Next]_phase
ASSUME FrontEndOk(8000000, 8100000) /\ ~FrontEndOk(8000000, 16000000)
=============================================================================
