------------------------------- MODULE MC_C15 -------------------------------
(***************************************************************************)
(* C15: frame shapes (Ethernet / raw IP / loopback framing x IPv4 header   *)
(* lengths 0..15 x IPv6 x TCP / not TCP x version nibble) carrying a SYN, a one-segment     *)
(* ClientHello and an HTTP exchange, with the endpoints the analyzer's own *)
(* decoder derives (FullEndpoints) and, for every filter configuration of  *)
(* the list, which frames the filter must admit (Filter!ShouldProcess on   *)
(* those endpoints).  The drivers compare: analyzer with the filter on the *)
(* whole trace = analyzer without filter on the admitted sub-trace.        *)
(* Engine A: the quick decoder of the *design* agrees with the full one on *)
(* every shape; the code's quick decoder (deviations) does not.            *)
(***************************************************************************)
EXTENDS TcpExtract, Json, IOUtils, TLC, SequencesExt
FL == INSTANCE Filter
J == INSTANCE Ja4
HP == INSTANCE Hpack

Shards == 16
VARIABLES shard, phase
vars == <<shard, phase>>

Crlf == <<13, 10>>
ReqBytes == HP!StrBytes("GET /index.html HTTP/1.1") \o Crlf \o HP!StrBytes("Host: www.example.com") \o Crlf \o HP!StrBytes("User-Agent: curl/8.0") \o Crlf \o Crlf
RespBytes == HP!StrBytes("HTTP/1.1 200 OK") \o Crlf \o HP!StrBytes("Server: nginx") \o Crlf \o Crlf \o HP!StrBytes("hello")
Hello == J!Wire([legacy |-> 771, sid |-> <<>>, ciphers |-> <<4865, 4866>>, comps |-> <<0>>, noext |-> FALSE,
                 exts |-> <<[t |-> 0, k |-> "sni", host |-> HP!StrBytes("example.com")], [t |-> 43, k |-> "sv", versions |-> <<772>>]>>])
StdOl == [opts |-> <<[k |-> "mss", v |-> 1460], [k |-> "sok"], [k |-> "ts", val |-> <<0, 0, 1, 44>>, ecr |-> Zero4], [k |-> "nop"], [k |-> "ws", v |-> 7]>>, trail |-> <<>>]

\* vnib: the version nibble of the IP header.  Under Ethernet framing the analyzer goes by the EtherType alone, so a frame
\* whose nibble disagrees is still analysed (and must be judged by the filter on the same endpoints)
Shapes == {[link |-> l, ver |-> 4, vnib |-> 4, ihl |-> i, proto |-> p] : l \in {"eth", "raw", "null"}, i \in 0..15, p \in {6, 17}}
          \cup {[link |-> l, ver |-> 6, vnib |-> 6, ihl |-> 5, proto |-> p] : l \in {"eth", "raw", "null"}, p \in {6, 17}}
          \cup {[link |-> "eth", ver |-> 4, vnib |-> n, ihl |-> i, proto |-> 6] : n \in {0, 5, 6, 15}, i \in {4, 5, 6}}
          \cup {[link |-> "eth", ver |-> 6, vnib |-> n, ihl |-> 5, proto |-> 6] : n \in {0, 4, 7}}
\* cut: bytes missing at the end of every frame that carries payload (a capture with a short snap length): the length fields of
\* the IP header then overstate what is present; the analyzer works with the bytes that are there
CutShapes == {[s EXCEPT !.cut = c] : s \in {[link |-> l, ver |-> v, vnib |-> v, ihl |-> 5, proto |-> 6, cut |-> 0] : l \in {"eth", "raw", "null"}, v \in {4, 6}}, c \in {1, 3}}
\* macs: Ethernet addresses whose bytes, read at the offsets of another framing, look like an IP header (version nibble at byte 0,
\* protocol 6 at byte 9 / next header 6 at byte 6, the 1e 00 loopback signature): the frame is Ethernet all the same
MacPairs == <<[d |-> <<68, 168, 66, 16, 32, 48>>, s |-> <<0, 27, 33, 6, 91, 122>>],          \* 44:.. / ..:..:..:06 : raw IPv4 look-alike
              [d |-> <<96, 1, 2, 3, 4, 5>>, s |-> <<6, 27, 33, 7, 91, 122>>],               \* 60:.. / 06:..       : raw IPv6 look-alike
              [d |-> <<30, 0, 9, 9, 96, 9>>, s |-> <<0, 27, 33, 7, 6, 122>>],               \* 1e:00:..:..:6x / ..:06 : loopback IPv6 look-alike
              [d |-> <<30, 0, 0, 0, 69, 0>>, s |-> <<0, 40, 0, 0, 64, 0>>]>>                \* 1e:00:00:00:45:00   : loopback IPv4 look-alike
\* mapped: IPv6 packets whose addresses are IPv4-mapped (::ffff:10.0.0.1 -> ::ffff:10.0.0.2): they are IPv6 endpoints, so IPv4 filter entries
\* (10.0.0.1, 10.0.0.0/8) do not apply to them and IPv6 entries do
Mapped(b4) == <<0, 0, 0, 0, 0, 0, 0, 0, 0, 0, 255, 255>> \o b4
MappedShapes == {[link |-> l, ver |-> 6, vnib |-> 6, ihl |-> 5, proto |-> 6, cut |-> 0, mac |-> 0, mapped |-> TRUE] : l \in {"eth", "raw"}}
MacOf(s) == IF "mac" \in DOMAIN s THEN s.mac ELSE 0
MacShapes == {[link |-> "eth", ver |-> v, vnib |-> v, ihl |-> 5, proto |-> 6, cut |-> 0, mac |-> m] : v \in {4, 6}, m \in 1..Len(MacPairs)}
ShapeSeq == SetToSeq(MappedShapes \cup MacShapes \cup {[mac |-> 0] @@ s : s \in {[link |-> s.link, ver |-> s.ver, vnib |-> s.vnib, ihl |-> s.ihl, proto |-> s.proto, cut |-> 0] : s \in Shapes} \cup CutShapes})

BS(s, b) == IF "mapped" \in DOMAIN s THEN Mapped(Src4) ELSE b.src
BD(s, b) == IF "mapped" \in DOMAIN s THEN Mapped(Dst4) ELSE b.dst
Base(s, rev) ==
  LET b == BaseHdr(s.ver) IN
  [(IF "mapped" \in DOMAIN s THEN [b EXCEPT !.src = Mapped(Src4), !.dst = Mapped(Dst4)] ELSE b) EXCEPT !.ihl = s.ihl, !.vnib = s.vnib, !.dmac = IF MacOf(s) = 0 THEN b.dmac ELSE MacPairs[MacOf(s)].d, !.smac = IF MacOf(s) = 0 THEN b.smac ELSE MacPairs[MacOf(s)].s, !.proto = s.proto, !.src = IF rev THEN BD(s, b) ELSE BS(s, b), !.dst = IF rev THEN BS(s, b) ELSE BD(s, b),
            !.sport = IF rev THEN 80 ELSE 40000, !.dport = IF rev THEN 40000 ELSE 80]
Seg(s, rev, flags, seqlo, payload) == [Base(s, rev) EXCEPT !.flags = flags, !.seq = <<0, 0, 0, seqlo>>, !.ack = IF flags = SYN THEN Zero4 ELSE <<0, 0, 0, 9>>, !.payload = payload]

TraceTcp(s) == <<WithOpts(Seg(s, FALSE, SYN, 100, <<>>), OptArea(StdOl)), WithOpts(Seg(s, TRUE, SYN + ACK, 50, <<>>), OptArea(StdOl))>>
TraceTls(s) == <<[Seg(s, FALSE, PSH + ACK, 101, Hello) EXCEPT !.dport = 443]>>
TraceHttp(s) == <<Seg(s, FALSE, SYN, 100, <<>>), Seg(s, TRUE, SYN + ACK, 50, <<>>), Seg(s, FALSE, PSH + ACK, 101, ReqBytes), Seg(s, TRUE, PSH + ACK, 51, RespBytes)>>

\* endpoints as the analyzer's decoder derives them (addresses at their fixed offsets, ports at the start of what it takes
\* as the TCP header); a frame that is not TCP is not read at all
Readable(h) == h.proto = 6
Ep(h) == [sa |-> [v |-> h.ver, b |-> h.src], da |-> [v |-> h.ver, b |-> h.dst], sp |-> h.sport, dp |-> h.dport]

\* the filter's own quick decoder, with the recorded deviations: ports read at 4 x IHL; loopback framing dispatched on the
\* address family word instead of the IP version nibble
QuickReads(link, h, D) ==
  IF h.proto # 6 THEN "none"
  ELSE IF link = "null" /\ h.ver = 4 /\ "D15_null_af_vs_nibble" \in D THEN "none"     \* AF 30 + IPv4 inside: not decoded, hence admitted
  ELSE IF h.ver = 4 /\ h.ihl < 5 /\ "D15_ihl_lt_5" \in D THEN "wrongports"
  ELSE "same"

A(b) == [v |-> IF Len(b) = 4 THEN 4 ELSE 6, b |-> b]
PF(sp, dp, any) == [sp |-> sp, dp |-> dp, sr |-> <<>>, dr |-> <<>>, any |-> any]
Cfg(deny, port, ip, sub) == [deny |-> deny, port |-> port, ip |-> ip, sub |-> sub]
Cfgs == <<
  Cfg(FALSE, <<PF(<<>>, <<80>>, FALSE)>>, <<>>, <<>>),
  Cfg(TRUE,  <<PF(<<>>, <<80>>, FALSE)>>, <<>>, <<>>),
  Cfg(FALSE, <<PF(<<>>, <<443>>, FALSE)>>, <<>>, <<>>),
  Cfg(FALSE, <<PF(<<40000>>, <<>>, FALSE)>>, <<>>, <<>>),
  Cfg(FALSE, <<PF(<<>>, <<80, 443>>, TRUE)>>, <<>>, <<>>),
  Cfg(TRUE,  <<PF(<<>>, <<443>>, TRUE)>>, <<>>, <<>>),
  Cfg(FALSE, <<>>, <<[addrs |-> <<A(Src4), A(Src6)>>, cs |-> TRUE, cd |-> FALSE]>>, <<>>),
  Cfg(TRUE,  <<>>, <<[addrs |-> <<A(Src4), A(Src6)>>, cs |-> TRUE, cd |-> TRUE]>>, <<>>),
  Cfg(FALSE, <<>>, <<[addrs |-> <<A(<<10, 9, 9, 9>>)>>, cs |-> TRUE, cd |-> TRUE]>>, <<>>),
  Cfg(FALSE, <<>>, <<>>, <<[nets |-> <<[a |-> A(<<10, 0, 0, 0>>), p |-> 30]>>, cs |-> FALSE, cd |-> TRUE]>>),
  Cfg(TRUE,  <<>>, <<>>, <<[nets |-> <<[a |-> A(<<10, 0, 0, 2>>), p |-> 32], [a |-> A(Dst6), p |-> 128]>>, cs |-> TRUE, cd |-> FALSE]>>),
  Cfg(FALSE, <<PF(<<>>, <<80>>, FALSE)>>, <<[addrs |-> <<A(Dst4), A(Dst6)>>, cs |-> FALSE, cd |-> TRUE]>>, <<[nets |-> <<[a |-> A(<<10, 0, 0, 0>>), p |-> 8], [a |-> A(Src6), p |-> 32]>>, cs |-> TRUE, cd |-> TRUE]>>),
  Cfg(TRUE,  <<PF(<<>>, <<80>>, FALSE)>>, <<[addrs |-> <<A(Dst4), A(Dst6)>>, cs |-> FALSE, cd |-> TRUE]>>, <<>>),
  Cfg(FALSE, <<>>, <<>>, <<[nets |-> <<[a |-> A(Mapped(<<0, 0, 0, 0>>)), p |-> 96]>>, cs |-> TRUE, cd |-> TRUE]>>),          \* ::ffff:0:0/96 only
  Cfg(FALSE, <<>>, <<[addrs |-> <<A(Mapped(Src4)), A(Dst4)>>, cs |-> TRUE, cd |-> TRUE]>>, <<>>)
>>

Admits(c, h) == FL!ShouldProcess(Cfgs[c], Ep(h), {})
CutFrame(link, h, cut) == LET f == Frame(link, h) IN IF Len(h.payload) > cut THEN SubSeq(f, 1, Len(f) - cut) ELSE f
TraceInfo(link, tr, cut) == [frames |-> [i \in 1..Len(tr) |-> CutFrame(link, tr[i], cut)], readable |-> [i \in 1..Len(tr) |-> Readable(tr[i])],
                        admit |-> [c \in 1..Len(Cfgs) |-> [i \in 1..Len(tr) |-> Admits(c, tr[i])]],
                        quick |-> [i \in 1..Len(tr) |-> QuickReads(link, tr[i], {"D15_null_af_vs_nibble", "D15_ihl_lt_5"})]]
Emit(k) ==
  LET s == ShapeSeq[k] IN
  PrintT("REPLAY " \o ToJson([shape |-> s, tcp |-> TraceInfo(s.link, TraceTcp(s), s.cut), tls |-> TraceInfo(s.link, TraceTls(s), s.cut), http |-> TraceInfo(s.link, TraceHttp(s), s.cut)]))

\* engine A: on the design (no deviation) the quick decoder reads every readable frame like the full one; with the deviations it does not
ASSUME \A s \in Shapes : \A h \in {TraceTcp(s)[1], TraceTls(s)[1]} : Readable(h) => QuickReads(s.link, h, {}) = "same"
ASSUME \E s \in Shapes : Readable(TraceTcp(s)[1]) /\ QuickReads(s.link, TraceTcp(s)[1], {"D15_ihl_lt_5"}) # "same"
ASSUME \E s \in Shapes : Readable(TraceTcp(s)[1]) /\ QuickReads(s.link, TraceTcp(s)[1], {"D15_null_af_vs_nibble"}) # "same"
ASSUME PrintT("STAT " \o ToJson([cfgs |-> Cfgs]))
Init == shard \in 0..(Shards - 1) /\ phase = 0
Next == phase = 0 /\ phase' = 1 /\ UNCHANGED shard
Inv == phase = 1 => \A k \in 1..Len(ShapeSeq) : (k % Shards = shard) => Emit(k)
Spec == Init /\ [][Next]_vars
=============================================================================
