------------------------------- MODULE MC_C14 -------------------------------
(***************************************************************************)
(* Bounded instance of Filter for TLC: enumerates every filter             *)
(* configuration of the vocabulary below against every endpoint 4-tuple of *)
(* the universe, checks the documented laws on the definition, and prints  *)
(* one REPLAY vector per configuration (expected admit bit per endpoint).  *)
(* Tier (IOEnv.VERIF_TIER): quick = reduced endpoint universe.             *)
(***************************************************************************)
EXTENDS Filter, TLC, Json, IOUtils

VARIABLES shard, phase
vars == <<shard, phase>>

Shards == 16
Thorough == IOEnv.VERIF_TIER = "thorough"
Fam == IOEnv.VERIF_FAM            \* "base": the vocabulary below; "order": lists whose elements overlap, nest or repeat (order of the builder calls)

V4(a, b, c, d) == [v |-> 4, b |-> <<a, b, c, d>>]
V6(s) == [v |-> 6, b |-> s]

A1 == V4(10, 0, 0, 1)
A2 == V4(10, 0, 0, 2)
A3 == V4(10, 0, 1, 1)
A4 == V4(192, 168, 1, 77)
A5 == V4(127, 255, 255, 255)
B1 == V6(<<32, 1, 13, 184, 0, 0, 0, 0, 0, 0, 0, 0, 0, 0, 0, 1>>)          \* 2001:db8::1
B2 == V6(<<32, 1, 13, 184, 0, 0, 0, 0, 128, 0, 0, 0, 0, 0, 0, 1>>)        \* 2001:db8:0:0:8000::1
B3 == V6(<<254, 128, 0, 0, 0, 0, 0, 0, 0, 0, 0, 0, 0, 0, 0, 2>>)          \* fe80::2
B4 == V6(<<32, 1, 13, 184, 0, 0, 0, 0, 0, 0, 0, 0, 0, 0, 0, 0>>)          \* 2001:db8::
B5 == V6(<<32, 1, 13, 184, 0, 1, 0, 0, 0, 0, 0, 0, 0, 0, 0, 1>>)          \* 2001:db8:1::1 (inside 2001:db8::/32, outside /64)

Addrs == IF Fam = "order" THEN <<A1, A3, A4, B1, B5, B3>> ELSE IF Thorough THEN <<A1, A2, A3, A4, A5, B1, B2, B3>> ELSE <<A1, A2, A4, B1, B3>>
Ports == IF Fam = "order" THEN <<79, 80, 8000, 8005, 9000>> ELSE IF Thorough THEN <<0, 1, 79, 80, 81, 443, 65534, 65535>> ELSE <<0, 79, 80, 443, 65535>>

HO(lo, hi) == [lo |-> lo, hi |-> hi, incl |-> FALSE]    \* builder: lo..hi
CL(lo, hi) == [lo |-> lo, hi |-> hi, incl |-> TRUE]     \* public field: (lo, hi) inclusive

PF(sp, dp, sr, dr, any) == [sp |-> sp, dp |-> dp, sr |-> sr, dr |-> dr, any |-> any]

PortFsBase == <<
  PF(<<>>, <<>>, <<>>, <<>>, FALSE),                    \* configured but unconstrained
  PF(<<>>, <<80>>, <<>>, <<>>, FALSE),
  PF(<<80>>, <<>>, <<>>, <<>>, FALSE),
  PF(<<>>, <<80, 443>>, <<>>, <<>>, FALSE),
  PF(<<0>>, <<65535>>, <<>>, <<>>, FALSE),
  PF(<<>>, <<>>, <<>>, <<HO(79, 81)>>, FALSE),
  PF(<<>>, <<>>, <<HO(0, 1)>>, <<>>, FALSE),
  PF(<<>>, <<>>, <<>>, <<HO(0, 0)>>, FALSE),            \* empty half-open range at 0
  PF(<<>>, <<>>, <<HO(0, 0)>>, <<>>, FALSE),
  PF(<<>>, <<>>, <<>>, <<HO(80, 80)>>, FALSE),          \* empty half-open range elsewhere
  PF(<<>>, <<>>, <<>>, <<HO(81, 79)>>, FALSE),          \* reversed
  PF(<<>>, <<>>, <<>>, <<HO(0, 65535)>>, FALSE),        \* everything but 65535
  PF(<<>>, <<>>, <<HO(65534, 65535)>>, <<HO(1, 80)>>, FALSE),
  PF(<<>>, <<>>, <<>>, <<CL(65535, 65535)>>, FALSE),
  PF(<<>>, <<>>, <<CL(0, 0)>>, <<CL(443, 65535)>>, FALSE),
  PF(<<>>, <<443>>, <<>>, <<HO(79, 80)>>, FALSE),       \* list or range on one side
  PF(<<>>, <<80>>, <<>>, <<>>, TRUE),                   \* any-port
  PF(<<443>>, <<>>, <<HO(0, 2)>>, <<>>, TRUE),
  PF(<<>>, <<>>, <<>>, <<>>, TRUE),                     \* any-port over nothing
  PF(<<>>, <<>>, <<>>, <<HO(0, 0)>>, TRUE),
  PF(<<79>>, <<81>>, <<>>, <<CL(65534, 65535)>>, TRUE)
>>

IF_(addrs, cs, cd) == [addrs |-> addrs, cs |-> cs, cd |-> cd]
IpFsBase == <<
  IF_(<<A1>>, TRUE, TRUE),
  IF_(<<A1>>, TRUE, FALSE),
  IF_(<<A1>>, FALSE, TRUE),
  IF_(<<A1>>, FALSE, FALSE),                            \* public fields: no side enabled
  IF_(<<>>, TRUE, TRUE),
  IF_(<<A2, B1>>, TRUE, TRUE),
  IF_(<<B3>>, FALSE, TRUE),
  IF_(<<B1, B3, A4>>, TRUE, FALSE)
>>

N(a, p) == [a |-> a, p |-> p]
SF(nets, cs, cd) == [nets |-> nets, cs |-> cs, cd |-> cd]
SubFsBase == <<
  SF(<<N(V4(10, 0, 0, 0), 8)>>, TRUE, TRUE),
  SF(<<N(V4(10, 0, 0, 0), 24)>>, TRUE, FALSE),
  SF(<<N(V4(10, 0, 0, 0), 31)>>, FALSE, TRUE),
  SF(<<N(A1, 32)>>, TRUE, TRUE),
  SF(<<N(V4(0, 0, 0, 0), 0)>>, TRUE, TRUE),             \* all of IPv4, no IPv6
  SF(<<N(V4(0, 0, 0, 0), 1)>>, TRUE, TRUE),             \* 0.0.0.0/1: excludes 192.168.1.77
  SF(<<N(V4(192, 168, 1, 5), 24)>>, FALSE, TRUE),       \* host bits set in the written block
  SF(<<N(B4, 64)>>, TRUE, TRUE),
  SF(<<N(B4, 65)>>, TRUE, TRUE),                        \* splits B1 from B2
  SF(<<N(B1, 128)>>, TRUE, FALSE),
  SF(<<N(B1, 127)>>, TRUE, TRUE),                       \* contains 2001:db8:: and ::1
  SF(<<N(V6(<<0, 0, 0, 0, 0, 0, 0, 0, 0, 0, 0, 0, 0, 0, 0, 0>>), 0)>>, FALSE, TRUE),
  SF(<<N(V4(10, 0, 1, 0), 24), N(B3, 10)>>, TRUE, TRUE),
  SF(<<>>, TRUE, TRUE),
  SF(<<N(V4(10, 0, 0, 0), 8)>>, FALSE, FALSE)
>>

\* ---- order family: the same sets written in different orders, with nested, overlapping and repeated elements
PortFsO == <<
  PF(<<>>, <<>>, <<>>, <<HO(8000, 8006), HO(8000, 9001)>>, FALSE),        \* narrow range first, then a wider one with the same start
  PF(<<>>, <<>>, <<>>, <<HO(8000, 9001), HO(8000, 8006)>>, FALSE),
  PF(<<>>, <<80, 80, 8000>>, <<>>, <<HO(79, 81)>>, FALSE),                \* repeated port, port inside a range
  PF(<<8005>>, <<>>, <<CL(8000, 8005), CL(8005, 9000)>>, <<>>, TRUE)      \* touching closed ranges, any-port
>>
IpFsO == <<
  IF_(<<A1, A1, A3>>, TRUE, TRUE),
  IF_(<<A3, B5, A1>>, TRUE, FALSE),
  IF_(<<B5, B1, B5>>, FALSE, TRUE),
  IF_(<<B3, B5, B1>>, TRUE, TRUE),                    \* three and more addresses of one family in descending / mixed order
  IF_(<<B5, B3, B1, A4, A3, A1>>, TRUE, FALSE),
  IF_(<<A4, A1, A3>>, FALSE, TRUE)
>>
SubFsO == <<
  SF(<<N(V4(10, 0, 0, 0), 24), N(V4(10, 0, 0, 0), 8)>>, TRUE, TRUE),      \* narrow block first, wider block with the same base after it
  SF(<<N(V4(10, 0, 0, 0), 8), N(V4(10, 0, 0, 0), 24)>>, TRUE, TRUE),
  SF(<<N(A1, 32), N(V4(10, 0, 0, 0), 30), N(V4(10, 0, 0, 0), 8)>>, TRUE, FALSE),
  SF(<<N(V4(10, 0, 1, 0), 24), N(V4(10, 0, 0, 0), 16)>>, FALSE, TRUE),     \* base of the first inside the second
  SF(<<N(B4, 64), N(B4, 32)>>, TRUE, TRUE),
  SF(<<N(B4, 32), N(B4, 64)>>, TRUE, TRUE),
  SF(<<N(B1, 128), N(B4, 64), N(V4(10, 0, 0, 0), 24), N(B4, 32), N(V4(0, 0, 0, 0), 0)>>, TRUE, TRUE),
  SF(<<N(V4(10, 0, 0, 0), 24), N(V4(10, 0, 0, 0), 24)>>, TRUE, TRUE)       \* exact duplicate
>>
PortFs == IF Fam = "order" THEN PortFsO ELSE PortFsBase
IpFs == IF Fam = "order" THEN IpFsO ELSE IpFsBase
SubFs == IF Fam = "order" THEN SubFsO ELSE SubFsBase

NP == Len(PortFs) + 1
NI == Len(IpFs) + 1
NS == Len(SubFs) + 1
NCfg == 2 * NP * NI * NS

Opt(seq, i) == IF i = 0 THEN <<>> ELSE <<seq[i]>>
\* configuration number c in 0..NCfg-1
CfgAt(c) ==
  LET deny == (c % 2) = 1
      r1   == c \div 2
      pi   == r1 % NP
      r2   == r1 \div NP
      ii   == r2 % NI
      si   == r2 \div NI
  IN [deny |-> deny, port |-> Opt(PortFs, pi), ip |-> Opt(IpFs, ii), sub |-> Opt(SubFs, si)]

NA == Len(Addrs)
NPt == Len(Ports)
NEp == NA * NA * NPt * NPt
\* endpoint number e in 0..NEp-1: (sa, da, sp, dp) row-major
EpAt(e) ==
  LET dp == e % NPt
      r1 == e \div NPt
      sp == r1 % NPt
      r2 == r1 \div NPt
      da == r2 % NA
      sa == r2 \div NA
  IN [sa |-> Addrs[sa + 1], da |-> Addrs[da + 1], sp |-> Ports[sp + 1], dp |-> Ports[dp + 1]]

Bits(cfg, D) == [e \in 1..NEp |-> IF ShouldProcess(cfg, EpAt(e - 1), D) THEN 1 ELSE 0]

HasZeroRange(cfg) ==
  /\ Len(cfg.port) = 1
  /\ LET rs == cfg.port[1].sr \o cfg.port[1].dr
     IN \E i \in 1..Len(rs) : ~rs[i].incl /\ rs[i].hi = 0

Laws(cfg) ==
  /\ \A e \in 0..(NEp - 1) :
        LET ep == EpAt(e) IN LawNoFilter(cfg, ep) /\ LawDenyIsNegation(cfg, ep) /\ LawAllowConjunction(cfg, ep)
  /\ Len(cfg.sub) = 1 =>
        \A i \in 1..Len(cfg.sub[1].nets), j \in 1..NA : LawCidrExtremes(Addrs[j], cfg.sub[1].nets[i])

Emit(c) ==
  LET cfg == CfgAt(c)
      exp == Bits(cfg, {})
      alt == IF HasZeroRange(cfg) THEN Bits(cfg, {"D14_empty_range_zero"}) ELSE exp
  IN PrintT("REPLAY " \o ToJson([id |-> c, cfg |-> cfg, exp |-> exp,
                                   alt |-> IF alt = exp THEN <<>> ELSE <<[d |-> "D14_empty_range_zero", exp |-> alt]>>]))

Init == shard \in 0..(Shards - 1) /\ phase = 0
Work  == phase = 0 /\ phase' = 1 /\ UNCHANGED shard
Next == Work

\* evaluated on the successor states, i.e. in parallel by the TLC workers
Inv == phase = 1 =>
         \A c \in 0..(NCfg - 1) : (c % Shards = shard) => (Laws(CfgAt(c)) /\ Emit(c))

\* printed once: the universe the vectors are indexed over
Universe == PrintT("STAT " \o ToJson([addrs |-> Addrs, ports |-> Ports, ncfg |-> NCfg, nep |-> NEp]))
ASSUME Universe

Spec == Init /\ [][Next]_vars
=============================================================================
