------------------------------ MODULE Datalink ------------------------------
(***************************************************************************)
(* Link-layer framing as the packet parser sees it (packet_parser.rs of    *)
(* the three protocol crates and of huginn-net): which of Ethernet, raw IP *)
(* and the 4-byte loopback header a frame is taken for, where its IP       *)
(* header starts, and what `detect_datalink_format` says about the same    *)
(* bytes.  Beyond the listed properties: every analyzer entry point, the   *)
(* raw filters and the dispatch hashes (C10, C15, C18) depend on this      *)
(* decision.  A frame is a sequence of bytes.                              *)
(***************************************************************************)
EXTENDS Frames

NoneV == [fmt |-> "none", ver |-> 0, off |-> 0]
Nib(b) == b \div 16
EthType(f) == f[13] * 256 + f[14]

\* the parser: Ethernet by EtherType, then raw IP by version nibble, then the loopback header; the typed views need 20 (IPv4) or
\* 40 (IPv6) bytes to exist at all
AsIp(f, off, ver, fmt) ==
  IF ver = 4 /\ Len(f) - off >= 20 THEN [fmt |-> fmt, ver |-> 4, off |-> off]
  ELSE IF ver = 6 /\ Len(f) - off >= 40 THEN [fmt |-> fmt, ver |-> 6, off |-> off]
  ELSE NoneV
ParseEth(f) == IF Len(f) < 14 THEN NoneV
               ELSE IF EthType(f) = 2048 THEN AsIp(f, 14, 4, "eth") ELSE IF EthType(f) = 34525 THEN AsIp(f, 14, 6, "eth") ELSE NoneV
ParseRaw(f) == IF Len(f) < 20 THEN NoneV ELSE IF Nib(f[1]) \in {4, 6} THEN AsIp(f, 0, Nib(f[1]), "raw") ELSE NoneV
ParseNull(f) == IF Len(f) < 24 \/ f[1] # 30 \/ f[2] # 0 THEN NoneV
                ELSE IF Nib(f[5]) \in {4, 6} THEN AsIp(f, 4, Nib(f[5]), "null") ELSE NoneV
Parse(f) == IF ParseEth(f) # NoneV THEN ParseEth(f) ELSE IF ParseRaw(f) # NoneV THEN ParseRaw(f) ELSE ParseNull(f)

\* what the analyzers then read: version and the two addresses
View(f) == LET p == Parse(f) IN
           IF p = NoneV THEN [ver |-> 0, src |-> <<>>, dst |-> <<>>]
           ELSE IF p.ver = 4 THEN [ver |-> 4, src |-> SubSeq(f, p.off + 13, p.off + 16), dst |-> SubSeq(f, p.off + 17, p.off + 20)]
           ELSE [ver |-> 6, src |-> SubSeq(f, p.off + 9, p.off + 24), dst |-> SubSeq(f, p.off + 25, p.off + 40)]

\* detect_datalink_format: loopback first, then raw IP (with a header-length check), then Ethernet (EtherType and nibble must agree)
Detect(f) ==
  IF Len(f) >= 24 /\ f[1] = 30 /\ f[2] = 0 /\ Nib(f[5]) \in {4, 6} THEN "null"
  ELSE IF Len(f) >= 20 /\ Nib(f[1]) = 4 /\ (f[1] % 16) * 4 >= 20 /\ Len(f) >= (f[1] % 16) * 4 THEN "raw"
  ELSE IF Len(f) >= 40 /\ Nib(f[1]) = 6 THEN "raw"
  ELSE IF Len(f) >= 15 /\ ((EthType(f) = 2048 /\ Nib(f[15]) = 4) \/ (EthType(f) = 34525 /\ Nib(f[15]) = 6)) THEN "eth"
  ELSE "none"

\* the two decisions agree on the frames a capture of that link type really contains (well-formed, untruncated) ...
Agree(f) == Detect(f) = Parse(f).fmt
\* ... and in general whenever exactly one reading of the frame is possible
Readings(f) == {x \in {ParseEth(f), ParseRaw(f), ParseNull(f)} : x # NoneV}
=============================================================================
