SPECIFICATION Spec
INVARIANT AtMostOnce
INVARIANT DroppedNever
INVARIANT QueuedOnce
INVARIANT EveryOutcome
INVARIANT CountersAgree
INVARIANT ValidIndex
INVARIANT SequentialEquivalence
INVARIANT ShutdownDrains
INVARIANT ExitOnlyAfterShutdown
PROPERTY Termination
PROPERTY WorkersLeave
CHECK_DEADLOCK FALSE
CONSTANTS
  NW <- NWv
  Cap <- CapV
  Batch <- BatchV
  Traces <- TracesV
  ConnOf <- ConnOfV
  Route <- RouteV
  Crate <- CrateV
  AllowShutdown <- ShutV
  Devs <- DevsV
