------------------------------ MODULE MC_Pool -------------------------------
(* Bounded instances of Pool: scenario chosen by IOEnv.VERIF_SCEN *)
EXTENDS Pool, TLC, IOUtils
Scen == IOEnv.VERIF_SCEN

\* packets are records [c : connection, dir : "c"|"s", i : index]
Pk(c, dir, i) == [c |-> c, dir |-> dir, i |-> i]
\* one dispatcher, two connections with both directions interleaved (C10)
T1 == [d \in {1} |-> <<Pk(1, "c", 1), Pk(2, "c", 1), Pk(1, "s", 2), Pk(2, "s", 2), Pk(1, "c", 3), Pk(1, "s", 4)>>]
\* two concurrent dispatchers on disjoint connections (C18 accounting, overflow)
T2 == [d \in {1, 2} |-> IF d = 1 THEN <<Pk(1, "c", 1), Pk(1, "s", 2), Pk(3, "c", 1), Pk(1, "c", 3)>> ELSE <<Pk(2, "c", 1), Pk(2, "s", 2), Pk(2, "c", 3)>>]
NWv == IF Scen \in {"c10_3w", "c18_3w"} THEN 3 ELSE 2
TracesV == IF Scen \in {"c10", "c10_3w", "c10_directed", "c10_b1"} THEN T1 ELSE T2
CapV == CASE Scen \in {"c10", "c10_3w", "c10_directed", "c10_b1"} -> 6 [] Scen = "c18_cap0" -> 0 [] Scen = "c18_cap1" -> 1 [] OTHER -> 2
BatchV == IF Scen = "c10_b1" THEN 1 ELSE 2
CrateV == IF Scen = "c18_tcp" THEN "tcp" ELSE IF Scen = "c18_tls" THEN "tls" ELSE "http"
ConnOfV(p) == p.c
\* routing: a function of the connection; the recorded http defect routed the two directions independently
RouteV(p) == IF Scen = "c10_directed" THEN ((p.c + (IF p.dir = "s" THEN 1 ELSE 0)) % NWv) + 1 ELSE (p.c % NWv) + 1
ShutV == Scen \in {"c18_shutdown", "x03", "x03_dev", "x03_late"}
DevsV == IF Scen = "x03_dev" THEN {"DX3_timeout_exit"} ELSE {}

\* the constants of Pool are bound in the .cfg files (NW <- NWv, ...), so that TLC's coverage names Pool's actions
=============================================================================
