------------------------------- MODULE TV_C18a ------------------------------
(***************************************************************************)
(* C18 (affinity), implementation -> specification.  Rows: crate, n        *)
(* (worker count), groups: for every identity the set of worker indices    *)
(* the dispatch hash returned over all frames of that identity.            *)
(* Accepted iff the worker is a function of the identity and a valid index.*)
(***************************************************************************)
EXTENDS Integers, Sequences, FiniteSets, Json, IOUtils, TLC
Rows == ndJsonDeserialize(IOEnv.TRACE)
Shards == 16
VARIABLES shard, phase
vars == <<shard, phase>>
RowOk(r) ==
  \A g \in 1..Len(r.groups) :
     LET ws == {r.groups[g].workers[i] : i \in 1..Len(r.groups[g].workers)} IN
     \/ (Cardinality(ws) = 1 /\ \A w \in ws : 0 <= w /\ w < r.n)
     \/ PrintT("BAD " \o ToJson([crate |-> r.crate, n |-> r.n, ident |-> r.groups[g].ident, workers |-> r.groups[g].workers, cls |-> r.groups[g].cls]))
Init == shard \in 0..(Shards - 1) /\ phase = 0
Next == phase = 0 /\ phase' = 1 /\ UNCHANGED shard
Inv == phase = 1 => \A i \in 1..Len(Rows) : (i % Shards = shard) => RowOk(Rows[i])
Spec == Init /\ [][Next]_vars
=============================================================================
