------------------------------ MODULE MC_C13H -------------------------------
(***************************************************************************)
(* C13 (HTTP half): for every HTTP request / response signature of the     *)
(* bundled database, conforming HTTP/1.x messages (listed headers and      *)
(* values in order, optional headers in or out, software token alone or    *)
(* embedded, both versions for `*`), the labels the property accepts and   *)
(* the code model's prediction.                                            *)
(***************************************************************************)
EXTENDS Http1, Match, Json, IOUtils, TLC, SequencesExt, FiniteSetsExt

Db == ndJsonDeserialize(IOEnv.SIGS)[1]
Shards == 16
K == {"D12_sw_reversed"}
VARIABLES shard, phase
vars == <<shard, phase>>
Table(name) == IF name = "http_request" THEN Db.http_request ELSE Db.http_response

IsSw(h, isreq) == Lower(h.name) = (IF isreq THEN "user-agent" ELSE "server")
ValueFor(h, isreq, sw) ==
  IF Len(h.val) > 0 THEN h.val[1]
  ELSE IF IsSw(h, isreq) THEN sw
  ELSE IF Lower(h.name) = "host" THEN "www.example.com"
  ELSE IF Lower(h.name) = "date" THEN "Mon, 01 Jan 2024 00:00:00 GMT"
  ELSE IF Lower(h.name) = "content-type" THEN "text/html"
  ELSE "x"
AsLine(h, isreq, sw) == [t |-> "plain", name |-> h.name, ln |-> Lower(h.name), lws |-> " ", value |-> ValueFor(h, isreq, sw), rws |-> ""]

OptIdx(s) == LET all == {i \in 1..Len(s.horder) : s.horder[i].opt} IN {i \in all : Cardinality({j \in all : j < i}) < 3}
KeepIdx(s, drop) == SelectSeq([i \in 1..Len(s.horder) |-> i], LAMBDA i : i \notin drop)
SwVariants(s) == IF s.sw = "" THEN {"Anything/1.0"} ELSE {s.sw, "Zz/5.0 (" \o s.sw \o "9.9) Qq"}
HasSwHeader(s, isreq) == \E i \in 1..Len(s.horder) : IsSw(s.horder[i], isreq) /\ ~s.horder[i].opt

MsgOf(s, isreq, ver, drop, sw) ==
  LET ix == KeepIdx(s, drop)
      hs == [k \in 1..Len(ix) |-> AsLine(s.horder[ix[k]], isreq, sw)]
  IN IF isreq THEN [kind |-> "req", method |-> "GET", target |-> "/", ver |-> ver, hs |-> hs]
     ELSE [kind |-> "resp", ver |-> ver, status |-> 200, reason |-> "OK", hs |-> hs]

\* conformance of a message to a signature under the p0f rules: version; the listed headers in order, optional ones possibly
\* missing, listed values equal (no value listed: any value); headers of the absent list really absent; software token contained
RECURSIVE MatchH(_, _)
MatchH(hs, sig) ==
  IF Len(sig) = 0 THEN Len(hs) = 0
  ELSE \/ (Len(hs) > 0 /\ hs[1].name = sig[1].name /\ (Len(sig[1].val) = 0 \/ sig[1].val[1] = ValueOf(hs[1])) /\ MatchH(Tail(hs), Tail(sig)))
       \/ (sig[1].opt /\ MatchH(hs, Tail(sig)))
Conforms(m, obs, s) ==
  /\ (s.ver = "*" \/ obs.ver = s.ver)
  /\ MatchH(m.hs, s.horder)
  /\ \A i \in 1..Len(s.habsent) : ~\E j \in 1..Len(m.hs) : m.hs[j].name = s.habsent[i].name
  /\ StrContains(obs.sw, s.sw)

CaseOf(name, i, ver, drop, sw) ==
  LET tab == Table(name)
      s == tab[i].sig
      isreq == name = "http_request"
      m == MsgOf(s, isreq, ver, drop, sw)
      mean == Meaning(m, {})
      obs == mean.obs
      accept == {tab[j].label : j \in {x \in 1..i : Conforms(m, obs, tab[x].sig)}}
      dists == [j \in 1..Len(tab) |-> HttpDist(obs, tab[j].sig, K)]
      best == SelectBest(dists)
  IN [table |-> name, i |-> i, line |-> tab[i].text, kind |-> m.kind, lines |-> Lines(m), obs_text |-> mean.text,
      conforms |-> Conforms(m, obs, s), accept |-> SetToSeq(accept),
      predicted |-> IF best = 0 THEN <<>> ELSE <<tab[best].label>>, own_dist |-> dists[i],
      reasons |-> SetToSeq((IF SwDist(obs.sw, s.sw, K) # 0 THEN {"sw"} ELSE {})
                           \cup (IF HeaderDist(obs.horder, s.horder) # 0 THEN {"horder"} ELSE {})
                           \cup (IF HeaderDist(obs.habsent, s.habsent) # 0 THEN {"habsent"} ELSE {})
                           \cup (IF best # 0 /\ best # i /\ dists[best] <= dists[i] THEN {"shadowed"} ELSE {}))]

EmitSig(name, i) ==
  LET s == Table(name)[i].sig
      isreq == name = "http_request"
      vers == IF s.ver = "*" THEN {"1.0", "1.1"} ELSE IF s.ver = "0" THEN {"1.0"} ELSE {"1.1"}
  IN IF s.sw # "" /\ ~HasSwHeader(s, isreq)
     THEN PrintT("STAT " \o ToJson([skipped |-> Table(name)[i].text, table |-> name, why |-> "software token without a User-Agent/Server header in the list"]))
     ELSE \A ver \in vers, drop \in SUBSET OptIdx(s), sw \in SwVariants(s) :
            LET r == CaseOf(name, i, ver, drop, sw) IN r.conforms /\ PrintT("REPLAY " \o ToJson(r))

Init == shard \in 0..(Shards - 1) /\ phase = 0
Next == phase = 0 /\ phase' = 1 /\ UNCHANGED shard
Inv == phase = 1 =>
   /\ \A i \in 1..Len(Db.http_request) : (i % Shards = shard) => EmitSig("http_request", i)
   /\ \A i \in 1..Len(Db.http_response) : (i % Shards = shard) => EmitSig("http_response", i)
Spec == Init /\ [][Next]_vars
=============================================================================
