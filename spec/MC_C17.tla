------------------------------- MODULE MC_C17 -------------------------------
(***************************************************************************)
(* C17: client connection starts as frame sequences with boundary values,  *)
(* with or without the preface, their bytes, frame end offsets, and the    *)
(* Akamai fingerprint of every frame prefix.                               *)
(***************************************************************************)
EXTENDS Akamai, Json, IOUtils, TLC, SequencesExt, FiniteSets

Shards == 16
VARIABLES shard, phase
vars == <<shard, phase>>

S_(params) == [k |-> "settings", params |-> params, stream |-> 0, ack |-> FALSE]
Pm(id, hi, lo) == [id |-> id, val |-> <<hi, lo>>]
Wu(stream, hi, lo, rbit) == [k |-> "wu", stream |-> stream, inc |-> <<hi, lo>>, rbit |-> rbit]
Pr(stream, excl, dhi, dlo, w) == [k |-> "prio", stream |-> stream, p |-> [excl |-> excl, dep |-> <<dhi, dlo>>, weight |-> w], rbit |-> FALSE]
Fd(n, v) == F(n, v, "idx", TRUE, FALSE, FALSE)
Hd(order, o) == [k |-> "headers", stream |-> 1, o |-> o,
                 list |-> [i \in 1..Len(order) |-> Fd(order[i], CASE order[i] = ":method" -> "GET" [] order[i] = ":path" -> "/" [] order[i] = ":scheme" -> "https" [] order[i] = ":authority" -> "example.com" [] OTHER -> "gzip")]
                          \o <<Fd("user-agent", "x"), Fd("accept", "*/*")>>]
\* a block that refers to what it has itself inserted into the dynamic table: a repeated field (indexed, index 62 and up) and a
\* second value under a name known only from the dynamic table (literal with a dynamic name index)
HdDyn(order, o) == [Hd(order, o) EXCEPT !.list = @ \o <<Fd("x-custom", "v1"), Fd("x-custom", "v1"), F("x-custom", "v2", "noidx", TRUE, FALSE, FALSE), Fd("accept", "*/*")>>]
PingF == [k |-> "ping"]
DataF == [k |-> "data", stream |-> 1, n |-> 5]

Chrome == S_(<<Pm(1, 1, 0), Pm(2, 0, 0), Pm(4, 96, 0), Pm(6, 4, 0)>>)
Firefox == S_(<<Pm(1, 1, 0), Pm(4, 2, 0), Pm(5, 0, 16384)>>)
Edge == S_(<<Pm(3, 0, 1000), Pm(9, 0, 1), Pm(31337, 65535, 65535), Pm(4, 32768, 0), Pm(2, 32767, 65535), Pm(0, 0, 1)>>)
\* identifiers that repeat (known and unknown ones): every id:value pair of the frame is listed, in wire order
Repeats == S_(<<Pm(1, 1, 0), Pm(4, 0, 65535), Pm(3, 0, 100), Pm(4, 96, 0), Pm(2570, 0, 7), Pm(2570, 0, 9), Pm(1, 1, 0)>>)
SettingsS == {Chrome, Firefox, Edge, S_(<<Pm(4, 0, 0)>>), Repeats}
WuS == {<<>>, <<Wu(0, 239, 1, FALSE)>>, <<Wu(0, 191, 1, TRUE)>>, <<Wu(0, 32767, 65535, FALSE)>>, <<Wu(0, 0, 1, FALSE)>>, <<Wu(3, 0, 77, FALSE), Wu(0, 0, 12, FALSE)>>}
PrS == {<<>>, <<Pr(3, FALSE, 0, 0, 200), Pr(5, FALSE, 0, 0, 100), Pr(7, TRUE, 0, 3, 0)>>, <<Pr(1, TRUE, 32767, 65535, 255)>>}
\* PRIORITY frames whose dependency coincides with, or lies next to, their own stream id (stream 0 included), weights 0 / 255:
\* every PRIORITY frame is rendered, whatever its fields say
PrX == {<<Pr(5, FALSE, 0, 5, 9), Pr(0, TRUE, 0, 0, 255), Pr(7, TRUE, 0, 7, 0)>>, <<Pr(5, FALSE, 0, 4, 0), Pr(5, TRUE, 0, 6, 1), Pr(0, FALSE, 0, 1, 200)>>, <<Pr(1, FALSE, 0, 1, 15)>>}
Orders == {<<":method", ":path", ":authority", ":scheme">>, <<":method", ":authority", ":scheme", ":path">>, <<":method", ":scheme", ":path", ":authority">>,
           <<":method", ":path", ":scheme">>,
           \* regular fields between the pseudo-headers (malformed per RFC 7540 8.1.2.1, but the order of the pseudo-headers is still defined)
           <<":method", "accept-encoding", ":scheme", ":path", ":authority">>, <<"accept-encoding", ":method", ":path", ":scheme">>,
           \* a pseudo-header the scheme has no letter for (extended CONNECT, RFC 8441), and a response pseudo-header in a request
           <<":method", ":protocol", ":scheme", ":path", ":authority">>, <<":protocol", ":method", ":path", ":status">>}
Framings == {Plain, [Plain EXCEPT !.pad = 3], [Plain EXCEPT !.prio = <<[excl |-> FALSE, dep |-> <<0, 0>>, weight |-> 15]>>], [Plain EXCEPT !.cuts = <<2>>],
             \* padding AND priority fields (pad length first, then dependency and weight), also with a continuation
             [Plain EXCEPT !.pad = 3, !.prio = <<[excl |-> FALSE, dep |-> <<0, 0>>, weight |-> 15]>>],
             [Plain EXCEPT !.pad = 0, !.prio = <<[excl |-> TRUE, dep |-> <<0, 3>>, weight |-> 200]>>, !.cuts = <<3>>]}

Seqs ==
     {<<s>> \o w \o p \o <<Hd(o, Plain)>> : s \in SettingsS, w \in WuS, p \in PrS, o \in Orders}                 \* the usual order
  \cup {w \o <<s>> \o p \o <<Hd(o, Plain)>> : s \in {Chrome}, w \in WuS \ {<<>>}, p \in PrS, o \in {<<":method", ":path", ":authority", ":scheme">>}}   \* WINDOW_UPDATE first
  \cup {p \o <<PingF>> \o <<s>> \o <<Hd(o, fr)>> \o <<DataF>> : s \in {Firefox}, p \in PrS, o \in Orders, fr \in Framings}
  \cup {<<s>> \o w \o p \o <<Hd(o, Plain)>> : s \in {Chrome, Edge}, w \in {<<>>, <<Wu(0, 239, 1, FALSE)>>}, p \in PrX, o \in {<<":method", ":path", ":authority", ":scheme">>}}
  \cup {p \o <<PingF>> \o <<s>> \o <<Hd(o, fr)>> \o <<DataF>> : s \in {Firefox}, p \in PrX, o \in {<<":method", ":scheme", ":path", ":authority">>}, fr \in {Plain, [Plain EXCEPT !.cuts = <<2>>]}}
  \cup {<<s>> \o w \o <<HdDyn(o, fr)>> : s \in {Chrome, Firefox}, w \in {<<>>, <<Wu(0, 239, 1, FALSE)>>}, o \in {<<":method", ":path", ":authority", ":scheme">>, <<":method", ":scheme", ":path", ":authority">>},
                                     fr \in {Plain, [Plain EXCEPT !.cuts = <<2>>], [Plain EXCEPT !.pad = 3]}}                 \* references into the block's own dynamic table
  \cup {<<Hd(<<":method", ":path", ":authority", ":scheme">>, Plain), Firefox, Wu(0, 0, 9, FALSE)>>}                  \* HEADERS before SETTINGS
  \cup {<<Wu(0, 0, 9, FALSE), PingF>>, <<Hd(<<":method", ":path">>, Plain)>>}                                         \* no SETTINGS at all
  \cup {<<s, S_(<<Pm(1, 0, 0)>>), Wu(0, 0, 5, FALSE)>> : s \in {Chrome}}                                             \* second SETTINGS ignored
SeqSeq == SetToSeq(Seqs)

RECURSIVE Cum(_, _, _)
Cum(bs, i, base) == IF i > Len(bs) THEN <<>> ELSE <<base + Len(bs[i])>> \o Cum(bs, i + 1, base + Len(bs[i]))
Vec(fs, pre) ==
  LET bs == FramesBytes(fs, EmptyDyn)
      \* HEADERS + CONTINUATION count as one entry of fs; ends are per entry
      base == IF pre THEN Len(Preface) ELSE 0
      \* end offset of the first wire frame of each entry (differs from ends only for HEADERS continued by CONTINUATION)
      starts == <<base>> \o Cum(bs, 1, base)
      firsts == [i \in 1..Len(bs) |-> starts[i] + 9 + bs[i][1] * 65536 + bs[i][2] * 256 + bs[i][3]]
  IN [preface |-> pre, bytes |-> (IF pre THEN Preface ELSE <<>>) \o Flatten(bs), ends |-> Cum(bs, 1, base), firsts |-> firsts,
      sidx |-> FirstOf(fs, IsSettings0), kinds |-> [i \in 1..Len(fs) |-> fs[i].k],
      fps |-> [k \in 0..Len(fs) |-> Fp(SubSeq(fs, 1, k))], one |-> Fp(fs)]

Emit(i) == \A pre \in BOOLEAN : PrintT("REPLAY " \o ToJson([i |-> i] @@ Vec(SeqSeq[i], pre)))
Init == shard \in 0..(Shards - 1) /\ phase = 0
Next == phase = 0 /\ phase' = 1 /\ UNCHANGED shard
Inv == phase = 1 => \A i \in 1..Len(SeqSeq) : (i % Shards = shard) => Emit(i)
ASSUME Dec(<<0, 0>>) = "0" /\ Dec(<<0, 65535>>) = "65535" /\ Dec(<<1, 0>>) = "65536" /\ Dec(<<65535, 65535>>) = "4294967295" /\ Dec(<<239, 1>>) = "15663105"
ASSUME Fp(<<Chrome, Wu(0, 239, 1, FALSE), Hd(<<":method", ":authority", ":scheme", ":path">>, Plain)>>) = <<"1:65536;2:0;4:6291456;6:262144|15663105|0|m,a,s,p">>
Spec == Init /\ [][Next]_vars
=============================================================================
