SPECIFICATION Spec
INVARIANT Inv
CHECK_DEADLOCK FALSE
