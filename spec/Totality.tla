------------------------------ MODULE Totality ------------------------------
(***************************************************************************)
(* C01: every entry point is total and leaves the instance usable.         *)
(* An entry point instance is either alive or dead; Feed requires the      *)
(* outcome of the call to be a value or an error (never a panic, abort,    *)
(* overflow or hang); Probe requires a fixed well-formed input to give, on *)
(* the used instance, what it gives on a fresh one.                        *)
(* The substance is the input space; the part with structure is defined    *)
(* here (TCP option encodings); byte-level mutations of seeds taken from   *)
(* the other modules' Wire operators are enumerated by the driver.         *)
(***************************************************************************)
EXTENDS Frames

\* every (kind, length byte, position) encoding of one TCP option inside an option area of `size` bytes:
\* NOP filler, the two bytes (kind, len) at `pos`, NOP filler after
OptArea1(size, pos, kind, len) ==
  [i \in 1..size |-> IF i = pos + 1 THEN kind ELSE IF i = pos + 2 /\ kind \notin {0, 1} THEN len ELSE 1]
OptFrame(link, ver, size, pos, kind, len, flags) ==
  Frame(link, WithOpts([BaseHdr(ver) EXCEPT !.flags = flags, !.ack = IF flags = SYN THEN Zero4 ELSE <<0, 0, 0, 9>>], OptArea1(size, pos, kind, len)))

\* the recorded event of one call
FeedOk(outcome) == outcome \in {"ok", "err"}
=============================================================================
