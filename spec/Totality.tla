------------------------------ MODULE Totality ------------------------------
(***************************************************************************)
(* C01: every entry point is total and leaves the instance usable.         *)
(* An entry point instance is either alive or dead; Feed requires the      *)
(* outcome of the call to be a value or an error (never a panic, abort,    *)
(* overflow or hang); Probe requires a fixed well-formed input to give, on *)
(* the used instance, what it gives on a fresh one.                        *)
(* The substance is the input space; the part with structure is defined    *)
(* here (TCP option encodings); byte-level mutations of seeds taken from   *)
(* the other modules' Wire operators are enumerated by the driver.         *)
(***************************************************************************)
EXTENDS Frames

\* every (kind, length byte, position) encoding of one TCP option inside an option area of `size` bytes:
\* NOP filler, the two bytes (kind, len) at `pos`, NOP filler after
OptArea1(size, pos, kind, len) ==
  [i \in 1..size |-> IF i = pos + 1 THEN kind ELSE IF i = pos + 2 /\ kind \notin {0, 1} THEN len ELSE 1]
OptFrame(link, ver, size, pos, kind, len, flags) ==
  Frame(link, WithOpts([BaseHdr(ver) EXCEPT !.flags = flags, !.ack = IF flags = SYN THEN Zero4 ELSE <<0, 0, 0, 9>>], OptArea1(size, pos, kind, len)))

\* ---- HTTP/2: every (type, flags, stream, payload length, first payload byte, declared-length error) frame shape.
\* The first payload byte is the pad length when PADDED is set, the first byte of the dependency when PRIORITY is set,
\* the first block byte otherwise; the rest of the payload is 0x82 (indexed field :method GET).
H2Preface == <<80, 82, 73, 32, 42, 32, 72, 84, 84, 80, 47, 50, 46, 48, 13, 10, 13, 10, 83, 77, 13, 10, 13, 10>>
H2Raw(type, flags, stream, declared, payload) == <<0>> \o U16(declared) \o <<type, flags, 0, 0, 0, stream>> \o payload
H2Shape(type, flags, stream, n, b0, delta) ==
  H2Raw(type, flags, stream, IF n + delta < 0 THEN 0 ELSE n + delta, [i \in 1..n |-> IF i = 1 THEN b0 ELSE 130])
H2Conn(prefix, frame, tail) ==
  (IF prefix THEN H2Preface \o H2Raw(4, 0, 0, 0, <<>>) ELSE <<>>) \o frame
  \o (IF tail THEN H2Raw(1, 5, 1, 4, <<130, 132, 134, 65>>) ELSE <<>>)

\* ---- TLS: a ClientHello in which one length field is off by `delta` (fields: record, handshake, session id, cipher list,
\* compression list, extension block, first extension, SNI list, SNI name)
TlsHelloWith(field, delta) ==
  LET name == <<97, 46, 98>>
      adj(f, x) == IF field = f THEN (IF x + delta < 0 THEN 0 ELSE x + delta) ELSE x
      sni == U16(adj("snilist", Len(name) + 3)) \o <<0>> \o U16(adj("sniname", Len(name))) \o name
      ext1 == U16(0) \o U16(adj("ext", Len(sni))) \o sni
      ext2 == U16(43) \o U16(3) \o <<2, 3, 4>>
      exts == ext1 \o ext2
      body == <<3, 3>> \o [i \in 1..32 |-> i] \o <<adj("sid", 0) % 256>> \o U16(adj("ciphers", 4)) \o <<19, 1, 19, 2>> \o <<adj("comps", 1) % 256, 0>>
              \o U16(adj("exts", Len(exts))) \o exts
      hs == <<1, 0>> \o U16(adj("hs", Len(body))) \o body
  IN <<22, 3, 1>> \o U16(adj("rec", Len(hs))) \o hs
TlsFields == {"rec", "hs", "sid", "ciphers", "comps", "exts", "ext", "snilist", "sniname"}

\* ---- TLS: well-formed ClientHellos whose TEXT fields (SNI host name, ALPN protocol names) are arbitrary octet strings: valid UTF-8 of
\* 2, 3 and 4 octets per character at the first / last / only position, truncated and impossible UTF-8, NUL, the empty string
TlsTexts == << <<195, 169, 50>>, <<195, 177>>, <<50, 195, 169>>, <<230, 151, 165, 230, 156, 172>>, <<240, 159, 152, 128>>, <<240, 159, 152, 128, 104>>, <<195>>, <<255, 104>>,
               <<104, 192, 128>>, <<>>, <<0>>, <<104>>, <<104, 50>>, <<237, 160, 128>>, <<104, 0, 50>> >>
TlsHelloText(host, protos) ==
  LET sni == U16(Len(host) + 3) \o <<0>> \o U16(Len(host)) \o host
      RECURSIVE Cat(_)
      Cat(ps) == IF Len(ps) = 0 THEN <<>> ELSE <<Len(ps[1])>> \o ps[1] \o Cat(Tail(ps))
      al == Cat(protos)
      exts == U16(0) \o U16(Len(sni)) \o sni \o U16(16) \o U16(Len(al) + 2) \o U16(Len(al)) \o al \o U16(43) \o U16(3) \o <<2, 3, 4>>
      body == <<3, 3>> \o [i \in 1..32 |-> i] \o <<0>> \o U16(4) \o <<19, 1, 19, 2>> \o <<1, 0>> \o U16(Len(exts)) \o exts
      hs == <<1, 0>> \o U16(Len(body)) \o body
  IN <<22, 3, 1>> \o U16(Len(hs)) \o hs

\* the recorded event of one call
FeedOk(outcome) == outcome \in {"ok", "err"}
=============================================================================
