----------------------------- MODULE TcpExtract ------------------------------
(***************************************************************************)
(* TCP/IP header -> p0f observation (ver:ittl:olen:mss:wsize,scale:        *)
(* olayout:quirks:pclass), role, link MTU.  Property C03 (and the forward  *)
(* half of C13).  h is a Frames header; ol = [opts, trail] is the abstract *)
(* option area: opts a sequence of well-formed options, trail the bytes    *)
(* after the last one (padding after an end-of-options marker; generators  *)
(* use 0 and 1 only).                                                      *)
(*   option == [k |-> "eol"|"nop"|"sok"] | [k |-> "mss"|"ws", v |-> n]     *)
(*           | [k |-> "ts", val, ecr (4 bytes each)] | [k |-> "sack", n]   *)
(*           | [k |-> "unk", kind, data]                                   *)
(* Clauses marked CodeDerived follow constants the source documents where  *)
(* the statement leaves the choice open.                                   *)
(***************************************************************************)
EXTENDS Frames, P0fVocab, FiniteSets

AllD03 == {"D03_eol_continues", "D03_mtu_headers", "D03_nonhandshake_as_synack"}

OptWire(o) ==
  CASE o.k = "eol"  -> <<0>>
    [] o.k = "nop"  -> <<1>>
    [] o.k = "mss"  -> <<2, 4>> \o U16(o.v)
    [] o.k = "ws"   -> <<3, 3, o.v>>
    [] o.k = "sok"  -> <<4, 2>>
    [] o.k = "sack" -> <<5, 2 + 8 * o.n>> \o Rep(7, 8 * o.n)
    [] o.k = "ts"   -> <<8, 10>> \o o.val \o o.ecr
    [] o.k = "unk"  -> <<o.kind, 2 + Len(o.data)>> \o o.data
OptArea(ol) == Flatten([i \in 1..Len(ol.opts) |-> OptWire(ol.opts[i])]) \o ol.trail

Kind(o) == CASE o.k = "mss" -> O("mss") [] o.k = "ws" -> O("ws") [] o.k = "sok" -> O("sok") [] o.k = "sack" -> O("sack")
             [] o.k = "ts" -> O("ts") [] o.k = "nop" -> O("nop") [] o.k = "unk" -> OUnk(o.kind)

FirstEol(opts) == IF \E i \in 1..Len(opts) : opts[i].k = "eol"
                  THEN CHOOSE i \in 1..Len(opts) : opts[i].k = "eol" /\ \A j \in 1..(i - 1) : opts[j].k # "eol"
                  ELSE 0
RECURSIVE WireLen(_)
WireLen(opts) == IF Len(opts) = 0 THEN 0 ELSE Len(OptWire(opts[1])) + WireLen(Tail(opts))

\* options the walk sees: everything up to the first end-of-options marker
Seen(ol) == LET e == FirstEol(ol.opts) IN IF e = 0 THEN ol.opts ELSE SubSeq(ol.opts, 1, e - 1)
\* bytes after the first end-of-options marker
After(ol) == LET e == FirstEol(ol.opts) IN
             IF e = 0 THEN <<>> ELSE Flatten([i \in 1..(Len(ol.opts) - e) |-> OptWire(ol.opts[e + i])]) \o ol.trail

Layout(ol, D) ==
  LET seen == Seen(ol)
      base == [i \in 1..Len(seen) |-> Kind(seen[i])]
      aft  == After(ol)
  IN IF FirstEol(ol.opts) = 0 THEN base
     ELSE IF "D03_eol_continues" \in D
          THEN \* code: the walk does not stop; every later 0 byte is another marker, every 1 byte a nop
               base \o <<OEol(Len(aft))>> \o [j \in 1..Len(aft) |-> IF aft[j] = 0 THEN OEol(Len(aft) - j) ELSE O("nop")]
          ELSE base \o <<OEol(Len(aft))>>

LastOf(seen, k) == LET idx == {i \in 1..Len(seen) : seen[i].k = k} IN
                   IF idx = {} THEN <<>> ELSE <<seen[CHOOSE i \in idx : \A j \in idx : j <= i]>>
MssOf(ol) == LET m == LastOf(Seen(ol), "mss") IN IF Len(m) = 0 THEN -1 ELSE m[1].v
WsOf(ol)  == LET m == LastOf(Seen(ol), "ws") IN IF Len(m) = 0 THEN -1 ELSE m[1].v
HasTs(ol) == \E i \in 1..Len(Seen(ol)) : Seen(ol)[i].k = "ts"

\* ts2+ applies to the initial SYN only: SYN set and none of ACK, FIN, RST
SynOnly(f) == HasFlag(f, SYN) /\ ~HasFlag(f, ACK) /\ ~HasFlag(f, FIN) /\ ~HasFlag(f, RST)
OptQuirks(h, ol) ==
  LET seen == Seen(ol) IN
     (IF \E i \in 1..Len(seen) : seen[i].k = "ts" /\ IsZero(seen[i].val) THEN {"ts1-"} ELSE {})
  \cup (IF SynOnly(h.flags) /\ (\E i \in 1..Len(seen) : seen[i].k = "ts" /\ ~IsZero(seen[i].ecr)) THEN {"ts2+"} ELSE {})
  \cup (IF \E i \in 1..Len(seen) : seen[i].k = "ws" /\ seen[i].v > 14 THEN {"exws"} ELSE {})
  \cup (IF FirstEol(ol.opts) # 0 /\ ~IsZero(After(ol)) THEN {"opt+"} ELSE {})

HdrQuirks(h) ==
     (IF (h.tos % 4) # 0 \/ HasFlag(h.flags, ECE) \/ HasFlag(h.flags, CWR) THEN {"ecn"} ELSE {})
  \cup (IF h.ver = 4 THEN   (IF h.rf THEN {"0+"} ELSE {})
                       \cup (IF h.df THEN {"df"} ELSE {})
                       \cup (IF h.df /\ h.ipid # 0 THEN {"id+"} ELSE {})
                       \cup (IF ~h.df /\ h.ipid = 0 THEN {"id-"} ELSE {})
        ELSE (IF h.flow # <<0, 0>> THEN {"flow"} ELSE {}))
  \cup (IF IsZero(h.seq) THEN {"seq-"} ELSE {})
  \cup (IF HasFlag(h.flags, ACK) /\ IsZero(h.ack) THEN {"ack-"} ELSE {})
  \cup (IF ~HasFlag(h.flags, ACK) /\ ~IsZero(h.ack) /\ ~HasFlag(h.flags, RST) THEN {"ack+"} ELSE {})
  \cup (IF HasFlag(h.flags, URG) THEN {"urgf+"} ELSE {})
  \cup (IF ~HasFlag(h.flags, URG) /\ h.urg # 0 THEN {"uptr+"} ELSE {})
  \cup (IF HasFlag(h.flags, PSH) THEN {"pushf+"} ELSE {})

Ittl(ttl) ==
  IF ttl = 0 THEN TtlB(0)
  ELSE LET init == IF ttl > 128 THEN 255 ELSE IF ttl > 64 THEN 128 ELSE IF ttl > 32 THEN 64 ELSE 32
       IN IF init - ttl <= 30 THEN TtlD(ttl, init - ttl) ELSE TtlV(ttl)

Olen(h) == IF h.ver = 4 /\ h.ihl > 5 THEN (h.ihl - 5) * 4 ELSE 0

\* CodeDerived: priority and candidate divisors as the source documents them.
\* th: the "total header" term of the last MTU candidate.
MinHdr(ver) == IF ver = 4 THEN 40 ELSE 60
Divides(d, w) == d # 0 /\ w % d = 0 /\ w \div d <= 255
WinClass(win, mss, th, ts, ver) ==
  IF win = 0 \/ mss < 100 THEN W("value", win)
  ELSE IF Divides(mss, win) THEN W("mss", win \div mss)
  ELSE IF ts /\ mss > 12 /\ Divides(mss - 12, win) THEN W("mss", win \div (mss - 12))
  ELSE IF win % 4096 = 0 THEN W("mod", 4096)
  ELSE IF win % 2048 = 0 THEN W("mod", 2048)
  ELSE IF win % 1024 = 0 THEN W("mod", 1024)
  ELSE IF win % 512 = 0 THEN W("mod", 512)
  ELSE IF win % 256 = 0 THEN W("mod", 256)
  ELSE IF Divides(1500, win) THEN W("mtu", win \div 1500)
  ELSE IF Divides(1500 - MinHdr(ver), win) THEN W("mtu", win \div (1500 - MinHdr(ver)))
  ELSE IF ts /\ Divides(1500 - MinHdr(ver) - 12, win) THEN W("mtu", win \div (1500 - MinHdr(ver) - 12))
  ELSE IF Divides(IF mss + (IF th > 0 THEN th ELSE MinHdr(ver)) > 65535 THEN 65535 ELSE mss + (IF th > 0 THEN th ELSE MinHdr(ver)), win)
       THEN W("mtu", win \div (IF mss + (IF th > 0 THEN th ELSE MinHdr(ver)) > 65535 THEN 65535 ELSE mss + (IF th > 0 THEN th ELSE MinHdr(ver))))
  ELSE W("value", win)

\* the analyzer passes the IPv4 header length in 32-bit words (IHL) and 40 for IPv6; the byte reading is accepted too
ThCode(h) == IF h.ver = 4 THEN h.ihl ELSE 40
ThBytes(h) == (IF h.ver = 4 THEN h.ihl * 4 ELSE 40) + h.doff * 4

FlagsValid(f) ==
  /\ ~(HasFlag(f, SYN) /\ (HasFlag(f, FIN) \/ HasFlag(f, RST)))
  /\ ~(HasFlag(f, FIN) /\ HasFlag(f, RST))
  /\ (HasFlag(f, SYN) \/ HasFlag(f, ACK) \/ HasFlag(f, FIN) \/ HasFlag(f, RST))

Role(f, D) ==
  IF ~FlagsValid(f) THEN "none"
  ELSE IF HasFlag(f, SYN) /\ ~HasFlag(f, ACK) THEN "syn"
  ELSE IF HasFlag(f, SYN) /\ HasFlag(f, ACK) THEN "synack"
  ELSE IF "D03_nonhandshake_as_synack" \in D THEN "synack"     \* code: every other valid segment is rendered as a server signature
  ELSE "none"

Min16(x) == IF x > 65535 THEN 65535 ELSE x
Mtu(h, ol, D) ==
  LET mss == MssOf(ol) IN
  IF mss < 0 THEN -1
  ELSE IF "D03_mtu_headers" \in D
       THEN \* code: mss + IP header bytes + (TCP option bytes, or 20 when there are none)
            Min16(Min16(mss + (IF h.ver = 4 THEN h.ihl * 4 ELSE 40)) + (IF h.doff * 4 > 20 THEN h.doff * 4 - 20 ELSE h.doff * 4))
       ELSE Min16(mss + MinHdr(h.ver))

RECURSIVE LinkOf(_, _)
LinkOf(mtu, groups) ==
  IF Len(groups) = 0 THEN <<>>
  ELSE IF \E i \in 1..Len(groups[1].sigs) : groups[1].sigs[i] = mtu THEN <<groups[1].label>>
  ELSE LinkOf(mtu, Tail(groups))

Obs(h, ol, th, D) ==
  [ver |-> IF h.ver = 4 THEN "4" ELSE "6", ittl |-> Ittl(h.ttl), olen |-> Olen(h), mss |-> MssOf(ol),
   wsize |-> WinClass(h.win, IF MssOf(ol) < 0 THEN 0 ELSE MssOf(ol), th, HasTs(ol), h.ver), wscale |-> WsOf(ol),
   olayout |-> Layout(ol, D), quirks |-> HdrQuirks(h) \cup OptQuirks(h, ol), pclass |-> IF Len(h.payload) = 0 THEN "0" ELSE "+"]

\* what the analyzer must report for one segment
Extract(h, ol, groups, D) ==
  LET role == Role(h.flags, D)
      mtu  == IF role = "syn" THEN Mtu(h, ol, D) ELSE -1
  IN [role |-> role,
      obs  |-> IF role = "none" THEN <<>> ELSE <<Obs(h, ol, ThCode(h), D)>>,
      wsize2 |-> IF role = "none" THEN <<>> ELSE <<Obs(h, ol, ThBytes(h), D).wsize>>,
      mtu  |-> mtu,
      link |-> IF mtu < 0 THEN <<>> ELSE LinkOf(mtu, groups)]

\* laws of the definition (checked by TLC in MC_C03)
LawRoleBySynAck(f) == FlagsValid(f) =>
   Role(f, {}) = (IF HasFlag(f, SYN) THEN (IF HasFlag(f, ACK) THEN "synack" ELSE "syn") ELSE "none")
LawLayoutStopsAtEol(ol) == LET l == Layout(ol, {}) IN \A i \in 1..Len(l) : l[i].k = "eol" => i = Len(l)
=============================================================================
