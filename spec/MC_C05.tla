------------------------------- MODULE MC_C05 -------------------------------
(***************************************************************************)
(* C05: enumeration of HTTP/1.x heads with their Meaning.  Families        *)
(* (IOEnv.VERIF_FAM): start, hdrs, ows, cookie, lang, many.  One REPLAY    *)
(* vector per head: the lines of the head (the driver joins them with CRLF *)
(* and appends each body) and the expected report.                         *)
(***************************************************************************)
EXTENDS Http1, Json, IOUtils, TLC, SequencesExt, FiniteSets

Fam == IOEnv.VERIF_FAM
MaxLen == atoi(IOEnv.VERIF_MAXLEN)
Shards == 16
VARIABLES shard, phase
vars == <<shard, phase>>
AllD05 == {"D05_list_case", "D05_lang_q_ows"}

P(name, v) == [t |-> "plain", name |-> name, ln |-> Lower(name), lws |-> " ", value |-> v, rws |-> ""]
PW(name, l, v, r) == [t |-> "plain", name |-> name, ln |-> Lower(name), lws |-> l, value |-> v, rws |-> r]
Ck(pairs) == [t |-> "cookie", name |-> "Cookie", ln |-> "cookie", pairs |-> pairs]
Lg(items) == [t |-> "lang", name |-> "Accept-Language", ln |-> "accept-language", items |-> items]
Req(method, target, ver, hs) == [kind |-> "req", method |-> method, target |-> target, ver |-> ver, hs |-> hs]
Resp(ver, status, reason, hs) == [kind |-> "resp", ver |-> ver, status |-> status, reason |-> reason, hs |-> hs]
UA == "Mozilla/5.0 (X11; Linux x86_64) Firefox/3.6"

Methods == {"GET", "POST", "PUT", "DELETE", "HEAD", "OPTIONS", "PATCH", "TRACE", "CONNECT", "PROPFIND", "PROPPATCH", "MKCOL", "COPY", "MOVE", "LOCK", "UNLOCK"}
StartCases ==
  {Req(m, t, v, <<P("Host", "example.com"), P("User-Agent", UA)>>) : m \in Methods, t \in {"/", "/a/b?c=d&e=f", "*", "http://example.com:8080/x"}, v \in {"1.0", "1.1"}}
  \cup {Resp(v, s, r, <<P("Server", "Apache/2.2"), P("Content-Type", "text/html")>>) : v \in {"1.0", "1.1"}, s \in {100, 200, 301, 404, 599}, r \in {"OK", "Not Found", "", "Moved Permanently: really"}}

ReqPool == <<P("Host", "example.com"), P("host", "h2"), P("HOST", "h3"), P("User-Agent", UA), P("user-agent", "curl/8.0"), P("Accept", "*/*"),
             P("Connection", "keep-alive"), P("Cache-Control", "no-cache"), P("cache-control", "max-age=0"), P("X-Custom", "a:b: c"), P("X-Empty", ""),
             P("Accept-Encoding", "gzip, deflate"), P("Via", "1.1 proxy"), P("Keep-Alive", "300")>>
RespPool == <<P("Server", "nginx"), P("server", "lower"), P("Date", "Mon, 01 Jan 2024 00:00:00 GMT"), P("Content-Type", "text/html; charset=UTF-8"),
              P("Content-Length", "123"), P("content-length", "5"), P("Connection", "close"), P("Set-Cookie", "a=b; Path=/"), P("X-Powered-By", "PHP/5"),
              P("Accept-Ranges", "bytes"), P("Keep-Alive", "timeout=5"), P("ETag", "x")>>
RECURSIVE PowN(_, _)
PowN(a, n) == IF n = 0 THEN 1 ELSE a * PowN(a, n - 1)
RECURSIVE OffsetOf(_, _)
OffsetOf(a, len) == IF len = 0 THEN 0 ELSE OffsetOf(a, len - 1) + PowN(a, len - 1)
ListAt(pool, idx) ==
  LET a == Len(pool)
      n == CHOOSE m \in 0..MaxLen : OffsetOf(a, m) <= idx /\ idx < OffsetOf(a, m + 1)
      r == idx - OffsetOf(a, n)
  IN [p \in 1..n |-> pool[((r \div PowN(a, n - p)) % a) + 1]]
HdrCases == {Req("GET", "/", "1.1", ListAt(ReqPool, i)) : i \in 0..(OffsetOf(Len(ReqPool), MaxLen + 1) - 1)}
            \cup {Resp("1.1", 200, "OK", ListAt(RespPool, i)) : i \in 0..(OffsetOf(Len(RespPool), MaxLen + 1) - 1)}

OwsCases == {Req("GET", "/", "1.1", <<PW("Host", l, "example.com", r), PW("X-Custom", r2, v, l2), PW("User-Agent", l, UA, r)>>) :
               l \in {"", " ", "\t", "  \t "}, r \in {"", " ", "\t", " \t"}, l2 \in {"", " "}, r2 \in {"", " "}, v \in {"v", "a  b", "x:y", ""}}

CookieLists == {<<[n |-> "a", v |-> <<"1">>]>>, <<[n |-> "sid", v |-> <<"abc=def==">>], [n |-> "flag", v |-> <<>>]>>,
                <<[n |-> "a", v |-> <<"">>], [n |-> "b", v |-> <<"2">>], [n |-> "c", v |-> <<"x y">>]>>}
CookieCases == {Req("GET", "/", v, pre \o <<Ck(c)>> \o mid \o ref \o <<P("User-Agent", UA)>>) :
                  v \in {"1.0", "1.1"}, c \in CookieLists, pre \in {<<>>, <<P("Host", "example.com")>>}, mid \in {<<>>, <<P("Accept", "*/*")>>},
                  ref \in {<<>>, <<P("Referer", "http://example.com/a?b=c")>>, <<P("referer", "x")>>}}
               \cup {Req("GET", "/", "1.1", <<P("Host", "h"), [t |-> "cookie", name |-> "cookie", ln |-> "cookie", pairs |-> <<[n |-> "k", v |-> <<"v">>]>>]>>)}

Tags == <<"en", "en-US", "fr", "de-CH", "xx", "*", "es">>
Qs == <<<<>>, <<"0">>, <<"0.5">>, <<"0.9">>, <<"1.0">>, <<"0.3">>>>
Item(t, q, sp) == [tag |-> Tags[t], q |-> Qs[q], sp |-> sp]
LangCases ==
  {Req("GET", "/", "1.1", <<P("Host", "h"), Lg(<<Item(t1, q1, s1)>>)>>) : t1 \in 1..7, q1 \in 1..6, s1 \in BOOLEAN}
  \cup {Req("GET", "/", "1.1", <<P("Host", "h"), Lg(<<Item(t1, q1, s), Item(t2, q2, s)>>)>>) : t1 \in 1..7, t2 \in {1, 3, 5, 7}, q1 \in 1..6, q2 \in 1..6, s \in BOOLEAN}
  \cup {Req("GET", "/", "1.1", <<Lg(<<Item(t1, q1, FALSE), Item(5, 1, FALSE), Item(t3, q3, FALSE)>>), P("Host", "h")>>) : t1 \in {1, 3, 4}, t3 \in {1, 3, 7}, q1 \in 1..6, q3 \in 1..6}

Many(n) == [i \in 1..n |-> [t |-> "plain", name |-> "X-H" \o ToString(i), ln |-> "x-h" \o ToString(i), lws |-> " ", value |-> "v" \o ToString(i), rws |-> ""]]
ManyCases == {Req("GET", "/", "1.1", <<P("Host", "h")>> \o Many(n) \o <<P("User-Agent", UA)>>) : n \in {96, 97, 98}}
             \cup {Resp("1.1", 200, "OK", Many(n) \o <<P("Server", "s")>>) : n \in {97, 98, 99}}

\* ---- dup: repeated identity-bearing headers.  Which occurrence is split out is a convention of the code that Http1.tla records
\* (CodeDerived: the LAST Cookie and Referer header, the FIRST User-Agent and Accept-Language header)
CkA == [t |-> "cookie", name |-> "Cookie", ln |-> "cookie", pairs |-> <<[n |-> "stale", v |-> <<"1">>]>>]
CkB == [t |-> "cookie", name |-> "cookie", ln |-> "cookie", pairs |-> <<[n |-> "session", v |-> <<"abc">>], [n |-> "theme", v |-> <<"dark">>]>>]
CkC == [t |-> "cookie", name |-> "COOKIE", ln |-> "cookie", pairs |-> <<[n |-> "z", v |-> <<>>]>>]
DupCases ==
  {Req("GET", "/", "1.1", <<P("Host", "h")>> \o cs \o <<P("User-Agent", UA)>> \o rs) :
     cs \in {<<CkA, CkB>>, <<CkB, CkA>>, <<CkA, P("Accept", "*/*"), CkB, CkC>>, <<CkA, CkA>>},
     rs \in {<<>>, <<P("Referer", "http://first.example/"), P("Referer", "http://second.example/")>>, <<P("referer", "a"), P("Accept", "x"), P("REFERER", "b")>>}}
  \cup {Req("GET", "/", "1.1", <<P("User-Agent", "first/1.0"), P("Host", "h"), P("user-agent", "second/2.0"), Lg(<<Item(3, 1, FALSE)>>), Lg(<<Item(1, 1, FALSE)>>)>>)}
  \cup {Resp("1.1", 200, "OK", <<P("Server", "first"), P("Content-Type", "a"), P("server", "second"), P("Set-Cookie", "a=1"), P("Set-Cookie", "b=2")>>)}

\* ---- common: the headers of the two "common" lists (the ones whose ABSENCE is part of the signature), any subset of them present,
\* some of the present ones repeated (in another spelling) so that the number of lines naming a common header reaches, or passes,
\* the length of the list while headers are still missing: absent is judged by name, never by count
ReqC == <<P("Host", "example.com"), P("User-Agent", UA), P("Connection", "keep-alive"), P("Accept", "*/*"), P("Accept-Encoding", "gzip"), Lg(<<Item(1, 1, FALSE)>>),
          P("Accept-Charset", "utf-8"), P("Keep-Alive", "300")>>
RespC == <<P("Content-Type", "text/html"), P("Connection", "close"), P("Keep-Alive", "timeout=5"), P("Accept-Ranges", "bytes"), P("Date", "Mon, 01 Jan 2024 00:00:00 GMT")>>
Respell(h) == IF h.t = "plain" THEN [h EXCEPT !.name = Lower(h.name)] ELSE h
Pick(pool, S) == LET idx == SetToSeq(S) IN [i \in 1..Len(idx) |-> pool[SortSeq(idx, <)[i]]]
Again(pool, S, d) == LET ps == Pick(pool, S) IN IF Len(ps) = 0 THEN <<>> ELSE [i \in 1..d |-> Respell(ps[((i - 1) % Len(ps)) + 1])]
CommonCases ==
  {Req("GET", "/", "1.1", Pick(ReqC, S) \o <<P("X-Other", "1")>> \o Again(ReqC, S \ {6}, d)) :
      S \in {T \in SUBSET (1..8) : Cardinality(T) \in {1, 4, 6, 7, 8}}, d \in {0, 1, 2, 4}}
  \cup {Resp("1.1", 200, "OK", <<P("Server", "s")>> \o Pick(RespC, S) \o Again(RespC, S, d)) : S \in SUBSET (1..5), d \in {0, 1, 2, 4}}

\* ---- long: request targets, reason phrases and header values of up to 8000 characters (the parser's documented limits are 8192
\* per request line and per header line; nothing shorter may be cut, sniffed partially or dropped)
RECURSIVE Rpt(_, _)
Rpt(c, n) == IF n = 0 THEN "" ELSE IF n % 2 = 0 THEN LET h == Rpt(c, n \div 2) IN h \o h ELSE c \o Rpt(c, n - 1)
LongCases ==
  {Req("GET", "/" \o Rpt("a", n), v, <<P("Host", "example.com"), P("User-Agent", UA)>>) : n \in {1000, 1009, 1010, 1011, 1023, 1024, 1025, 2048, 4096, 8000}, v \in {"1.0", "1.1"}}
  \cup {Req("POST", "/x?q=" \o Rpt("z", 1500), "1.1", <<P("Host", "h"), P("User-Agent", Rpt("u", n)), P("X-Long", Rpt("v", n))>>) : n \in {1023, 1024, 1025, 4000, 8000}}
  \cup {Resp("1.1", 200, Rpt("r", n), <<P("Server", "s"), P("X-Long", Rpt("w", n))>>) : n \in {1010, 1024, 1100, 4000}}
  \cup {Resp("1.0", 404, "Not Found", <<P("Server", Rpt("S", n)), P("Content-Type", "t")>>) : n \in {1024, 8000}}
  \* long field NAMES (no limit but the line's): 1023 .. 1025, 1500, 4000 characters, in requests and responses
  \* (the lower-case form is written out: Lower() on thousands of characters is slow in TLC)
  \cup {Req("GET", "/", "1.1", <<P("Host", "h"), [t |-> "plain", name |-> "X-" \o Rpt("n", n), ln |-> "x-" \o Rpt("n", n), lws |-> " ", value |-> "v", rws |-> ""], P("User-Agent", UA)>>) : n \in {1021, 1022, 1023, 1500, 4000}}
  \cup {Resp("1.1", 200, "OK", <<P("Server", "s"), [t |-> "plain", name |-> "x-" \o Rpt("m", n), ln |-> "x-" \o Rpt("m", n), lws |-> " ", value |-> "v", rws |-> ""]>>) : n \in {1022, 1023, 1500, 4000}}

Cases == CASE Fam = "common" -> CommonCases [] Fam = "long" -> LongCases [] Fam = "dup" -> DupCases [] Fam = "start" -> StartCases [] Fam = "hdrs" -> HdrCases [] Fam = "ows" -> OwsCases [] Fam = "cookie" -> CookieCases
           [] Fam = "lang" -> LangCases [] Fam = "many" -> ManyCases
CaseSeq == SetToSeq(Cases)

Emit(i) ==
  LET m == CaseSeq[i]
      e0 == Meaning(m, {})
  IN PrintT("REPLAY " \o ToJson([fam |-> Fam, i |-> i, kind |-> m.kind, lines |-> Lines(m), exp |-> e0,
       alts |-> SetToSeq({a \in {[devs |-> S, exp |-> Meaning(m, S)] : S \in (SUBSET AllD05 \ {{}})} : a.exp # e0})]))

Init == shard \in 0..(Shards - 1) /\ phase = 0
Next == phase = 0 /\ phase' = 1 /\ UNCHANGED shard
Inv == phase = 1 => \A i \in 1..Len(CaseSeq) : (i % Shards = shard) => Emit(i)
Spec == Init /\ [][Next]_vars
=============================================================================
