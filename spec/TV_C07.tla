------------------------------- MODULE TV_C07 -------------------------------
(***************************************************************************)
(* C07: one row per (analyzer, set of connections, interleaving): for each *)
(* connection the results attributed to it in the interleaved run (inter)  *)
(* and in the run of its packets alone on a fresh instance (alone).        *)
(* Accepted iff they are equal for every connection.                       *)
(***************************************************************************)
EXTENDS Integers, Sequences, FiniteSets, Json, IOUtils, TLC
Rows == ndJsonDeserialize(IOEnv.TRACE)
Shards == 16
VARIABLES shard, phase
vars == <<shard, phase>>
RowOk(r) ==
  LET bad == {c \in 1..Len(r.conns) : r.conns[c].inter # r.conns[c].alone} IN
  \/ bad = {}
  \/ PrintT("BAD " \o ToJson([id |-> r.id, conns |-> bad]))
Init == shard \in 0..(Shards - 1) /\ phase = 0
Next == phase = 0 /\ phase' = 1 /\ UNCHANGED shard
Inv == phase = 1 => \A i \in 1..Len(Rows) : (i % Shards = shard) => RowOk(Rows[i])
Spec == Init /\ [][Next]_vars
=============================================================================
