SPECIFICATION Spec
INVARIANT Law1
INVARIANT Law2
INVARIANT Law3
INVARIANT Emit
CHECK_DEADLOCK FALSE
