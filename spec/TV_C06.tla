------------------------------- MODULE TV_C06 -------------------------------
(***************************************************************************)
(* Trace validation for C06 (e): the lines of the bundled p0f.fp are the   *)
(* events; DbLoad!Step consumes one per transition; the final state must   *)
(* equal the Database the code loaded (Rec[1], projected by the harness).  *)
(***************************************************************************)
EXTENDS DbLoad, P0fVocab, Json, IOUtils, TLC

Rec == ndJsonDeserialize(IOEnv.TRACE)
Loaded == Rec[1]

\* st: the design (no deviation); sk: the prediction under the listed deviations K (IOEnv.KNOWN, comma separated)
VARIABLES st, sk, l
vars == <<st, sk, l>>
K == IF IOEnv.KNOWN = "" THEN {} ELSE {IOEnv.KNOWN}

\* label lines carry their text; labels of the loaded database are printed back to text for comparison
LineOf(r) == IF r.kind = "label" THEN [kind |-> "label", text |-> r.text, label |-> r.text] ELSE r

Init == st = Empty /\ sk = Empty /\ l = 2
Next == l <= Len(Rec) /\ st' = Step(st, LineOf(Rec[l]), {}) /\ sk' = Step(sk, LineOf(Rec[l]), K) /\ l' = l + 1
Spec == Init /\ [][Next]_vars

NormT(entries) == [i \in 1..Len(entries) |-> [label |-> PrintLabel(entries[i].label), sigs |-> entries[i].sigs]]
NormDb(db) == [classes |-> db.classes, ua_os |-> db.ua_os, mtu |-> db.mtu,
               tcp_request |-> NormT(db.tcp_request), tcp_response |-> NormT(db.tcp_response),
               http_request |-> NormT(db.http_request), http_response |-> NormT(db.http_response)]

Done == l > Len(Rec)
Fields == <<"classes", "ua_os", "mtu", "tcp_request", "tcp_response", "http_request", "http_response">>
Verdict ==
  LET want == Project(st)
      got  == NormDb(Loaded.db)
      diff == SelectSeq(Fields, LAMBDA f : want[f] # got[f])
      wantK == Project(sk)
      diffK == SelectSeq(Fields, LAMBDA f : wantK[f] # got[f])
  IN PrintT("VERDICT " \o ToJson([known |-> Loaded.ok /\ ~sk.err /\ Len(diffK) = 0, ok |-> Loaded.ok /\ ~st.err /\ Len(diff) = 0, model_err |-> st.err, loaded_ok |-> Loaded.ok,
                                   differing |-> diff, lines |-> Len(Rec) - 1, sigs |-> TotalSigs(st)]))
Inv == Done => Verdict
=============================================================================
