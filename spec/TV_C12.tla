------------------------------- MODULE TV_C12 -------------------------------
(***************************************************************************)
(* C12, implementation -> specification: the harness evaluates the real    *)
(* distance functions on whole domains and records lossless run-length     *)
(* tables; every entry is judged here against the laws of Match.tla.       *)
(* Rows (ndjson, IOEnv.TRACE), by field t:                                 *)
(*   meta  : obs_alpha, sig_alpha, maxlen, u16 (domain descriptions)       *)
(*   ttl   : o, sk, runs          win : o, mss, sk, runs                   *)
(*   hdr   : oi, runs             sw  : o, d, strs                         *)
(*   score : which, breaks                                                 *)
(* A failing entry prints a BAD line (one per row, so that a broken table  *)
(* cannot flood the output); an entry explained by a listed deviation      *)
(* prints KNOWN.  Rows are sharded over the initial states.                 *)
(***************************************************************************)
EXTENDS Match, Json, IOUtils, TLC

Rows == ndJsonDeserialize(IOEnv.TRACE)
Meta == Rows[1]
Shards == 16
VARIABLES shard, phase
vars == <<shard, phase>>

\* ---- index -> signature-side value
TtlSigAt(sk, i) == CASE sk = "value" -> TtlV(i) [] sk = "guess" -> TtlG(i) [] sk = "bad" -> TtlB(i)
                     [] sk = "dist" -> TtlD(i \div 32, i % 32)
WinSigAt(sk, i) == CASE sk = "mss" -> W("mss", i) [] sk = "mtu" -> W("mtu", i)
                     [] sk = "value" -> W("value", Meta.u16[i + 1]) [] sk = "mod" -> W("mod", Meta.u16[i + 1])
                     [] sk = "any" -> WAny

RECURSIVE PowN(_, _)
PowN(a, n) == IF n = 0 THEN 1 ELSE a * PowN(a, n - 1)
RECURSIVE OffsetOf(_, _)
OffsetOf(a, len) == IF len = 0 THEN 0 ELSE OffsetOf(a, len - 1) + PowN(a, len - 1)   \* lists shorter than len
LenOf(a, idx) == CHOOSE n \in 0..Meta.maxlen : OffsetOf(a, n) <= idx /\ idx < OffsetOf(a, n + 1)
ListAt(alpha, idx) ==
  LET a == Len(alpha)
      n == LenOf(a, idx)
      r == idx - OffsetOf(a, n)
  IN [p \in 1..n |-> alpha[((r \div PowN(a, n - p)) % a) + 1]]

NLists(a) == OffsetOf(a, Meta.maxlen + 1)
ObsLists == [i \in 0..(NLists(Len(Meta.obs_alpha)) - 1) |-> ListAt(Meta.obs_alpha, i)]     \* constant: evaluated once
SigLists == [i \in 0..(NLists(Len(Meta.sig_alpha)) - 1) |-> ListAt(Meta.sig_alpha, i)]

\* ---- laws
TtlLawX(o, s, d) ==
  /\ TtlLaw(o, s, d)
  /\ (o.k # s.k /\ TtlComparable(o, s)) => d = (IF Implied(o) = Implied(s) THEN 0 ELSE PenTtl)   \* documented cross-form pairs
HdrLaw(o, s, d) == (HInstance(o, s) => d = 0) /\ d \in {REJ, 0, 1, 2, 3}
SwLaw(o, s, d) == (StrContains(o, s) => d = 0) /\ d \in {0, PenSw} /\ (d = 0 => (StrContains(o, s) \/ StrContains(s, o)))

EntryOk(row, i, d) ==
  CASE row.t = "ttl" -> TtlLawX(row.o, TtlSigAt(row.sk, i), d)
    [] row.t = "win" -> WinLaw(row.o, WinSigAt(row.sk, i), row.mss, d)
    [] row.t = "hdr" -> HdrLaw(ObsLists[row.oi], SigLists[i], d)

SigOf(row, i) ==
  CASE row.t = "ttl" -> TtlSigAt(row.sk, i)
    [] row.t = "win" -> WinSigAt(row.sk, i)
    [] row.t = "hdr" -> SigLists[i]

RECURSIVE BadIn(_, _, _, _)
BadIn(row, runs, k, pos) ==    \* set of <<index, d>> violating the law
  IF k > Len(runs) THEN {}
  ELSE LET d == runs[k][1]  n == runs[k][2]
       IN {<<i, d>> : i \in {j \in pos..(pos + n - 1) : ~EntryOk(row, j, d)}} \cup BadIn(row, runs, k + 1, pos + n)

RECURSIVE TotalLen(_, _)
TotalLen(runs, k) == IF k > Len(runs) THEN 0 ELSE runs[k][2] + TotalLen(runs, k + 1)

RunRowOk(row) ==
  LET bad == BadIn(row, row.runs, 1, 0)
  IN \/ bad = {}
     \/ LET b == CHOOSE x \in bad : TRUE
        IN PrintT("BAD " \o ToJson([t |-> row.t, row |-> [row EXCEPT !.runs = <<>>], sig |-> SigOf(row, b[1]), d |-> b[2],
                                     obs |-> IF row.t = "hdr" THEN ObsLists[row.oi] ELSE row.o, nbad |-> Cardinality(bad)]))

SwRowOk(row) ==
  \A j \in 1..Len(row.d) :
     LET s == Meta.strs[j]  d == row.d[j]
     IN \/ SwLaw(row.o, s, d)
        \/ (d = SwDist(row.o, s, {"D12_sw_reversed"}) /\ PrintT("KNOWN " \o ToJson([dev |-> "D12_sw_reversed", o |-> row.o, s |-> s, d |-> d])))
        \/ PrintT("BAD " \o ToJson([t |-> "sw", obs |-> row.o, sig |-> s, d |-> d, nbad |-> 1]))

\* score table: breaks = positions (hi, lo) where the score changes, scanning all 2^32 distances upwards
Before(a, b) == a.hi < b.hi \/ (a.hi = b.hi /\ a.lo < b.lo)
ScoreOk(row) ==
  LET b == row.breaks
      ok == /\ Len(b) >= 1 /\ b[1].hi = 0 /\ b[1].lo = 0 /\ b[1].q = 100               \* distance 0 scores 1.0
            /\ \A i \in 1..Len(b) : 5 <= b[i].q /\ b[i].q <= 100                          \* within [0.05, 1.0]
            /\ \A i \in 1..(Len(b) - 1) : Before(b[i], b[i + 1]) /\ b[i + 1].q < b[i].q    \* non-increasing
            /\ Len(b) >= 2 /\ b[2].hi = 0 /\ b[2].lo = 1                                  \* 1.0 only at distance 0
  IN ok \/ PrintT("BAD " \o ToJson([t |-> "score", which |-> row.which, breaks |-> b, nbad |-> 1]))

RowOk(row) == CASE row.t \in {"ttl", "win", "hdr"} -> RunRowOk(row)
                [] row.t = "sw" -> SwRowOk(row)
                [] row.t = "score" -> ScoreOk(row)
                [] OTHER -> TRUE

Init == shard \in 0..(Shards - 1) /\ phase = 0
Next == phase = 0 /\ phase' = 1 /\ UNCHANGED shard
Inv == phase = 1 => \A r \in 2..Len(Rows) : (r % Shards = shard) => RowOk(Rows[r])
Spec == Init /\ [][Next]_vars
=============================================================================
