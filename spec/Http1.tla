------------------------------- MODULE Http1 --------------------------------
(***************************************************************************)
(* HTTP/1.x message heads: abstract head, its wire lines, and what the     *)
(* analyzer must report for it (Meaning), including the p0f HTTP           *)
(* observation.  Property C05 (and the HTTP half of C13).                  *)
(*                                                                         *)
(* head == [kind |-> "req", method, target, ver |-> "1.0"|"1.1", hs]       *)
(*       | [kind |-> "resp", ver, status, reason, hs]                      *)
(* hs   == Seq(h);  h is one of                                            *)
(*   [t |-> "plain", name, lws, value, rws]   (lws/rws: optional SP/HTAB)  *)
(*   [t |-> "cookie", name, pairs : Seq([n, v : <<>> | <<s>>])]            *)
(*   [t |-> "lang", name, items : Seq([tag, q : <<>> | <<s>>, sp])]        *)
(* Structured values are rendered by Lines, so no parser is written here.  *)
(***************************************************************************)
EXTENDS P0fVocab

RECURSIVE Lower(_)
Upper26 == "ABCDEFGHIJKLMNOPQRSTUVWXYZ"
Lower26 == "abcdefghijklmnopqrstuvwxyz"
LowerChar(c) == IF \E i \in 1..26 : SubSeq(Upper26, i, i) = c
                THEN LET i == CHOOSE j \in 1..26 : SubSeq(Upper26, j, j) = c IN SubSeq(Lower26, i, i)
                ELSE c
Lower(s) == IF Len(s) = 0 THEN "" ELSE LowerChar(SubSeq(s, 1, 1)) \o Lower(SubSeq(s, 2, Len(s)))

\* ---- p0f lists (huginn-net-db/src/http.rs; p0f's fp_http.c)
ReqOptional == <<"Cookie", "Referer", "Origin", "Range", "If-Modified-Since", "If-None-Match", "Via", "X-Forwarded-For", "Authorization", "Proxy-Authorization", "Cache-Control">>
RespOptional == <<"Set-Cookie", "Last-Modified", "ETag", "Content-Length", "Content-Disposition", "Cache-Control", "Expires", "Pragma", "Location", "Refresh", "Content-Range", "Vary">>
ReqSkip == <<"Host", "User-Agent">>
RespSkip == <<"Date", "Content-Type", "Server">>
ReqCommon == <<"Host", "User-Agent", "Connection", "Accept", "Accept-Encoding", "Accept-Language", "Accept-Charset", "Keep-Alive">>
RespCommon == <<"Content-Type", "Connection", "Keep-Alive", "Accept-Ranges", "Date">>

LowerAll(list) == [i \in 1..Len(list) |-> Lower(list[i])]
ReqOptionalL == LowerAll(ReqOptional)   RespOptionalL == LowerAll(RespOptional)
ReqSkipL == LowerAll(ReqSkip)           RespSkipL == LowerAll(RespSkip)
ReqCommonL == LowerAll(ReqCommon)       RespCommonL == LowerAll(RespCommon)

\* headers carry ln, the lower-cased name (computed once by the generator)
In(h, list, listL, D) == IF "D05_list_case" \in D THEN \E i \in 1..Len(list) : list[i] = h.name          \* code: exact-case membership
                         ELSE \E i \in 1..Len(listL) : listL[i] = h.ln

\* ---- wire
CookieText(pairs) == Join([i \in 1..Len(pairs) |-> pairs[i].n \o (IF Len(pairs[i].v) = 0 THEN "" ELSE "=" \o pairs[i].v[1])], "; ")
LangText(items) == Join([i \in 1..Len(items) |-> items[i].tag \o (IF Len(items[i].q) = 0 THEN "" ELSE (IF items[i].sp THEN "; q=" ELSE ";q=") \o items[i].q[1])], ",")
ValueOf(h) == CASE h.t = "plain" -> h.value [] h.t = "cookie" -> CookieText(h.pairs) [] h.t = "lang" -> LangText(h.items)
HeaderLine(h) == h.name \o ":" \o (IF h.t = "plain" THEN h.lws \o h.value \o h.rws ELSE " " \o ValueOf(h))
StartLine(m) == IF m.kind = "req" THEN m.method \o " " \o m.target \o " HTTP/" \o m.ver
                ELSE "HTTP/" \o m.ver \o " " \o ToString(m.status) \o (IF m.reason = "" THEN "" ELSE " " \o m.reason)
\* the head as lines; the driver joins them with CRLF and appends the blank line and a body
Lines(m) == <<StartLine(m)>> \o [i \in 1..Len(m.hs) |-> HeaderLine(m.hs[i])]

\* ---- meaning
IsName(h, n) == h.ln = n
First(hs, n) == LET idx == {i \in 1..Len(hs) : IsName(hs[i], n)} IN
                IF idx = {} THEN <<>> ELSE <<ValueOf(hs[CHOOSE i \in idx : \A j \in idx : i <= j])>>

QVal(q) == IF Len(q) = 0 THEN 1000
           ELSE CASE q[1] = "0" -> 0 [] q[1] = "0.3" -> 300 [] q[1] = "0.5" -> 500 [] q[1] = "0.9" -> 900 [] q[1] = "0.999" -> 999
                  [] q[1] = "1" -> 1000 [] q[1] = "1.0" -> 1000
Primary(tag) == LET RECURSIVE Upto(_) Upto(k) == IF k > Len(tag) \/ SubSeq(tag, k, k) = "-" THEN "" ELSE SubSeq(tag, k, k) \o Upto(k + 1) IN Upto(1)
LangName(p) == CASE p = "en" -> <<"English">> [] p = "fr" -> <<"French">> [] p = "de" -> <<"German">> [] p = "es" -> <<"Spanish">> [] OTHER -> <<>>
\* preferred language: the earliest element of maximal q among those whose primary subtag is a known language
Language(items, D) ==
  LET Q(i) == IF "D05_lang_q_ows" \in D /\ items[i].sp THEN 1000 ELSE QVal(items[i].q)     \* code: `; q=` (with a space) is not recognised
      known == {i \in 1..Len(items) : Len(LangName(Primary(items[i].tag))) > 0}
  IN IF known = {} THEN <<>>
     ELSE LET best == CHOOSE i \in known : \A j \in known : Q(i) > Q(j) \/ (Q(i) = Q(j) /\ i <= j)
          IN LangName(Primary(items[best].tag))
LangOf(hs, D) == LET idx == {i \in 1..Len(hs) : IsName(hs[i], "accept-language")} IN
                 IF idx = {} THEN <<>>
                 ELSE LET h == hs[CHOOSE i \in idx : \A j \in idx : i <= j] IN IF h.t = "lang" THEN Language(h.items, D) ELSE <<>>

Kept(m) == IF m.kind = "req" THEN SelectSeq(m.hs, LAMBDA h : ~IsName(h, "cookie") /\ ~IsName(h, "referer")) ELSE m.hs

Horder(m, D) ==
  LET hs == Kept(m)
      req == m.kind = "req"
  IN [i \in 1..Len(hs) |-> IF In(hs[i], IF req THEN ReqOptional ELSE RespOptional, IF req THEN ReqOptionalL ELSE RespOptionalL, D) THEN HO(hs[i].name)
                            ELSE IF In(hs[i], IF req THEN ReqSkip ELSE RespSkip, IF req THEN ReqSkipL ELSE RespSkipL, D) THEN H(hs[i].name)
                            ELSE HV(hs[i].name, ValueOf(hs[i]))]
Habsent(m) ==
  LET common == IF m.kind = "req" THEN ReqCommon ELSE RespCommon
      commonL == IF m.kind = "req" THEN ReqCommonL ELSE RespCommonL
      present == {Kept(m)[i].ln : i \in 1..Len(Kept(m))}
      missing == SelectSeq([k \in 1..Len(common) |-> k], LAMBDA k : commonL[k] \notin present)
  IN [k \in 1..Len(missing) |-> H(common[missing[k]])]

LastCookie(m) == LET idx == {i \in 1..Len(m.hs) : IsName(m.hs[i], "cookie")} IN
                 IF idx = {} THEN <<>> ELSE LET h == m.hs[CHOOSE i \in idx : \A j \in idx : j <= i] IN
                      IF h.t = "cookie" THEN h.pairs ELSE <<>>
LastReferer(m) == LET idx == {i \in 1..Len(m.hs) : IsName(m.hs[i], "referer")} IN
                  IF idx = {} THEN <<>> ELSE <<ValueOf(m.hs[CHOOSE i \in idx : \A j \in idx : j <= i])>>

Meaning(m, D) ==
  LET sw == IF m.kind = "req" THEN First(Kept(m), "user-agent") ELSE First(m.hs, "server")
      ho == Horder(m, D)
      ha == Habsent(m)
  IN
  [kind |-> m.kind,
   method |-> IF m.kind = "req" THEN <<m.method>> ELSE <<>>, target |-> IF m.kind = "req" THEN <<m.target>> ELSE <<>>,
   status |-> IF m.kind = "resp" THEN <<m.status>> ELSE <<>>,
   headers |-> [i \in 1..Len(Kept(m)) |-> [name |-> Kept(m)[i].name, value |-> ValueOf(Kept(m)[i])]],
   cookies |-> IF m.kind = "req" THEN LastCookie(m) ELSE <<>>,
   referer |-> IF m.kind = "req" THEN LastReferer(m) ELSE <<>>,
   ua |-> IF m.kind = "req" THEN sw ELSE <<>>,
   lang |-> IF m.kind = "req" THEN LangOf(Kept(m), D) ELSE <<>>,
   obs |-> [ver |-> IF m.ver = "1.0" THEN "0" ELSE "1", horder |-> ho, habsent |-> ha, sw |-> IF Len(sw) = 0 THEN "???" ELSE sw[1]],
   text |-> PrintHttpSig([ver |-> IF m.ver = "1.0" THEN "0" ELSE "1", horder |-> ho, habsent |-> ha, sw |-> IF Len(sw) = 0 THEN "???" ELSE sw[1]])]
=============================================================================
