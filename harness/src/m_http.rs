//! HTTP entry points: HttpProcessors::parse_request / parse_response (C05, C16), the packet-level path on a flow table
//! (C09), the Akamai extractor (C17).
use crate::conv::*;
use crate::util::*;
use crate::R;
use huginn_net_http::http_process::{FlowKey, HttpProcessors, TcpFlow};
use huginn_net_http::observable::{ObservableHttpRequest, ObservableHttpResponse};
use serde_json::{json, Value};
use std::io::{BufRead, Write};
use ttl_cache::TtlCache;

static DEFAULT_DB: std::sync::OnceLock<huginn_net_db::Database> = std::sync::OnceLock::new();

fn hdrs(h: &[huginn_net_http::http_common::HttpHeader]) -> Value {
    Value::Array(h.iter().map(|x| json!({"name": x.name, "value": x.value})).collect())
}
pub fn req_to(r: &ObservableHttpRequest) -> Value {
    json!({"method": r.method, "uri": r.uri, "headers": hdrs(&r.headers),
           "cookies": r.cookies.iter().map(|c| json!({"n": c.name, "v": c.value.iter().collect::<Vec<_>>()})).collect::<Vec<_>>(),
           "referer": r.referer, "ua": r.user_agent, "lang": r.lang,
           "obs": {"ver": hver_to(&r.matching.version), "horder": r.matching.horder.iter().map(header_to).collect::<Vec<_>>(),
                   "habsent": r.matching.habsent.iter().map(header_to).collect::<Vec<_>>(), "sw": r.matching.expsw},
           "text": r.matching.to_string(), "sigtext": r.to_string()})
}
pub fn resp_to(r: &ObservableHttpResponse) -> Value {
    json!({"status": r.status_code, "headers": hdrs(&r.headers),
           "obs": {"ver": hver_to(&r.matching.version), "horder": r.matching.horder.iter().map(header_to).collect::<Vec<_>>(),
                   "habsent": r.matching.habsent.iter().map(header_to).collect::<Vec<_>>(), "sw": r.matching.expsw},
           "text": r.matching.to_string(), "sigtext": r.to_string()})
}
fn blob(v: &Value) -> Vec<u8> {
    if v.is_string() {
        hex(v.as_str().unwrap())
    } else {
        bytes(v)
    }
}

pub fn run(input: &mut dyn BufRead, out: &mut dyn Write, _args: &[String]) -> R {
    // one HttpProcessors per line unless "shared": true keeps the previous one (C07: the HPACK table lives in it)
    let mut shared: Option<HttpProcessors> = None;
    for v in crate::lines(input) {
        let id = v["id"].clone();
        let o = match v["op"].as_str().unwrap_or("") {
            "parse" => {
                // datas: list of byte strings, each parsed as request or response on one processor instance
                let fresh = HttpProcessors::new();
                let keep = v["shared"].as_bool().unwrap_or(false);
                if keep && shared.is_none() {
                    shared = Some(HttpProcessors::new());
                }
                let p = if keep { shared.as_ref().unwrap() } else { &fresh };
                let is_req = v["kind"].as_str().unwrap() == "req";
                let res: Vec<Value> = arr(&v["datas"])
                    .iter()
                    .map(|d| {
                        let b = blob(d);
                        match guarded(|| if is_req { p.parse_request(&b).map(|r| req_to(&r)) } else { p.parse_response(&b).map(|r| resp_to(&r)) }) {
                            Ok(Some(x)) => json!({"r": "some", "v": x}),
                            Ok(None) => json!({"r": "none"}),
                            Err(e) => json!({"r": "panic", "e": e}),
                        }
                    })
                    .collect();
                json!({"id": id, "out": res})
            }
            "match" => {
                // parse one message and look it up in the bundled database through the crate's SignatureMatcher
                let db = DEFAULT_DB.get_or_init(|| huginn_net_db::Database::load_default().expect("bundled database"));
                let matcher = huginn_net_http::SignatureMatcher::new(db);
                let p = HttpProcessors::new();
                let b = blob(&v["data"]);
                let is_req = v["kind"].as_str().unwrap() == "req";
                match guarded(|| {
                    if is_req {
                        p.parse_request(&b).map(|r| {
                            let m = matcher.matching_by_http_request(&r);
                            json!({"text": r.matching.to_string(), "label": m.map(|(l, _, _)| label_to(l)), "q": m.map(|(_, _, q)| (q * 100.0).round() as i64)})
                        })
                    } else {
                        p.parse_response(&b).map(|r| {
                            let m = matcher.matching_by_http_response(&r);
                            json!({"text": r.matching.to_string(), "label": m.map(|(l, _, _)| label_to(l)), "q": m.map(|(_, _, q)| (q * 100.0).round() as i64)})
                        })
                    }
                }) {
                    Ok(Some(x)) => json!({"id": id, "r": "some", "v": x}),
                    Ok(None) => json!({"id": id, "r": "none"}),
                    Err(e) => json!({"id": id, "r": "panic", "e": e}),
                }
            }
            "akamai" => {
                // one-shot extraction over `bytes`, then incremental extraction over each partition in `parts` (lists of chunk lengths)
                use huginn_net_http::akamai_extractor::extract_akamai_fingerprint_from_bytes;
                use huginn_net_http::http2_fingerprint_extractor::Http2FingerprintExtractor;
                let b = blob(&v["bytes"]);
                let one = match guarded(|| extract_akamai_fingerprint_from_bytes(&b)) {
                    Ok(Some(f)) => json!({"r": "some", "fp": f.fingerprint, "hash": f.hash}),
                    Ok(None) => json!({"r": "none"}),
                    Err(e) => json!({"r": "panic", "e": e}),
                };
                let parts: Vec<Value> = arr(&v["parts"])
                    .iter()
                    .map(|part| {
                        let mut ex = Http2FingerprintExtractor::new();
                        // {"pre": k, "cs": [...]}: the extractor has been used before -- it was given the first k octets (a connection that
                        // died there) and then reset(); the chunks that follow are a new connection
                        let (part, pre) = if part.is_object() { (&part["cs"], part["pre"].as_u64()) } else { (part, None) };
                        if let Some(k) = pre {
                            let _ = guarded(|| ex.add_bytes(&b[..(k as usize).min(b.len())]));
                            ex.reset();
                        }
                        let mut pos = 0usize;
                        let outs: Vec<Value> = arr(part)
                            .iter()
                            .map(|n| {
                                let n = u(n) as usize;
                                let chunk = &b[pos..pos + n];
                                pos += n;
                                match guarded(|| ex.add_bytes(chunk)) {
                                    Ok(Ok(Some(f))) => json!({"r": "some", "fp": f.fingerprint, "hash": f.hash}),
                                    Ok(Ok(None)) => json!({"r": "none"}),
                                    Ok(Err(e)) => json!({"r": "err", "e": e.to_string()}),
                                    Err(e) => json!({"r": "panic", "e": e}),
                                }
                            })
                            .collect();
                        let after = ex.get_fingerprint().map(|f| f.fingerprint.clone());
                        json!({"outs": outs, "final": after})
                    })
                    .collect();
                json!({"id": id, "one": one, "parts": parts})
            }
            "packets" => {
                let cap = v["cap"].as_u64().unwrap_or(1000) as usize;
                let mut flows: TtlCache<FlowKey, TcpFlow> = TtlCache::new(cap);
                let procs = HttpProcessors::new();
                let res: Vec<Value> = arr(&v["frames"]).iter().map(|f| packet(&blob(f), &mut flows, &procs)).collect();
                json!({"id": id, "out": res})
            }
            "match_w" => {
                // messages parsed by the crate, looked up through the crate's SignatureMatcher wrapper in the bundled database; next to the
                // wrapper's answer, the distance of every entry of the table to the observation that is REPORTED (C02: the answer must be
                // the one a full scan of the table selects for that observation)
                let db = DEFAULT_DB.get_or_init(|| huginn_net_db::Database::load_default().expect("bundled database"));
                let matcher = huginn_net_http::SignatureMatcher::new(db);
                let p = HttpProcessors::new();
                let is_req = v["kind"].as_str().unwrap() == "req";
                let res: Vec<Value> = arr(&v["datas"])
                    .iter()
                    .map(|d| {
                        let b = blob(d);
                        match guarded(|| {
                            use huginn_net_db::db_matching_trait::MatchQuality;
                            if is_req {
                                p.parse_request(&b).map(|r| {
                                    let mut o = crate::m_db::match_all_with(&db.http_request, &r.matching, huginn_net_db::http::HttpMatchQuality::distance_to_score, matcher.matching_by_http_request(&r));
                                    o["obs"] = json!({"ver": hver_to(&r.matching.version), "horder": r.matching.horder.iter().map(header_to).collect::<Vec<_>>(), "habsent": r.matching.habsent.iter().map(header_to).collect::<Vec<_>>(), "sw": r.matching.expsw});
                                    o
                                })
                            } else {
                                p.parse_response(&b).map(|r| {
                                    let mut o = crate::m_db::match_all_with(&db.http_response, &r.matching, huginn_net_db::http::HttpMatchQuality::distance_to_score, matcher.matching_by_http_response(&r));
                                    o["obs"] = json!({"ver": hver_to(&r.matching.version), "horder": r.matching.horder.iter().map(header_to).collect::<Vec<_>>(), "habsent": r.matching.habsent.iter().map(header_to).collect::<Vec<_>>(), "sw": r.matching.expsw});
                                    o
                                })
                            }
                        }) {
                            Ok(Some(x)) => json!({"r": "some", "v": x}),
                            Ok(None) => json!({"r": "none"}),
                            Err(e) => json!({"r": "panic", "e": e}),
                        }
                    })
                    .collect();
                json!({"id": id, "out": res})
            }
            "conns" => {
                // whole connections through the OUTPUT layer of the crate (process_ipv4_packet / process_ipv6_packet with the bundled
                // database as matcher: flow table, parsers, create_observable_package), each on a fresh flow table
                let db = DEFAULT_DB.get_or_init(|| huginn_net_db::Database::load_default().expect("bundled database"));
                let matcher = huginn_net_http::SignatureMatcher::new(db);
                let res: Vec<Value> = arr(&v["conns"])
                    .iter()
                    .map(|c| {
                        let mut flows: TtlCache<FlowKey, TcpFlow> = TtlCache::new(16);
                        let procs = HttpProcessors::new();
                        let rows: Vec<Value> = arr(c)
                            .iter()
                            .map(|f| {
                                let frame = blob(f);
                                match guarded(|| {
                                    use huginn_net_http::packet_parser::{parse_packet, IpPacket};
                                    let r = match parse_packet(&frame) {
                                        IpPacket::Ipv4(p) => huginn_net_http::process_ipv4_packet(&p, &mut flows, &procs, Some(&matcher)),
                                        IpPacket::Ipv6(p) => huginn_net_http::process_ipv6_packet(&p, &mut flows, &procs, Some(&matcher)),
                                        IpPacket::None => return json!({"r": "noip"}),
                                    };
                                    match r {
                                        Ok(a) => json!({"r": "ok",
                                            "req": a.http_request.as_ref().map(|x| json!({"v": req_to(&x.sig), "line": x.to_string(), "src": format!("{}|{}", x.source.ip, x.source.port), "dst": format!("{}|{}", x.destination.ip, x.destination.port)})),
                                            "resp": a.http_response.as_ref().map(|x| json!({"v": resp_to(&x.sig), "line": x.to_string(), "src": format!("{}|{}", x.source.ip, x.source.port), "dst": format!("{}|{}", x.destination.ip, x.destination.port)}))}),
                                        Err(e) => json!({"r": "err", "e": e.to_string()}),
                                    }
                                }) {
                                    Ok(x) => x,
                                    Err(p) => json!({"r": "panic", "e": p}),
                                }
                            })
                            .collect();
                        json!(rows)
                    })
                    .collect();
                json!({"id": id, "out": res})
            }
            o => return Err(format!("unknown op {o}")),
        };
        writeln!(out, "{o}").map_err(|e| e.to_string())?;
    }
    Ok(())
}

pub fn packet(frame: &[u8], flows: &mut TtlCache<FlowKey, TcpFlow>, procs: &HttpProcessors) -> Value {
    use huginn_net_http::packet_parser::{parse_packet, IpPacket};
    match guarded(|| {
        use pnet::packet::Packet;
        // the packet path does not report endpoints: label the frame with the ones the crate's own parser sees (attribution only)
        let ports = |pl: &[u8]| pnet::packet::tcp::TcpPacket::new(pl).map(|t| (t.get_source(), t.get_destination()));
        let (r, eps) = match parse_packet(frame) {
            IpPacket::Ipv4(p) => {
                let e = ports(p.payload()).map(|(a, b)| (format!("{}|{}", p.get_source(), a), format!("{}|{}", p.get_destination(), b)));
                (huginn_net_http::http_process::process_http_ipv4(&p, flows, procs), e)
            }
            IpPacket::Ipv6(p) => {
                let e = ports(p.payload()).map(|(a, b)| (format!("{}|{}", p.get_source(), a), format!("{}|{}", p.get_destination(), b)));
                (huginn_net_http::http_process::process_http_ipv6(&p, flows, procs), e)
            }
            IpPacket::None => return json!({"r": "noip"}),
        };
        match r {
            Ok(pkg) => json!({"r": "ok", "req": pkg.http_request.as_ref().map(req_to), "resp": pkg.http_response.as_ref().map(resp_to),
                              "src": eps.as_ref().map(|e| e.0.clone()), "dst": eps.as_ref().map(|e| e.1.clone())}),
            Err(e) => json!({"r": "err", "e": e.to_string()}),
        }
    }) {
        Ok(v) => v,
        Err(p) => json!({"r": "panic", "e": p}),
    }
}
