//! hv — conformance harness for huginn-net (see /verif/DESIGN.md §2.5).
//!
//! Contains no reference implementation of any huginn-net function: each mode
//! deserialises inputs produced by TLC (or by the seeded drivers), calls the
//! public API of the crates under /repo, and projects the results to ndjson.
//! All judgement happens in TLA+ (expected values computed by TLC, or the
//! recorded events validated by a TV_* specification).
use std::io::{self, BufRead, BufWriter, Write};

mod alloc_count;
mod util;
mod clock;
mod conv;
mod m_ana;
mod m_res;
mod m_http;
mod m_pool;
mod m_tcp;
mod m_tls;
mod m_tot;
mod m_db;
mod m_dl;
mod m_filter;

/// A subscriber that is interested in everything and keeps nothing: with it installed the arguments of every `trace!` / `debug!` /
/// `info!` in the code under test are evaluated, as they are in an application that logs (a panic in a log statement is a panic).
struct EverythingEnabled;
impl tracing::Subscriber for EverythingEnabled {
    fn enabled(&self, _: &tracing::Metadata<'_>) -> bool {
        true
    }
    fn new_span(&self, _: &tracing::span::Attributes<'_>) -> tracing::span::Id {
        tracing::span::Id::from_u64(1)
    }
    fn record(&self, _: &tracing::span::Id, _: &tracing::span::Record<'_>) {}
    fn record_follows_from(&self, _: &tracing::span::Id, _: &tracing::span::Id) {}
    fn event(&self, e: &tracing::Event<'_>) {
        // format the message like a logger would (Display / Debug of the fields run)
        struct V;
        impl tracing::field::Visit for V {
            fn record_debug(&mut self, _: &tracing::field::Field, v: &dyn std::fmt::Debug) {
                let _ = std::hint::black_box(format!("{v:?}").len());
            }
        }
        e.record(&mut V);
    }
    fn enter(&self, _: &tracing::span::Id) {}
    fn exit(&self, _: &tracing::span::Id) {}
}

fn main() {
    if std::env::var("HV_NO_LOG").is_err() {
        let _ = tracing::subscriber::set_global_default(EverythingEnabled);
    }
    let args: Vec<String> = std::env::args().collect();
    if args.len() < 2 {
        eprintln!("usage: hv <mode> [args] < in.ndjson > out.ndjson");
        std::process::exit(2);
    }
    // panics in code under test are data; keep the default hook quiet
    std::panic::set_hook(Box::new(|_| {}));
    let stdin = io::stdin();
    let mut input = stdin.lock();
    let stdout = io::stdout();
    let mut out = BufWriter::with_capacity(1 << 20, stdout.lock());
    let rest = &args[2..];
    let r = match args[1].as_str() {
        "filter" => m_filter::run(&mut input, &mut out, rest),
        "db" => m_db::run(&mut input, &mut out, rest),
        "tcp" => m_tcp::run(&mut input, &mut out, rest),
        "tls" => m_tls::run(&mut input, &mut out, rest),
        "http" => m_http::run(&mut input, &mut out, rest),
        "pool" => m_pool::run(&mut input, &mut out, rest),
        "ana" => m_ana::run(&mut input, &mut out, rest),
        "res" => m_res::run(&mut input, &mut out, rest),
        "tot" => m_tot::run(&mut input, &mut out, rest),
        "dl" => m_dl::run(&mut input, &mut out, rest),
        m => {
            eprintln!("unknown mode {m}");
            std::process::exit(2);
        }
    };
    out.flush().unwrap();
    if let Err(e) = r {
        eprintln!("hv: {e}");
        std::process::exit(2);
    }
}

pub type R = Result<(), String>;
pub fn lines(input: &mut dyn BufRead) -> impl Iterator<Item = serde_json::Value> + '_ {
    input.lines().filter_map(|l| {
        let l = l.ok()?;
        let t = l.trim();
        if t.is_empty() {
            None
        } else {
            Some(serde_json::from_str(t).unwrap_or_else(|e| {
                eprintln!("hv: bad input line: {e}: {}", &t[..t.len().min(200)]);
                std::process::exit(2)
            }))
        }
    })
}
