//! Worker pools of the three protocol crates (C10, C18, and the pool halves of C01/C08/C15): concurrent dispatcher
//! threads, recorded dispatch outcomes, worker events from hook H2, results, final statistics.
use crate::util::*;
use crate::R;
use serde_json::{json, Value};
use std::io::{BufRead, Write};
use std::sync::Arc;
use std::time::{Duration, Instant};

fn blob(v: &Value) -> Vec<u8> {
    if v.is_string() {
        hex(v.as_str().unwrap())
    } else {
        bytes(v)
    }
}

macro_rules! return_life {
    ($outcomes:expr, $late:expr, $exited:expr, $events:expr, $stats:expr, $results:expr) => {
        json!({
            "outcomes": $outcomes, "late": $late, "exited": $exited,
            "events": $events.iter().map(|e| json!({"seq": e.seq, "kind": e.kind, "w": e.worker, "tag": format!("{:016x}", e.tag)})).collect::<Vec<_>>(),
            "stats": {"dispatched": $stats.total_dispatched, "dropped": $stats.total_dropped,
                      "workers": $stats.workers.iter().map(|w| json!({"id": w.id, "q": w.queue_size, "dropped": w.dropped})).collect::<Vec<_>>()},
            "results": $results,
        })
    };
}

macro_rules! run_pool {
    ($krate:ident, $v:expr, $new_pool:expr, $project:expr) => {{
        use $krate::verif_hooks as hooks;
        use $krate::DispatchResult;
        let v: &Value = $v;
        let perturb = v["perturb"].as_u64().unwrap_or(0);
        hooks::set_perturbation(perturb);
        let _ = hooks::take_events();
        let (tx, rx) = std::sync::mpsc::channel();
        let pool = Arc::new($new_pool(tx));
        let disp: Vec<Vec<Vec<u8>>> = arr(&v["dispatchers"]).iter().map(|d| arr(d).iter().map(blob).collect()).collect();
        let gap_us = v["gap_us"].as_u64().unwrap_or(0);
        if let Some(n) = v["rxdrop"].as_u64() {
            // the consumer of the results goes away after the first n packets (its receiver is dropped): workers that find the result
            // channel closed leave, packets hashed to them are refused from then on -- reported dropped, and counted
            let frames = &disp[0];
            let mut rx = Some(rx);
            let mut outcomes: Vec<&'static str> = vec![];
            for (fi, f) in frames.iter().enumerate() {
                if fi as u64 == n {
                    std::thread::sleep(Duration::from_millis(30));
                    rx = None;
                }
                let q = matches!(pool.dispatch(f.clone()), DispatchResult::Queued);
                outcomes.push(if q { "queued" } else { "dropped" });
                if gap_us > 0 {
                    std::thread::sleep(Duration::from_micros(gap_us));
                }
            }
            drop(rx);
            std::thread::sleep(Duration::from_millis(30));
            let stats = pool.stats();
            pool.shutdown();
            hooks::set_perturbation(0);
            let _ = hooks::take_events();
            return json!({"outcomes": [outcomes], "rxdrop": n,
                          "stats": {"dispatched": stats.total_dispatched, "dropped": stats.total_dropped,
                                    "workers": stats.workers.iter().map(|w| json!({"id": w.id, "q": w.queue_size, "dropped": w.dropped})).collect::<Vec<_>>()}});
        }
        // stress runs: every dispatcher hands its frames over `rounds` times, without recording the calls (the recorder's lock would keep
        // the dispatchers apart)
        let rounds = v["rounds"].as_u64().unwrap_or(1) as usize;
        let record_calls = v["record"].as_bool().unwrap_or(true);
        // "clock": ms values of hook H1, set before each dispatch call of the (single) dispatcher; with a gap between the calls the
        // worker handles packet i while the clock shows clock[i]
        let clockv: Option<Vec<u64>> = v.get("clock").and_then(|c| c.as_array()).map(|a| a.iter().map(|x| x.as_u64().unwrap()).collect());
        let clockv = &clockv;
        let during = v["life"].as_str() == Some("during");
        let shutdown_at_us = v["shutdown_at_us"].as_u64().unwrap_or(0);
        let outcomes: Vec<Vec<&'static str>> = std::thread::scope(|s| {
            if during {
                // shutdown() concurrent with the dispatch calls
                let pool = Arc::clone(&pool);
                s.spawn(move || {
                    std::thread::sleep(Duration::from_micros(shutdown_at_us));
                    hooks::record(4, 0);
                    pool.shutdown();
                    hooks::record(5, 0);
                });
            }
            let hs: Vec<_> = disp
                .iter()
                .map(|frames| {
                    let pool = Arc::clone(&pool);
                    s.spawn(move || {
                        let last = frames.len() * rounds;
                        (0..rounds)
                            .flat_map(|_| frames.iter())
                            .enumerate()
                            .map(|(fi, f)| {
                                let t = hooks::tag(f);
                                if let Some(c) = clockv {
                                    crate::clock::set_ms(c[fi % c.len()]);
                                }
                                if record_calls {
                                    hooks::record(1, t);
                                }
                                let r = pool.dispatch(f.clone());
                                let q = matches!(r, DispatchResult::Queued);
                                if record_calls {
                                    hooks::record(if q { 2 } else { 3 }, t);
                                }
                                if gap_us > 0 && fi + 1 < last {
                                    std::thread::sleep(Duration::from_micros(gap_us));
                                }
                                if q { "queued" } else { "dropped" }
                            })
                            .collect::<Vec<_>>()
                    })
                })
                .collect();
            hs.into_iter().map(|h| h.join().unwrap()).collect()
        });
        if let Some(mode) = v["life"].as_str() {
            // life-cycle run (X03): shutdown() right after the last dispatch call returned ("after"); then wait until every worker
            // has left (the result channel disconnects when the last worker drops its sender)
            if mode != "during" {
                hooks::record(4, 0);
                pool.shutdown();
                hooks::record(5, 0);
            }
            let late: Vec<&'static str> = arr(&v["late"])
                .iter()
                .map(|f| {
                    let f = blob(f);
                    let t = hooks::tag(&f);
                    hooks::record(1, t);
                    let q = matches!(pool.dispatch(f), DispatchResult::Queued);
                    hooks::record(if q { 2 } else { 3 }, t);
                    if q { "queued" } else { "dropped" }
                })
                .collect();
            let mut results = vec![];
            let t0 = Instant::now();
            let mut exited = false;
            loop {
                match rx.recv_timeout(Duration::from_millis(50)) {
                    Ok(r) => results.push($project(&r)),
                    Err(std::sync::mpsc::RecvTimeoutError::Disconnected) => {
                        exited = true;
                        break;
                    }
                    Err(std::sync::mpsc::RecvTimeoutError::Timeout) => {
                        if t0.elapsed() > Duration::from_secs(10) {
                            break;
                        }
                    }
                }
            }
            hooks::record(6, 0);
            let events = hooks::take_events();
            let stats = pool.stats();
            hooks::set_perturbation(0);
            return_life!(outcomes, late, exited, events, stats, results)
        } else {
        let n_queued: usize = outcomes.iter().flatten().filter(|o| **o == "queued").count();
        // wait (generously) until every queued packet has been taken by a worker and the queues are empty
        let t0 = Instant::now();
        let mut events = vec![];
        let mut timed_out = false;
        let mut last_progress = (0usize, Instant::now());
        loop {
            events.extend(hooks::take_events());
            let taken = events.iter().filter(|e| e.kind == 0).count();
            let empty = pool.stats().workers.iter().all(|w| w.queue_size == 0);
            if taken >= n_queued && empty {
                break;
            }
            if taken != last_progress.0 {
                last_progress = (taken, Instant::now());
            }
            // the queues are empty and no worker has taken up a packet for 3 s (a packet takes microseconds): what is missing is lost
            if (empty && last_progress.1.elapsed() > Duration::from_secs(3)) || t0.elapsed() > Duration::from_secs(30) {
                timed_out = true;
                break;
            }
            std::thread::sleep(Duration::from_millis(2));
        }
        std::thread::sleep(Duration::from_millis(v["grace_ms"].as_u64().unwrap_or(30)));
        events.extend(hooks::take_events());
        let stats = pool.stats();
        let mut results = vec![];
        while let Ok(r) = rx.try_recv() {
            results.push($project(&r));
        }
        pool.shutdown();
        hooks::set_perturbation(0);
        json!({
            "outcomes": outcomes, "timed_out": timed_out,
            "events": events.iter().map(|e| json!({"seq": e.seq, "kind": e.kind, "w": e.worker, "tag": format!("{:016x}", e.tag)})).collect::<Vec<_>>(),
            "stats": {"dispatched": stats.total_dispatched, "dropped": stats.total_dropped,
                      "workers": stats.workers.iter().map(|w| json!({"id": w.id, "q": w.queue_size, "dropped": w.dropped})).collect::<Vec<_>>()},
            "results": results,
        })
        }
    }};
}


pub fn run(input: &mut dyn BufRead, out: &mut dyn Write, _args: &[String]) -> R {
    let db = Arc::new(huginn_net_db::Database::load_default().map_err(|e| e.to_string())?);
    crate::clock::set_ms(1_700_000_000_000);
    // after three runs in which queued packets were never taken up (a worker is gone), the rest of the batch is answered with "skipped"
    let mut lost = 0u32;
    for v in crate::lines(input) {
        let id = v["id"].clone();
        if lost >= 3 {
            writeln!(out, "{}", json!({"id": id, "skipped": "three earlier runs of this batch lost queued packets"})).map_err(|e| e.to_string())?;
            continue;
        }
        let (nw, qs, bs, to) = (v["workers"].as_u64().unwrap_or(1) as usize, v["queue"].as_u64().unwrap_or(1) as usize, v["batch"].as_u64().unwrap_or(1) as usize, v["timeout_ms"].as_u64().unwrap_or(5));
        let cap = v["cap"].as_u64().unwrap_or(1000) as usize;
        let with_db = v["matcher"].as_bool().unwrap_or(true);
        if v["op"].as_str() == Some("hash") {
            // dispatch hash of each frame for each worker count, in the three crates (C18 affinity)
            let ns: Vec<usize> = arr(&v["ns"]).iter().map(|n| u(n) as usize).collect();
            let rows: Vec<Value> = arr(&v["frames"])
                .iter()
                .map(|f| {
                    let b = blob(f);
                    match guarded(|| {
                        use pnet::packet::Packet;
                        // what each crate's own packet parser makes of the frame (null when it does not read it as TCP over IP):
                        // sender address, directed and undirected 4-tuple -- the identities the three pools key on
                        let ports = |pl: &[u8]| pnet::packet::tcp::TcpPacket::new(pl).map(|t| (t.get_source(), t.get_destination()));
                        let seen_tcp = match huginn_net_tcp::packet_parser::parse_packet(&b) {
                            huginn_net_tcp::packet_parser::IpPacket::Ipv4(p) if p.get_next_level_protocol().0 == 6 => Some(p.get_source().to_string()),
                            huginn_net_tcp::packet_parser::IpPacket::Ipv6(p) if p.get_next_header().0 == 6 => Some(p.get_source().to_string()),
                            _ => None,
                        };
                        let seen_http = match huginn_net_http::packet_parser::parse_packet(&b) {
                            huginn_net_http::packet_parser::IpPacket::Ipv4(p) if p.get_next_level_protocol().0 == 6 => ports(p.payload()).map(|(x, y)| (format!("{}|{}", p.get_source(), x), format!("{}|{}", p.get_destination(), y))),
                            huginn_net_http::packet_parser::IpPacket::Ipv6(p) if p.get_next_header().0 == 6 => ports(p.payload()).map(|(x, y)| (format!("{}|{}", p.get_source(), x), format!("{}|{}", p.get_destination(), y))),
                            _ => None,
                        };
                        let seen_tls = match huginn_net_tls::packet_parser::parse_packet(&b) {
                            huginn_net_tls::packet_parser::IpPacket::Ipv4(p) if p.get_next_level_protocol().0 == 6 => ports(p.payload()).map(|(x, y)| format!("{}|{}>{}|{}", p.get_source(), x, p.get_destination(), y)),
                            huginn_net_tls::packet_parser::IpPacket::Ipv6(p) if p.get_next_header().0 == 6 => ports(p.payload()).map(|(x, y)| format!("{}|{}>{}|{}", p.get_source(), x, p.get_destination(), y)),
                            _ => None,
                        };
                        let seen_http = seen_http.map(|(a, z)| if a <= z { format!("{a}~{z}") } else { format!("{z}~{a}") });
                        let t = huginn_net_tcp::packet_hash::hash_source_ip(&b);
                        json!({
                            "seen": {"tcp": seen_tcp, "http": seen_http, "tls": seen_tls},
                            "tcp": ns.iter().map(|n| t.checked_rem(*n).unwrap_or(0) as i64).collect::<Vec<_>>(),
                            "http": ns.iter().map(|n| huginn_net_http::packet_hash::hash_flow(&b, *n) as i64).collect::<Vec<_>>(),
                            "tls": ns.iter().map(|n| huginn_net_tls::packet_hash::hash_flow(&b, *n).map(|x| x as i64).unwrap_or(-1)).collect::<Vec<_>>(),
                        })
                    }) {
                        Ok(x) => x,
                        Err(e) => json!({"panic": e}),
                    }
                })
                .collect();
            writeln!(out, "{}", json!({"id": id, "rows": rows})).map_err(|e| e.to_string())?;
            continue;
        }
        let r = guarded(|| match v["crate"].as_str().unwrap() {
            "tcp" => {
                let f = v.get("filter").filter(|f| !f.is_null()).map(|f| crate::m_filter::tcp_filter(f));
                run_pool!(huginn_net_tcp, &v, |tx| huginn_net_tcp::WorkerPool::new(nw, qs, bs, to, tx, if with_db { Some(Arc::clone(&db)) } else { None }, cap, f.clone()).expect("pool"),
                          |r: &huginn_net_tcp::TcpAnalysisResult| crate::m_tcp::result_to(r))
            }
            "tcp_cfg" => {
                // the pool an application gets: HuginnNetTcp::with_config + init_pool + worker_pool()
                run_pool!(huginn_net_tcp, &v, |tx| {
                              let mut a = huginn_net_tcp::HuginnNetTcp::with_config(if with_db { Some(Arc::clone(&db)) } else { None }, cap, nw, qs, bs, to).expect("analyzer");
                              a.init_pool(tx).expect("pool");
                              ArcPool(a.worker_pool().expect("worker pool"))
                          },
                          |r: &huginn_net_tcp::TcpAnalysisResult| crate::m_tcp::result_to(r))
            }
            "http" => {
                let f = v.get("filter").filter(|f| !f.is_null()).map(|f| crate::m_filter::http_filter(f));
                run_pool!(huginn_net_http, &v, |tx| HttpPoolWrap(huginn_net_http::WorkerPool::new(nw, qs, bs, to, tx, if with_db { Some(Arc::clone(&db)) } else { None }, cap, f.clone()).expect("pool")),
                          |r: &huginn_net_http::HttpAnalysisResult| json!({"req": r.http_request.as_ref().map(|x| json!({"src": format!("{}|{}", x.source.ip, x.source.port), "dst": format!("{}|{}", x.destination.ip, x.destination.port), "sig": crate::m_http::req_to(&x.sig), "browser": x.browser_matched.browser.as_ref().map(|b| b.name.clone())})),
                                                                      "resp": r.http_response.as_ref().map(|x| json!({"src": format!("{}|{}", x.source.ip, x.source.port), "dst": format!("{}|{}", x.destination.ip, x.destination.port), "sig": crate::m_http::resp_to(&x.sig)}))}))
            }
            "tls" => {
                let f = v.get("filter").filter(|f| !f.is_null()).map(|f| crate::m_filter::tls_filter(f));
                run_pool!(huginn_net_tls, &v, |tx| huginn_net_tls::WorkerPool::new(nw, qs, bs, to, tx, cap, f.clone()).expect("pool"),
                          |r: &huginn_net_tls::TlsClientOutput| crate::m_tls::output_to(r))
            }
            c => panic!("crate {c}"),
        });
        let o = match r {
            Ok(mut x) => {
                x["id"] = id;
                x
            }
            Err(e) => json!({"id": id, "panic": e}),
        };
        if o["timed_out"].as_bool() == Some(true) {
            lost += 1;
        }
        writeln!(out, "{o}").map_err(|e| e.to_string())?;
    }
    Ok(())
}

/// huginn_net_http::WorkerPool::new returns Arc<WorkerPool>; give it the same surface as the other two
pub struct HttpPoolWrap(pub Arc<huginn_net_http::WorkerPool>);
impl HttpPoolWrap {
    pub fn dispatch(&self, p: Vec<u8>) -> huginn_net_http::DispatchResult {
        self.0.dispatch(p)
    }
    pub fn stats(&self) -> huginn_net_http::PoolStats {
        self.0.stats()
    }
    pub fn shutdown(&self) {
        self.0.shutdown()
    }
}

/// HuginnNetTcp::worker_pool() hands out Arc<WorkerPool>: the same surface as a pool built directly
pub struct ArcPool(pub Arc<huginn_net_tcp::WorkerPool>);
impl ArcPool {
    pub fn dispatch(&self, p: Vec<u8>) -> huginn_net_tcp::DispatchResult {
        self.0.dispatch(p)
    }
    pub fn stats(&self) -> huginn_net_tcp::PoolStats {
        self.0.stats()
    }
    pub fn shutdown(&self) {
        self.0.shutdown()
    }
}
