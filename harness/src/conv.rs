//! JSON <-> huginn-net-db value conversions (the record shapes of spec/P0fVocab.tla).
//! Pure (de)serialisation: no behaviour of the library is reproduced here.
use crate::util::*;
use huginn_net_db::db::Label;
use huginn_net_db::http::{self, Header};
use huginn_net_db::observable_signals::{HttpRequestObservation, HttpResponseObservation, TcpObservation};
use huginn_net_db::tcp::{self, IpVersion, PayloadSize, Quirk, TcpOption, Ttl, WindowSize};
use serde_json::{json, Value};

pub fn ttl_from(v: &Value) -> Ttl {
    let a = u(&v["a"]) as u8;
    match v["k"].as_str().unwrap() {
        "value" => Ttl::Value(a),
        "dist" => Ttl::Distance(a, u(&v["b"]) as u8),
        "guess" => Ttl::Guess(a),
        "bad" => Ttl::Bad(a),
        k => panic!("ttl kind {k}"),
    }
}
pub fn ttl_to(t: &Ttl) -> Value {
    match t {
        Ttl::Value(a) => json!({"k":"value","a":a,"b":0}),
        Ttl::Distance(a, b) => json!({"k":"dist","a":a,"b":b}),
        Ttl::Guess(a) => json!({"k":"guess","a":a,"b":0}),
        Ttl::Bad(a) => json!({"k":"bad","a":a,"b":0}),
    }
}
pub fn ws_from(v: &Value) -> WindowSize {
    let n = u(&v["n"]);
    match v["k"].as_str().unwrap() {
        "mss" => WindowSize::Mss(n as u8),
        "mtu" => WindowSize::Mtu(n as u8),
        "value" => WindowSize::Value(n as u16),
        "mod" => WindowSize::Mod(n as u16),
        "any" => WindowSize::Any,
        k => panic!("wsize kind {k}"),
    }
}
pub fn ws_to(w: &WindowSize) -> Value {
    match w {
        WindowSize::Mss(n) => json!({"k":"mss","n":n}),
        WindowSize::Mtu(n) => json!({"k":"mtu","n":n}),
        WindowSize::Value(n) => json!({"k":"value","n":n}),
        WindowSize::Mod(n) => json!({"k":"mod","n":n}),
        WindowSize::Any => json!({"k":"any","n":0}),
    }
}
pub fn opt_from(v: &Value) -> TcpOption {
    match v["k"].as_str().unwrap() {
        "eol" => TcpOption::Eol(u(&v["n"]) as u8),
        "nop" => TcpOption::Nop,
        "mss" => TcpOption::Mss,
        "ws" => TcpOption::Ws,
        "sok" => TcpOption::Sok,
        "sack" => TcpOption::Sack,
        "ts" => TcpOption::TS,
        "unk" => TcpOption::Unknown(u(&v["n"]) as u8),
        k => panic!("option kind {k}"),
    }
}
pub fn opt_to(o: &TcpOption) -> Value {
    match o {
        TcpOption::Eol(n) => json!({"k":"eol","n":n}),
        TcpOption::Nop => json!({"k":"nop","n":0}),
        TcpOption::Mss => json!({"k":"mss","n":0}),
        TcpOption::Ws => json!({"k":"ws","n":0}),
        TcpOption::Sok => json!({"k":"sok","n":0}),
        TcpOption::Sack => json!({"k":"sack","n":0}),
        TcpOption::TS => json!({"k":"ts","n":0}),
        TcpOption::Unknown(n) => json!({"k":"unk","n":n}),
    }
}
const QUIRKS: [(&str, Quirk); 17] = [
    ("df", Quirk::Df),
    ("id+", Quirk::NonZeroID),
    ("id-", Quirk::ZeroID),
    ("ecn", Quirk::Ecn),
    ("0+", Quirk::MustBeZero),
    ("flow", Quirk::FlowID),
    ("seq-", Quirk::SeqNumZero),
    ("ack+", Quirk::AckNumNonZero),
    ("ack-", Quirk::AckNumZero),
    ("uptr+", Quirk::NonZeroURG),
    ("urgf+", Quirk::Urg),
    ("pushf+", Quirk::Push),
    ("ts1-", Quirk::OwnTimestampZero),
    ("ts2+", Quirk::PeerTimestampNonZero),
    ("opt+", Quirk::TrailinigNonZero),
    ("exws", Quirk::ExcessiveWindowScaling),
    ("bad", Quirk::OptBad),
];
pub fn quirk_from(v: &Value) -> Quirk {
    let s = v.as_str().unwrap();
    QUIRKS.iter().find(|(n, _)| *n == s).unwrap_or_else(|| panic!("quirk {s}")).1.clone()
}
pub fn quirk_to(q: &Quirk) -> Value {
    json!(QUIRKS.iter().find(|(_, x)| x == q).unwrap().0)
}
pub fn ver_from(v: &Value) -> IpVersion {
    match v.as_str().unwrap() {
        "4" => IpVersion::V4,
        "6" => IpVersion::V6,
        _ => IpVersion::Any,
    }
}
pub fn ver_to(v: &IpVersion) -> Value {
    json!(match v {
        IpVersion::V4 => "4",
        IpVersion::V6 => "6",
        IpVersion::Any => "*",
    })
}
pub fn pc_from(v: &Value) -> PayloadSize {
    match v.as_str().unwrap() {
        "0" => PayloadSize::Zero,
        "+" => PayloadSize::NonZero,
        _ => PayloadSize::Any,
    }
}
pub fn pc_to(v: &PayloadSize) -> Value {
    json!(match v {
        PayloadSize::Zero => "0",
        PayloadSize::NonZero => "+",
        PayloadSize::Any => "*",
    })
}
fn optnum(v: &Value) -> Option<u64> {
    let n = v.as_i64().unwrap();
    if n < 0 {
        None
    } else {
        Some(n as u64)
    }
}
pub fn tcp_sig_from(v: &Value) -> tcp::Signature {
    tcp::Signature {
        version: ver_from(&v["ver"]),
        ittl: ttl_from(&v["ittl"]),
        olen: u(&v["olen"]) as u8,
        mss: optnum(&v["mss"]).map(|x| x as u16),
        wsize: ws_from(&v["wsize"]),
        wscale: optnum(&v["wscale"]).map(|x| x as u8),
        olayout: arr(&v["olayout"]).iter().map(opt_from).collect(),
        quirks: arr(&v["quirks"]).iter().map(quirk_from).collect(),
        pclass: pc_from(&v["pclass"]),
    }
}
pub fn tcp_sig_to(s: &tcp::Signature) -> Value {
    json!({
        "ver": ver_to(&s.version), "ittl": ttl_to(&s.ittl), "olen": s.olen,
        "mss": s.mss.map(|x| x as i64).unwrap_or(-1), "wsize": ws_to(&s.wsize),
        "wscale": s.wscale.map(|x| x as i64).unwrap_or(-1),
        "olayout": s.olayout.iter().map(opt_to).collect::<Vec<_>>(),
        "quirks": s.quirks.iter().map(quirk_to).collect::<Vec<_>>(),
        "pclass": pc_to(&s.pclass),
    })
}
pub fn tcp_obs_from(v: &Value) -> TcpObservation {
    let s = tcp_sig_from(v);
    TcpObservation {
        version: s.version,
        ittl: s.ittl,
        olen: s.olen,
        mss: s.mss,
        wsize: s.wsize,
        wscale: s.wscale,
        olayout: s.olayout,
        quirks: s.quirks,
        pclass: s.pclass,
    }
}
pub fn tcp_obs_to(s: &TcpObservation) -> Value {
    json!({
        "ver": ver_to(&s.version), "ittl": ttl_to(&s.ittl), "olen": s.olen,
        "mss": s.mss.map(|x| x as i64).unwrap_or(-1), "wsize": ws_to(&s.wsize),
        "wscale": s.wscale.map(|x| x as i64).unwrap_or(-1),
        "olayout": s.olayout.iter().map(opt_to).collect::<Vec<_>>(),
        "quirks": s.quirks.iter().map(quirk_to).collect::<Vec<_>>(),
        "pclass": pc_to(&s.pclass),
    })
}
pub fn hver_from(v: &Value) -> http::Version {
    match v.as_str().unwrap() {
        "0" => http::Version::V10,
        "1" => http::Version::V11,
        "2" => http::Version::V20,
        "3" => http::Version::V30,
        _ => http::Version::Any,
    }
}
pub fn hver_to(v: &http::Version) -> Value {
    json!(match v {
        http::Version::V10 => "0",
        http::Version::V11 => "1",
        http::Version::V20 => "2",
        http::Version::V30 => "3",
        http::Version::Any => "*",
    })
}
pub fn header_from(v: &Value) -> Header {
    Header {
        optional: v["opt"].as_bool().unwrap(),
        name: v["name"].as_str().unwrap().to_string(),
        value: arr(&v["val"]).first().map(|x| x.as_str().unwrap().to_string()),
    }
}
pub fn header_to(h: &Header) -> Value {
    json!({"opt": h.optional, "name": h.name, "val": h.value.iter().collect::<Vec<_>>()})
}
pub fn http_sig_from(v: &Value) -> http::Signature {
    http::Signature {
        version: hver_from(&v["ver"]),
        horder: arr(&v["horder"]).iter().map(header_from).collect(),
        habsent: arr(&v["habsent"]).iter().map(header_from).collect(),
        expsw: v["sw"].as_str().unwrap().to_string(),
    }
}
pub fn http_sig_to(s: &http::Signature) -> Value {
    json!({"ver": hver_to(&s.version), "horder": s.horder.iter().map(header_to).collect::<Vec<_>>(),
           "habsent": s.habsent.iter().map(header_to).collect::<Vec<_>>(), "sw": s.expsw})
}
pub fn http_req_obs_from(v: &Value) -> HttpRequestObservation {
    let s = http_sig_from(v);
    HttpRequestObservation { version: s.version, horder: s.horder, habsent: s.habsent, expsw: s.expsw }
}
pub fn http_resp_obs_from(v: &Value) -> HttpResponseObservation {
    let s = http_sig_from(v);
    HttpResponseObservation { version: s.version, horder: s.horder, habsent: s.habsent, expsw: s.expsw }
}
pub fn label_to(l: &Label) -> Value {
    json!({"ty": match l.ty { huginn_net_db::Type::Specified => "s", huginn_net_db::Type::Generic => "g" },
           "class": l.class.iter().collect::<Vec<_>>(), "name": l.name, "flavor": l.flavor.iter().collect::<Vec<_>>()})
}
