//! Counting global allocator (C11): bytes currently live and bytes allocated in total, process-wide.
use std::alloc::{GlobalAlloc, Layout, System};
use std::sync::atomic::{AtomicUsize, Ordering};

pub struct Counting;
static LIVE: AtomicUsize = AtomicUsize::new(0);
static TOTAL: AtomicUsize = AtomicUsize::new(0);

unsafe impl GlobalAlloc for Counting {
    unsafe fn alloc(&self, l: Layout) -> *mut u8 {
        let p = System.alloc(l);
        if !p.is_null() {
            LIVE.fetch_add(l.size(), Ordering::Relaxed);
            TOTAL.fetch_add(l.size(), Ordering::Relaxed);
        }
        p
    }
    unsafe fn dealloc(&self, p: *mut u8, l: Layout) {
        System.dealloc(p, l);
        LIVE.fetch_sub(l.size(), Ordering::Relaxed);
    }
    unsafe fn realloc(&self, p: *mut u8, l: Layout, new_size: usize) -> *mut u8 {
        let q = System.realloc(p, l, new_size);
        if !q.is_null() {
            if new_size >= l.size() {
                LIVE.fetch_add(new_size - l.size(), Ordering::Relaxed);
                TOTAL.fetch_add(new_size - l.size(), Ordering::Relaxed);
            } else {
                LIVE.fetch_sub(l.size() - new_size, Ordering::Relaxed);
            }
        }
        q
    }
}

#[global_allocator]
static GLOBAL: Counting = Counting;

pub fn live() -> usize {
    LIVE.load(Ordering::Relaxed)
}
pub fn total() -> usize {
    TOTAL.load(Ordering::Relaxed)
}
