use serde_json::Value;
use std::net::{IpAddr, Ipv4Addr, Ipv6Addr};

pub fn u(v: &Value) -> u64 {
    v.as_u64().unwrap_or_else(|| panic!("expected unsigned int, got {v}"))
}
pub fn arr(v: &Value) -> &Vec<Value> {
    v.as_array().unwrap_or_else(|| panic!("expected array, got {v}"))
}
pub fn bytes(v: &Value) -> Vec<u8> {
    arr(v).iter().map(|x| u(x) as u8).collect()
}
pub fn hex(s: &str) -> Vec<u8> {
    (0..s.len() / 2).map(|i| u8::from_str_radix(&s[2 * i..2 * i + 2], 16).unwrap()).collect()
}
pub fn tohex(b: &[u8]) -> String {
    b.iter().map(|x| format!("{x:02x}")).collect()
}
/// address record of the specs: {"v":4|6,"b":[bytes]}
pub fn addr(v: &Value) -> IpAddr {
    let b = bytes(&v["b"]);
    if u(&v["v"]) == 4 {
        IpAddr::V4(Ipv4Addr::new(b[0], b[1], b[2], b[3]))
    } else {
        let mut a = [0u8; 16];
        a.copy_from_slice(&b);
        IpAddr::V6(Ipv6Addr::from(a))
    }
}
/// run f, mapping a panic to Err(message)
pub fn guarded<T>(f: impl FnOnce() -> T) -> Result<T, String> {
    std::panic::catch_unwind(std::panic::AssertUnwindSafe(f)).map_err(|e| {
        if let Some(s) = e.downcast_ref::<&str>() {
            s.to_string()
        } else if let Some(s) = e.downcast_ref::<String>() {
            s.clone()
        } else {
            "panic".to_string()
        }
    })
}
