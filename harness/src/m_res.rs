//! C11: memory retained by an analyzer and bytes allocated per packet, measured with the counting allocator while long
//! connections (described compactly by the driver, rendered to frames here) are fed packet by packet.
use crate::util::*;
use crate::R;
use serde_json::{json, Value};
use std::io::{BufRead, Write};
use ttl_cache::TtlCache;

pub fn frame(src: [u8; 4], dst: [u8; 4], sport: u16, dport: u16, seq: u32, flags: u8, payload: &[u8], ipid: u16) -> Vec<u8> {
    frame_opts(src, dst, sport, dport, seq, flags, &[], payload, ipid)
}

/// TCP timestamp option (NOP NOP TS) for data segments, or the usual SYN option block (mss, sok, ts, nop, ws) when `syn`
fn ts_opts(syn: bool, val: u32) -> Vec<u8> {
    let mut o = if syn { vec![2, 4, 5, 0xb4, 4, 2, 8, 10] } else { vec![1, 1, 8, 10] };
    o.extend_from_slice(&val.to_be_bytes());
    o.extend_from_slice(&[0, 0, 0, 0]);
    if syn {
        o.extend_from_slice(&[1, 3, 3, 7]);
    }
    o
}

fn frame_opts(src: [u8; 4], dst: [u8; 4], sport: u16, dport: u16, seq: u32, flags: u8, opts: &[u8], payload: &[u8], ipid: u16) -> Vec<u8> {
    let mut tcp = vec![(sport >> 8) as u8, sport as u8, (dport >> 8) as u8, dport as u8];
    tcp.extend_from_slice(&seq.to_be_bytes());
    tcp.extend_from_slice(&1u32.to_be_bytes());
    tcp.extend_from_slice(&[((5 + opts.len() / 4) as u8) << 4, flags, 0xff, 0xff, 0, 0, 0, 0]);
    tcp.extend_from_slice(opts);
    tcp.extend_from_slice(payload);
    let total = (20 + tcp.len()) as u16;
    let mut f = vec![2, 0, 0, 0, 0, 2, 2, 0, 0, 0, 0, 1, 8, 0, 0x45, 0, (total >> 8) as u8, total as u8, (ipid >> 8) as u8, ipid as u8, 0x40, 0, 64, 6, 0, 0];
    f.extend_from_slice(&src);
    f.extend_from_slice(&dst);
    f.extend_from_slice(&tcp);
    f
}

/// payload of segment i of a connection of the given kind
const MARK: &str = "@#@#@#@#";

/// every marker of a payload replaced by eight hexadecimal digits that name the connection and the segment
fn personalise(p: &[u8], c: usize, i: usize) -> Vec<u8> {
    let m = MARK.as_bytes();
    if p.len() < m.len() || !p.windows(m.len()).any(|w| w == m) {
        return p.to_vec();
    }
    let tag = format!("{:05x}{:03x}", c & 0xfffff, i & 0xfff);
    let mut out = Vec::with_capacity(p.len());
    let mut k = 0;
    while k < p.len() {
        if p[k..].starts_with(m) {
            out.extend_from_slice(tag.as_bytes());
            k += m.len();
        } else {
            out.push(p[k]);
            k += 1;
        }
    }
    out
}

fn payload(kind: &str, i: usize, len: usize, x: &mut u64) -> Vec<u8> {
    let mut rnd = || {
        *x ^= *x << 13;
        *x ^= *x >> 7;
        *x ^= *x << 17;
        *x
    };
    match kind {
        // an HTTP-looking head that never completes: request line, then header lines forever
        "http_nohead" => {
            let mut s = if i == 0 { b"GET /index.html HTTP/1.1\r\nHost: example.com\r\n".to_vec() } else { vec![] };
            while s.len() < len {
                s.extend_from_slice(format!("X-Filler-{}: {}\r\n", i, "v".repeat(40)).as_bytes());
            }
            s.truncate(len);
            s
        }
        // TLS application data records
        "tls_appdata" => {
            let mut s = vec![0x17, 3, 3, ((len - 5) >> 8) as u8, (len - 5) as u8];
            s.extend((0..len - 5).map(|_| rnd() as u8));
            s
        }
        // a handshake record that is not a ClientHello (ServerHello-like), then application data
        "tls_srvhello_then_data" => {
            if i == 0 {
                let mut s = vec![0x16, 3, 3, 0, 42, 2, 0, 0, 38, 3, 3];
                s.extend(0..32u8);
                s.extend_from_slice(&[0, 0x13, 0x01, 0]);
                s
            } else {
                let mut s = vec![0x17, 3, 3, ((len - 5) >> 8) as u8, (len - 5) as u8];
                s.extend((0..len - 5).map(|_| rnd() as u8));
                s
            }
        }
        // a ClientHello header that announces 65535 bytes which then arrive
        "tls_huge_declared" => {
            if i == 0 {
                let mut s = vec![0x16, 3, 1, 0xff, 0xff, 1, 0, 0xff, 0xfb];
                s.extend((0..len - 9).map(|_| rnd() as u8));
                s
            } else {
                (0..len).map(|_| rnd() as u8).collect()
            }
        }
        "random" => (0..len).map(|_| rnd() as u8).collect(),
        // a complete request followed by an endless body
        "http_ok_then_body" => {
            if i == 0 {
                let mut s = b"POST /upload HTTP/1.1\r\nHost: example.com\r\nUser-Agent: up/1.0\r\nContent-Length: 999999999\r\n\r\n".to_vec();
                s.resize(len.max(s.len()), b'b');
                s
            } else {
                vec![b'b'; len]
            }
        }
        // HTTP/2 DATA frames on stream 1 (after a connection start supplied as `hex`)
        "h2_data" => {
            let n = len - 9;
            let mut s = vec![(n >> 16) as u8, (n >> 8) as u8, n as u8, 0, 0, 0, 0, 0, 1];
            s.extend((0..n).map(|_| rnd() as u8));
            s
        }
        // small complete HEADERS frames (indexed fields only) on ever new streams, packed into the segment
        "h2_headers" => {
            let mut s = vec![];
            let mut k = 0u32;
            while s.len() + 13 <= len {
                let st = (2 * (i as u32 * 200 + k) + 1) & 0x7fff_ffff;
                s.extend_from_slice(&[0, 0, 4, 1, 5, (st >> 24) as u8, (st >> 16) as u8, (st >> 8) as u8, st as u8, 0x82, 0x86, 0x84, 0x41 & 0x7f]);
                k += 1;
            }
            s
        }
        // a complete request / response head in one segment whose values are different on every connection and in every segment: the
        // eight-character marker is replaced per (connection, segment) when the packet is built
        "http_unique_req" => format!(
            "GET /u/{m} HTTP/1.1\r\nHost: h{m}.example\r\nUser-Agent: agent-{m}/1.0 (X11; {m})\r\nAccept: text/{m}\r\nAccept-Language: x-{m};q=0.9, en-{m};q=0.8, {}\r\nCookie: id={m}; s{m}=1\r\nReferer: http://r.example/{m}\r\nX-{m}: {m}\r\n\r\n",
            (0..24).map(|k| format!("l{k}-{m};q=0.{k}", m = MARK)).collect::<Vec<_>>().join(", "),
            m = MARK
        )
        .into_bytes(),
        "http_unique_resp" => format!("HTTP/1.1 200 OK\r\nServer: srv-{m}\r\nContent-Type: text/{m}\r\nSet-Cookie: id={m}\r\nX-{m}: {m}\r\nContent-Length: 0\r\n\r\n", m = MARK).into_bytes(),
        "bytes_b" => vec![b'b'; len],
        "zeros" => vec![0u8; len],
        k => panic!("kind {k}"),
    }
}

struct Step {
    server: bool,
    hex: Option<Vec<u8>>,
    kind: String,
    n: usize,
    len: usize,
    retx: bool,
}

pub fn run(input: &mut dyn BufRead, out: &mut dyn Write, _args: &[String]) -> R {
    crate::clock::set_ms(1_700_000_000_000);
    for v in crate::lines(input) {
        let id = v["id"].clone();
        let krate = v["crate"].as_str().unwrap().to_string();
        let kind = v["kind"].as_str().unwrap().to_string();
        let (nseg, len, cap, nconn) = (u(&v["n"]) as usize, u(&v["len"]) as usize, u(&v["cap"]) as usize, v["conns"].as_u64().unwrap_or(1) as usize);
        let dir_server = v["server"].as_bool().unwrap_or(false);
        let stop_retained = v["stop_retained"].as_u64().unwrap_or(u64::MAX) as usize;
        let stop_alloc = v["stop_alloc"].as_u64().unwrap_or(u64::MAX) as usize;
        // every segment carries a TCP timestamp (the SYN and the SYN+ACK the usual option block): the TCP tracker gets something to store
        let with_ts = v["timestamps"].as_bool().unwrap_or(false);
        let r = guarded(|| -> Value {
            let seed = 0x9e37_79b9_7f4a_7c15u64 ^ (u(&v["seed"]) + 1);
            // analyzers' per-instance state, exactly the tables the crates' front ends own
            let mut tracker: TtlCache<huginn_net_tcp::ConnectionKey, huginn_net_tcp::TcpTimestamp> = TtlCache::new(cap);
            let mut flows: TtlCache<huginn_net_http::http_process::FlowKey, huginn_net_http::http_process::TcpFlow> = TtlCache::new(cap);
            let procs = huginn_net_http::http_process::HttpProcessors::new();
            let mut tls: TtlCache<huginn_net_tls::FlowKey, huginn_net_tls::tls_client_hello_reader::TlsClientHelloReader> = TtlCache::new(cap);
            let db = huginn_net_db::Database::load_default().expect("db");
            let mut uni = huginn_net::HuginnNet::new(Some(&db), cap, None).expect("unified");
            // the script: the old single-kind form, or an explicit list of steps (direction, fixed payload or generated kind,
            // repetitions, retransmission = the sequence number does not advance)
            let steps: Vec<Step> = match v.get("script") {
                Some(sc) if sc.is_array() => arr(sc)
                    .iter()
                    .map(|st| Step {
                        server: st["dir"].as_str() == Some("s"),
                        hex: st.get("hex").and_then(|h| h.as_str()).map(hex),
                        kind: st.get("kind").and_then(|k| k.as_str()).unwrap_or("").to_string(),
                        n: st["n"].as_u64().unwrap_or(1) as usize,
                        len: st["len"].as_u64().unwrap_or(len as u64) as usize,
                        retx: st["retx"].as_bool().unwrap_or(false),
                    })
                    .collect(),
                _ => vec![Step { server: dir_server, hex: None, kind: kind.clone(), n: nseg, len, retx: false }],
            };
            let base_live = crate::alloc_count::live();
            let mut events: Vec<Value> = vec![];
            let mut maxima = (0usize, 0usize);
            let t0 = std::time::Instant::now();
            let sp = if krate == "tls" || kind.starts_with("tls") || v["port"].as_u64() == Some(443) { 443 } else { 80 };
            let mut idx = 0usize;
            let (mut cseq, mut sseq) = (1001u32, 5001u32);
            // packet 0: the SYN of every connection (with timestamps: followed by the SYN+ACK)
            let mut plan: Vec<(bool, Vec<u8>, u32, u8)> = vec![(false, vec![], 1000, 0x02)];
            if with_ts {
                plan.push((true, vec![], 5000, 0x12));
            }
            let mut gen_seed = seed;
            let total_steps: usize = steps.iter().map(|s| s.n).sum();
            // what the harness itself keeps (the recorded events) is not the analyzer's: measured around every push and subtracted
            let mut own = 0usize;
            // "serial": one connection after the other, each from its SYN to its last segment (otherwise segment k of every connection
            // precedes segment k+1 of any)
            let serial = v["serial"].as_bool().unwrap_or(false);
            let mut conn_range = (0usize, nconn);
            let mut feed = |plan: &mut Vec<(bool, Vec<u8>, u32, u8)>, events: &mut Vec<Value>, maxima: &mut (usize, usize), idx: &mut usize, conn_range: (usize, usize)| -> bool {
                for (server, p, seq, flags) in plan.drain(..) {
                    let i = *idx;
                    for c in conn_range.0..conn_range.1 {
                        let (cip, sip) = ([10, 70, (c >> 8) as u8, c as u8], [10, 80, 0, 1]);
                        let cp = 20000 + (c % 40000) as u16;
                        let opts = if with_ts { ts_opts(flags & 0x02 != 0, 100_000 + (c as u32) * 7 + (i as u32)) } else { vec![] };
                        let p = personalise(&p, c, i);
                        let f = if server { frame_opts(sip, cip, sp, cp, seq, flags, &opts, &p, (i * nconn + c) as u16) } else { frame_opts(cip, sip, cp, sp, seq, flags, &opts, &p, (i * nconn + c) as u16) };
                        let flen = f.len();
                        let before_total = crate::alloc_count::total();
                        match krate.as_str() {
                            "tcp" => {
                                let _ = crate::m_tcp::one(&f, &mut tracker, None);
                            }
                            "http" => {
                                let _ = crate::m_http::packet(&f, &mut flows, &procs);
                            }
                            "tls" => {
                                let _ = crate::m_tls::packet(&f, &mut tls);
                            }
                            "uni" => {
                                let _ = uni.analyze_tcp(&f);
                            }
                            k => panic!("crate {k}"),
                        }
                        let allocated = crate::alloc_count::total() - before_total;
                        let retained = crate::alloc_count::live().saturating_sub(base_live).saturating_sub(own);
                        *maxima = (maxima.0.max(retained), maxima.1.max(allocated));
                        // every event is recorded up to 64 segments, then at exponentially spaced indices and whenever a bound is exceeded
                        let over = retained > stop_retained || allocated > stop_alloc;
                        if i <= 64 || (i & (i - 1)) == 0 || i == total_steps || over {
                            let l0 = crate::alloc_count::live();
                            events.push(json!({"conn": c, "idx": i, "len": flen, "retained": retained, "allocated": allocated}));
                            own += crate::alloc_count::live().saturating_sub(l0);
                        }
                        if over {
                            return false; // the excess is the finding; continuing would only burn time
                        }
                    }
                    *idx += 1;
                }
                true
            };
            if serial {
                // the whole plan of a connection first, then connection after connection
                for st in &steps {
                    for k in 0..st.n {
                        let p = match &st.hex {
                            Some(h) => h.clone(),
                            None => payload(&st.kind, k, st.len, &mut gen_seed),
                        };
                        let seq = if st.server { sseq } else { cseq };
                        if !st.retx {
                            if st.server {
                                sseq = sseq.wrapping_add(p.len() as u32);
                            } else {
                                cseq = cseq.wrapping_add(p.len() as u32);
                            }
                        }
                        plan.push((st.server, p, seq, 0x18));
                    }
                }
                let full = plan.clone();
                for c in 0..nconn {
                    conn_range = (c, c + 1);
                    let mut pl = full.clone();
                    idx = 0;
                    if !feed(&mut pl, &mut events, &mut maxima, &mut idx, conn_range) {
                        break;
                    }
                }
                return json!({"events": events, "max_retained": maxima.0, "max_allocated": maxima.1, "wall_ms": t0.elapsed().as_millis() as u64});
            }
            let mut go = feed(&mut plan, &mut events, &mut maxima, &mut idx, conn_range);
            'outer: for st in &steps {
                for k in 0..st.n {
                    if !go {
                        break 'outer;
                    }
                    let p = match &st.hex {
                        Some(h) => h.clone(),
                        None => payload(&st.kind, k, st.len, &mut gen_seed),
                    };
                    let seq = if st.server { sseq } else { cseq };
                    if !st.retx {
                        if st.server {
                            sseq = sseq.wrapping_add(p.len() as u32);
                        } else {
                            cseq = cseq.wrapping_add(p.len() as u32);
                        }
                    }
                    plan.push((st.server, p, seq, 0x18));
                    go = feed(&mut plan, &mut events, &mut maxima, &mut idx, conn_range);
                }
            }
            let _ = seed;
            json!({"events": events, "max_retained": maxima.0, "max_allocated": maxima.1, "wall_ms": t0.elapsed().as_millis() as u64})
        });
        let o = match r {
            Ok(mut x) => {
                x["id"] = id;
                x
            }
            Err(e) => json!({"id": id, "panic": e}),
        };
        writeln!(out, "{o}").map_err(|e| e.to_string())?;
    }
    Ok(())
}
