//! TLS entry points (C04, C08): parse_tls_client_hello, TlsClientHelloReader::add_bytes, and the packet-level
//! path (packet_parser::parse_packet + process_ipv4/6_packet on a flow table).
use crate::util::*;
use crate::R;
use huginn_net_tls::packet_parser::{parse_packet, IpPacket};
use huginn_net_tls::tls::{Ja4Payload, Signature};
use huginn_net_tls::tls_client_hello_reader::TlsClientHelloReader;
use huginn_net_tls::tls_process::parse_tls_client_hello;
use huginn_net_tls::{process_ipv4_packet, process_ipv6_packet, FlowKey, ObservableTlsClient, TlsClientOutput};
use serde_json::{json, Value};
use std::io::{BufRead, Write};
use ttl_cache::TtlCache;

fn ja4_to(p: &Ja4Payload) -> Value {
    json!({"a": p.ja4_a, "b": p.ja4_b, "c": p.ja4_c, "full": p.full.value(), "raw": p.raw.value(), "fullname": p.full.variant_name(), "rawname": p.raw.variant_name()})
}
pub fn sig_to(s: &Signature) -> Value {
    json!({"ja4": ja4_to(&s.generate_ja4()), "ja4o": ja4_to(&s.generate_ja4_original()), "ver": s.version.to_string(), "sni": s.sni, "alpn": s.alpn,
           "ciphers": s.cipher_suites, "exts": s.extensions, "sigalgs": s.signature_algorithms, "groups": s.elliptic_curves})
}
pub fn client_to(s: &ObservableTlsClient) -> Value {
    json!({"ja4": ja4_to(&s.ja4), "ja4o": ja4_to(&s.ja4_original), "ver": s.version.to_string(), "sni": s.sni, "alpn": s.alpn,
           "ciphers": s.cipher_suites, "exts": s.extensions, "sigalgs": s.signature_algorithms, "groups": s.elliptic_curves})
}
pub fn output_to(o: &TlsClientOutput) -> Value {
    json!({"src": format!("{}|{}", o.source.ip, o.source.port), "dst": format!("{}|{}", o.destination.ip, o.destination.port), "sig": client_to(&o.sig), "line": o.to_string()})
}

pub fn packet(frame: &[u8], flows: &mut TtlCache<FlowKey, TlsClientHelloReader>) -> Value {
    match guarded(|| match parse_packet(frame) {
        IpPacket::Ipv4(p) => match process_ipv4_packet(&p, flows) {
            Ok(Some(o)) => json!({"r": "some", "out": output_to(&o)}),
            Ok(None) => json!({"r": "none"}),
            Err(e) => json!({"r": "err", "e": e.to_string()}),
        },
        IpPacket::Ipv6(p) => match process_ipv6_packet(&p, flows) {
            Ok(Some(o)) => json!({"r": "some", "out": output_to(&o)}),
            Ok(None) => json!({"r": "none"}),
            Err(e) => json!({"r": "err", "e": e.to_string()}),
        },
        IpPacket::None => json!({"r": "noip"}),
    }) {
        Ok(v) => v,
        Err(p) => json!({"r": "panic", "e": p}),
    }
}

fn blob(v: &Value) -> Vec<u8> {
    if v.is_string() {
        hex(v.as_str().unwrap())
    } else {
        bytes(v)
    }
}

pub fn run(input: &mut dyn BufRead, out: &mut dyn Write, _args: &[String]) -> R {
    for v in crate::lines(input) {
        let id = v["id"].clone();
        let o = match v["op"].as_str().unwrap_or("") {
            "hello" => {
                let b = blob(&v["bytes"]);
                match guarded(|| parse_tls_client_hello(&b)) {
                    Ok(Ok(Some(s))) => json!({"id": id, "r": "some", "sig": sig_to(&s)}),
                    Ok(Ok(None)) => json!({"id": id, "r": "none"}),
                    Ok(Err(e)) => json!({"id": id, "r": "err", "e": e.to_string()}),
                    Err(p) => json!({"id": id, "r": "panic", "e": p}),
                }
            }
            "reader" => {
                let mut rd = TlsClientHelloReader::new();
                let res: Vec<Value> = arr(&v["chunks"])
                    .iter()
                    .map(|c| {
                        let b = blob(c);
                        match guarded(|| rd.add_bytes(&b)) {
                            Ok(Ok(Some(s))) => json!({"r": "some", "sig": sig_to(&s), "buf": rd.buffer_len()}),
                            Ok(Ok(None)) => json!({"r": "none", "buf": rd.buffer_len()}),
                            Ok(Err(e)) => json!({"r": "err", "e": e.to_string(), "buf": rd.buffer_len()}),
                            Err(p) => json!({"r": "panic", "e": p}),
                        }
                    })
                    .collect();
                json!({"id": id, "out": res})
            }
            "packets" => {
                let cap = v["cap"].as_u64().unwrap_or(1000) as usize;
                let mut flows: TtlCache<FlowKey, TlsClientHelloReader> = TtlCache::new(cap);
                let res: Vec<Value> = arr(&v["frames"]).iter().map(|f| packet(&blob(f), &mut flows)).collect();
                json!({"id": id, "out": res})
            }
            // the one-packet front end (process_tls_ipv4 / process_tls_ipv6), which the unified analyzer uses
            "stateless" => {
                let res: Vec<Value> = arr(&v["frames"])
                    .iter()
                    .map(|f| {
                        let b = blob(f);
                        let pk = |o: Result<huginn_net_tls::ObservableTlsPackage, huginn_net_tls::HuginnNetTlsError>| match o {
                            Ok(p) => match p.tls_client.as_ref() {
                                Some(c) => json!({"r": "some", "out": {"sig": client_to(c)}}),
                                None => json!({"r": "none"}),
                            },
                            Err(e) => json!({"r": "err", "e": e.to_string()}),
                        };
                        match guarded(|| match parse_packet(&b) {
                            IpPacket::Ipv4(p) => pk(huginn_net_tls::process_tls_ipv4(&p)),
                            IpPacket::Ipv6(p) => pk(huginn_net_tls::process_tls_ipv6(&p)),
                            IpPacket::None => json!({"r": "noip"}),
                        }) {
                            Ok(v) => v,
                            Err(p) => json!({"r": "panic", "e": p}),
                        }
                    })
                    .collect();
                json!({"id": id, "out": res})
            }
            o => return Err(format!("unknown op {o}")),
        };
        writeln!(out, "{o}").map_err(|e| e.to_string())?;
    }
    Ok(())
}
