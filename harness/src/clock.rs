//! hook H1: the frozen / scripted clock of huginn-net-tcp's timestamp tracker
pub fn set_ms(ms: u64) {
    huginn_net_tcp::uptime::verif_clock::set(Some(ms));
}
#[allow(dead_code)]
pub fn system() {
    huginn_net_tcp::uptime::verif_clock::set(None);
}
