//! C14: FilterConfig::should_process of the tcp / http / tls crates (the unified
//! crate re-exports the tcp one) over the endpoint universe, per configuration.
use crate::util::*;
use crate::R;
use serde_json::{json, Value};
use std::io::{BufRead, Write};
use std::net::IpAddr;

macro_rules! build_cfg {
    ($krate:ident, $cfg:expr) => {{
        use $krate::{FilterConfig, FilterMode, IpFilter, PortFilter, SubnetFilter};
        let cfg: &Value = $cfg;
        let via = cfg["via"].as_u64().unwrap_or(0);
        let mut fc = FilterConfig::new();
        fc = fc.mode(if cfg["deny"].as_bool().unwrap() { FilterMode::Deny } else { FilterMode::Allow });
        if let Some(p) = arr(&cfg["port"]).first() {
            let mut pf = PortFilter::new();
            let sp: Vec<u16> = arr(&p["sp"]).iter().map(|x| u(x) as u16).collect();
            let dp: Vec<u16> = arr(&p["dp"]).iter().map(|x| u(x) as u16).collect();
            // alternate between the single-port and list builders
            if sp.len() == 1 { pf = pf.source(sp[0]); } else if !sp.is_empty() { pf = pf.source_list(sp); }
            if dp.len() == 1 { pf = pf.destination(dp[0]); } else if !dp.is_empty() { pf = pf.destination_list(dp); }
            for r in arr(&p["sr"]) {
                let (lo, hi) = (u(&r["lo"]) as u16, u(&r["hi"]) as u16);
                if r["incl"].as_bool().unwrap() { pf.source_ranges.push((lo, hi)); } else { pf = pf.source_range(lo..hi); }
            }
            for r in arr(&p["dr"]) {
                let (lo, hi) = (u(&r["lo"]) as u16, u(&r["hi"]) as u16);
                if r["incl"].as_bool().unwrap() { pf.destination_ranges.push((lo, hi)); } else { pf = pf.destination_range(lo..hi); }
            }
            if p["any"].as_bool().unwrap() { pf = pf.any_port(); }
            fc = fc.with_port_filter(pf);
        }
        if let Some(f) = arr(&cfg["ip"]).first() {
            // `via`: the same side selection reached by another builder sequence (1: the other side chosen first; 2: from Default)
            let mut ipf = if via == 2 { IpFilter::default() } else { IpFilter::new() };
            let addrs: Vec<String> = arr(&f["addrs"]).iter().map(|a| addr(a).to_string()).collect();
            if addrs.len() == 1 {
                ipf = ipf.allow(&addrs[0]).unwrap();
            } else {
                ipf = ipf.allow_list(addrs.iter().map(|s| s.as_str()).collect()).unwrap();
            }
            let (cs, cd) = (f["cs"].as_bool().unwrap(), f["cd"].as_bool().unwrap());
            match (cs, cd) {
                (true, true) => { if via == 2 { ipf.check_source = true; ipf.check_destination = true; } }
                (true, false) => { if via == 1 { ipf = ipf.destination_only(); } ipf = ipf.source_only() }
                (false, true) => { if via == 1 { ipf = ipf.source_only(); } ipf = ipf.destination_only() }
                (false, false) => { ipf.check_source = false; ipf.check_destination = false; }
            }
            fc = fc.with_ip_filter(ipf);
        }
        if let Some(f) = arr(&cfg["sub"]).first() {
            // `via`: the same side selection reached by another builder sequence (1: the other side chosen first; 2: from Default)
            let mut sf = if via == 2 { SubnetFilter::default() } else { SubnetFilter::new() };
            let nets: Vec<String> = arr(&f["nets"]).iter().map(|n| format!("{}/{}", addr(&n["a"]), u(&n["p"]))).collect();
            if nets.len() == 1 {
                sf = sf.allow(&nets[0]).unwrap();
            } else {
                sf = sf.allow_list(nets.iter().map(|s| s.as_str()).collect()).unwrap();
            }
            let (cs, cd) = (f["cs"].as_bool().unwrap(), f["cd"].as_bool().unwrap());
            match (cs, cd) {
                (true, true) => { if via == 2 { sf.check_source = true; sf.check_destination = true; } }
                (true, false) => { if via == 1 { sf = sf.destination_only(); } sf = sf.source_only() }
                (false, true) => { if via == 1 { sf = sf.source_only(); } sf = sf.destination_only() }
                (false, false) => { sf.check_source = false; sf.check_destination = false; }
            }
            fc = fc.with_subnet_filter(sf);
        }
        fc
    }};
}

fn bits(addrs: &[IpAddr], ports: &[u16], f: impl Fn(&IpAddr, &IpAddr, u16, u16) -> bool) -> String {
    let mut s = String::with_capacity(addrs.len() * addrs.len() * ports.len() * ports.len());
    for sa in addrs {
        for da in addrs {
            for sp in ports {
                for dp in ports {
                    s.push(if f(sa, da, *sp, *dp) { '1' } else { '0' });
                }
            }
        }
    }
    s
}

pub fn run(input: &mut dyn BufRead, out: &mut dyn Write, _args: &[String]) -> R {
    let mut addrs: Vec<IpAddr> = vec![];
    let mut ports: Vec<u16> = vec![];
    for v in crate::lines(input) {
        if v.get("addrs").is_some() {
            addrs = arr(&v["addrs"]).iter().map(addr).collect();
            ports = arr(&v["ports"]).iter().map(|p| u(p) as u16).collect();
            continue;
        }
        let cfg = &v["cfg"];
        let r = guarded(|| {
            let t = build_cfg!(huginn_net_tcp, cfg);
            let h = build_cfg!(huginn_net_http, cfg);
            let l = build_cfg!(huginn_net_tls, cfg);
            json!({
                "tcp": bits(&addrs, &ports, |a, b, c, d| t.should_process(a, b, c, d)),
                "http": bits(&addrs, &ports, |a, b, c, d| h.should_process(a, b, c, d)),
                "tls": bits(&addrs, &ports, |a, b, c, d| l.should_process(a, b, c, d)),
            })
        });
        let o = match r {
            Ok(res) => json!({"id": v["id"], "res": res}),
            Err(e) => json!({"id": v["id"], "panic": e}),
        };
        writeln!(out, "{o}").map_err(|e| e.to_string())?;
    }
    Ok(())
}

pub fn tcp_filter(cfg: &Value) -> huginn_net_tcp::FilterConfig {
    build_cfg!(huginn_net_tcp, cfg)
}
pub fn http_filter(cfg: &Value) -> huginn_net_http::FilterConfig {
    build_cfg!(huginn_net_http, cfg)
}
pub fn tls_filter(cfg: &Value) -> huginn_net_tls::FilterConfig {
    build_cfg!(huginn_net_tls, cfg)
}
