//! Whole analyzers through their public front ends (C15, C20, C07, C01): HuginnNetTcp / HuginnNetHttp / HuginnNetTls /
//! HuginnNet::analyze_pcap on a classic pcap file written by this harness (the only public route that includes
//! with_filter), and HuginnNet::analyze_tcp per frame.
use crate::util::*;
use crate::R;
use serde_json::{json, Value};
use std::io::{BufRead, Write};
use std::sync::Arc;

fn blob(v: &Value) -> Vec<u8> {
    if v.is_string() {
        hex(v.as_str().unwrap())
    } else {
        bytes(v)
    }
}

fn write_pcap(path: &str, frames: &[Vec<u8>]) -> std::io::Result<()> {
    let mut f = std::io::BufWriter::new(std::fs::File::create(path)?);
    f.write_all(&0xa1b2c3d4u32.to_le_bytes())?;
    f.write_all(&2u16.to_le_bytes())?;
    f.write_all(&4u16.to_le_bytes())?;
    f.write_all(&0i32.to_le_bytes())?;
    f.write_all(&0u32.to_le_bytes())?;
    f.write_all(&65535u32.to_le_bytes())?;
    f.write_all(&1u32.to_le_bytes())?;
    for (i, fr) in frames.iter().enumerate() {
        f.write_all(&(1_700_000_000u32 + i as u32).to_le_bytes())?;
        f.write_all(&0u32.to_le_bytes())?;
        f.write_all(&(fr.len() as u32).to_le_bytes())?;
        f.write_all(&(fr.len() as u32).to_le_bytes())?;
        f.write_all(fr)?;
    }
    f.flush()
}

fn ipp(ip: std::net::IpAddr, port: u16) -> String {
    format!("{ip}|{port}")
}
fn quality(q: &huginn_net_db::MatchQualityType) -> Value {
    match q {
        huginn_net_db::MatchQualityType::Matched(x) => json!((x * 100.0).round() as i64),
        huginn_net_db::MatchQualityType::NotMatched => json!("notmatched"),
        huginn_net_db::MatchQualityType::Disabled => json!("disabled"),
    }
}
pub fn http_result_to(r: &huginn_net_http::HttpAnalysisResult) -> Value {
    json!({
        "req": r.http_request.as_ref().map(|x| json!({"src": ipp(x.source.ip, x.source.port), "dst": ipp(x.destination.ip, x.destination.port), "lang": x.lang,
            "diagnosis": x.diagnosis.to_string(), "browser": x.browser_matched.browser.as_ref().map(|b| json!({"name": b.name, "family": b.family, "variant": b.variant, "kind": b.kind.to_string()})),
            "q": quality(&x.browser_matched.quality), "sig": crate::m_http::req_to(&x.sig)})),
        "resp": r.http_response.as_ref().map(|x| json!({"src": ipp(x.source.ip, x.source.port), "dst": ipp(x.destination.ip, x.destination.port),
            "diagnosis": x.diagnosis.to_string(), "server": x.web_server_matched.web_server.as_ref().map(|b| json!({"name": b.name, "family": b.family, "variant": b.variant, "kind": b.kind.to_string()})),
            "q": quality(&x.web_server_matched.quality), "sig": crate::m_http::resp_to(&x.sig)})),
    })
}
pub fn uni_to(r: &huginn_net::output::FingerprintResult) -> Value {
    // the unified result re-uses the protocol crates' output structs: project them with the same functions
    let os = |o: &huginn_net_tcp::OSQualityMatched| json!({"os": o.os.as_ref().map(|x| json!({"name": x.name, "family": x.family, "variant": x.variant, "kind": x.kind.to_string()})), "q": quality(&o.quality)});
    let up = |u: &huginn_net_tcp::UptimeOutput| json!({"src": ipp(u.source.ip, u.source.port), "dst": ipp(u.destination.ip, u.destination.port), "role": format!("{:?}", u.role), "days": u.days, "hours": u.hours, "min": u.min, "mod": u.up_mod_days, "freq": u.freq});
    json!({
        "syn": r.tcp_syn.as_ref().map(|s| { let m = os(&s.os_matched); json!({"obs": crate::conv::tcp_obs_to(&s.sig.matching), "text": s.sig.matching.to_string(), "src": ipp(s.source.ip, s.source.port), "dst": ipp(s.destination.ip, s.destination.port), "os": m["os"], "q": m["q"]}) }),
        "syn_ack": r.tcp_syn_ack.as_ref().map(|s| { let m = os(&s.os_matched); json!({"obs": crate::conv::tcp_obs_to(&s.sig.matching), "text": s.sig.matching.to_string(), "src": ipp(s.source.ip, s.source.port), "dst": ipp(s.destination.ip, s.destination.port), "os": m["os"], "q": m["q"]}) }),
        "mtu": r.tcp_mtu.as_ref().map(|m| json!({"mtu": m.mtu, "link": m.link.link, "q": quality(&m.link.quality), "src": ipp(m.source.ip, m.source.port), "dst": ipp(m.destination.ip, m.destination.port)})),
        "client_uptime": r.tcp_client_uptime.as_ref().map(up),
        "server_uptime": r.tcp_server_uptime.as_ref().map(up),
        "req": r.http_request.as_ref().map(|x| json!({"src": ipp(x.source.ip, x.source.port), "dst": ipp(x.destination.ip, x.destination.port), "lang": x.lang,
            "diagnosis": x.diagnosis.to_string(), "browser": x.browser_matched.browser.as_ref().map(|b| json!({"name": b.name, "family": b.family, "variant": b.variant, "kind": b.kind.to_string()})),
            "q": quality(&x.browser_matched.quality), "sig": crate::m_http::req_to(&x.sig)})),
        "resp": r.http_response.as_ref().map(|x| json!({"src": ipp(x.source.ip, x.source.port), "dst": ipp(x.destination.ip, x.destination.port),
            "diagnosis": x.diagnosis.to_string(), "server": x.web_server_matched.web_server.as_ref().map(|b| json!({"name": b.name, "family": b.family, "variant": b.variant, "kind": b.kind.to_string()})),
            "q": quality(&x.web_server_matched.quality), "sig": crate::m_http::resp_to(&x.sig)})),
        "tls": r.tls_client.as_ref().map(crate::m_tls::output_to),
    })
}

/// analyze_pcap of one analyzer on a file, on its own thread: {"ok": returned Ok, "results": [...]} or {"hung": true, "results": what had arrived}
fn file_run(krate: &str, path: &str, db: Arc<huginn_net_db::Database>, with_db: bool, cap: usize, wait_ms: u64) -> Value {
    file_run_keep(krate, path, db, with_db, cap, wait_ms, true)
}

/// keep = false: the results are taken from the channel as they arrive and only counted (what piles up in the caller's channel is not
/// the front end's memory)
fn file_run_keep(krate: &str, path: &str, db: Arc<huginn_net_db::Database>, with_db: bool, cap: usize, wait_ms: u64, keep: bool) -> Value {
    fn collect<T: Send + 'static>(work: impl FnOnce(std::sync::mpsc::Sender<T>) -> Result<bool, String> + Send + 'static, conv: fn(&T) -> Value, wait_ms: u64, keep: bool) -> Value {
        let (tx, rx) = std::sync::mpsc::channel::<T>();
        let (done_tx, done_rx) = std::sync::mpsc::channel();
        let base_live = crate::alloc_count::live();
        std::thread::spawn(move || {
            let _ = done_tx.send(guarded(|| work(tx)));
        });
        // while the front end works, the live heap is sampled every 200 us: "peak" = the most it held above what was live before
        let t0 = std::time::Instant::now();
        let mut peak = 0usize;
        let mut counted = 0usize;
        let done = loop {
            match done_rx.recv_timeout(std::time::Duration::from_micros(200)) {
                Ok(x) => break Some(x),
                Err(std::sync::mpsc::RecvTimeoutError::Timeout) => {
                    if !keep {
                        while let Ok(r) = rx.try_recv() {
                            counted += 1;
                            drop(r);
                        }
                    }
                    peak = peak.max(crate::alloc_count::live().saturating_sub(base_live));
                    if t0.elapsed() > std::time::Duration::from_millis(wait_ms) {
                        break None;
                    }
                }
                Err(std::sync::mpsc::RecvTimeoutError::Disconnected) => break None,
            }
        };
        match done {
            Some(Ok(Ok(ok))) if !keep => json!({"ok": ok, "peak": peak, "results": counted + rx.try_iter().count()}),
            Some(Ok(Ok(ok))) => json!({"ok": ok, "peak": peak, "results": rx.try_iter().map(|r| conv(&r)).collect::<Vec<_>>()}),
            Some(Ok(Err(e))) => json!({"ctor_error": e, "results": []}),
            Some(Err(p)) => json!({"panic": p}),
            None => json!({"hung": true, "results": rx.try_iter().map(|r| conv(&r)).collect::<Vec<_>>()}),
        }
    }
    let p = path.to_string();
    match krate {
        "tcp" => collect(
            move |tx| {
                let mut a = huginn_net_tcp::HuginnNetTcp::new(if with_db { Some(db) } else { None }, cap).map_err(|e| e.to_string())?;
                Ok(a.analyze_pcap(&p, tx, None).is_ok())
            },
            |r: &huginn_net_tcp::TcpAnalysisResult| crate::m_tcp::result_to(r),
            wait_ms,
            keep,
        ),
        "http" => collect(
            move |tx| {
                let mut a = huginn_net_http::HuginnNetHttp::new(if with_db { Some(db) } else { None }, cap).map_err(|e| e.to_string())?;
                Ok(a.analyze_pcap(&p, tx, None).is_ok())
            },
            |r: &huginn_net_http::HttpAnalysisResult| http_result_to(r),
            wait_ms,
            keep,
        ),
        "tls" => collect(
            move |tx| {
                let mut a = huginn_net_tls::HuginnNetTls::new(cap);
                Ok(a.analyze_pcap(&p, tx, None).is_ok())
            },
            |r: &huginn_net_tls::TlsClientOutput| crate::m_tls::output_to(r),
            wait_ms,
            keep,
        ),
        "uni" => collect(
            move |tx| {
                let mut a = huginn_net::HuginnNet::new(if with_db { Some(db.as_ref()) } else { None }, cap, None).map_err(|e| e.to_string())?;
                Ok(a.analyze_pcap(&p, tx, None).is_ok())
            },
            |r: &huginn_net::output::FingerprintResult| uni_to(r),
            wait_ms,
            keep,
        ),
        c => panic!("crate {c}"),
    }
}

pub fn run(input: &mut dyn BufRead, out: &mut dyn Write, _args: &[String]) -> R {
    let db = Arc::new(huginn_net_db::Database::load_default().map_err(|e| e.to_string())?);
    let dir = std::env::var("HV_PCAP_DIR").unwrap_or_else(|_| "/verif/.work/pcap".to_string());
    std::fs::create_dir_all(&dir).map_err(|e| e.to_string())?;
    crate::clock::set_ms(1_700_000_000_000);
    // runs whose worker threads never leave keep their threads (possibly spinning) for the rest of this process: after two such runs
    // the remaining lines are answered with "skipped" instead of piling more of them up
    let mut hangs = 0u32;
    for v in crate::lines(input) {
        let id = v["id"].clone();
        if hangs >= 2 {
            writeln!(out, "{}", json!({"id": id, "skipped": "two earlier runs of this batch did not finish (result channel still open after 10 s)"})).map_err(|e| e.to_string())?;
            continue;
        }
        let frames: Vec<Vec<u8>> = arr(&v["frames"]).iter().map(blob).collect();
        let cap = v["cap"].as_u64().unwrap_or(1000) as usize;
        let with_db = v["matcher"].as_bool().unwrap_or(true);
        let krate = v["crate"].as_str().unwrap().to_string();
        // an optional signature database given as text replaces the bundled one for this line
        let db: Arc<huginn_net_db::Database> = match v.get("db").and_then(|d| d.as_str()) {
            Some(text) => match <huginn_net_db::Database as std::str::FromStr>::from_str(text) {
                Ok(d) => Arc::new(d),
                Err(e) => {
                    writeln!(out, "{}", json!({"id": id, "db_error": e.to_string()})).map_err(|e| e.to_string())?;
                    continue;
                }
            },
            None => Arc::clone(&db),
        };
        let path = format!("{dir}/{}-{}.pcap", std::process::id(), id.to_string().replace('"', ""));
        let filt = v.get("filter").filter(|f| !f.is_null());
        if krate == "c20" {
            // one frame at a time through the unified analyzer and through the three protocol analyzers, which share
            // nothing but the frozen clock (C20)
            let c = &v["cfg"];
            let cfg = huginn_net::AnalysisConfig {
                http_enabled: c["http"].as_bool().unwrap_or(true),
                tcp_enabled: c["tcp"].as_bool().unwrap_or(true),
                tls_enabled: c["tls"].as_bool().unwrap_or(true),
                matcher_enabled: c["matcher"].as_bool().unwrap_or(true),
            };
            let matcher_on = true; // the protocol analyzers always match; Unified!Merge applies the configuration
            let _ = with_db;
            let r = guarded(|| -> Value {
                let mut uni = match huginn_net::HuginnNet::new(if with_db { Some(db.as_ref()) } else { None }, cap, Some(cfg.clone())) {
                    Ok(a) => a,
                    Err(e) => return json!({"ctor_error": e.to_string(), "rows": []}),
                };
                let tcp_m = huginn_net_tcp::SignatureMatcher::new(db.as_ref());
                let http_m = huginn_net_http::SignatureMatcher::new(db.as_ref());
                let mut tracker: ttl_cache::TtlCache<huginn_net_tcp::ConnectionKey, huginn_net_tcp::TcpTimestamp> = ttl_cache::TtlCache::new(cap);
                let mut flows: ttl_cache::TtlCache<huginn_net_http::http_process::FlowKey, huginn_net_http::http_process::TcpFlow> = ttl_cache::TtlCache::new(cap);
                let procs = huginn_net_http::http_process::HttpProcessors::new();
                let rows: Vec<Value> = frames
                    .iter()
                    .enumerate()
                    .map(|(i, f)| {
                        if let Some(c) = v.get("clock").and_then(|c| c.as_array()) {
                            crate::clock::set_ms(c[i].as_u64().unwrap());
                        }
                        let u_ = guarded(|| uni_to(&uni.analyze_tcp(f)));
                        let t_ = crate::m_tcp::one(f, &mut tracker, if matcher_on { Some(&tcp_m) } else { None });
                        let h_ = guarded(|| match huginn_net_http::packet_parser::parse_packet(f) {
                            huginn_net_http::packet_parser::IpPacket::Ipv4(p) => match huginn_net_http::process_ipv4_packet(&p, &mut flows, &procs, if matcher_on { Some(&http_m) } else { None }) {
                                Ok(r) => json!({"r": "ok", "res": http_result_to(&r)}),
                                Err(e) => json!({"r": "err", "e": e.to_string()}),
                            },
                            huginn_net_http::packet_parser::IpPacket::Ipv6(p) => match huginn_net_http::process_ipv6_packet(&p, &mut flows, &procs, if matcher_on { Some(&http_m) } else { None }) {
                                Ok(r) => json!({"r": "ok", "res": http_result_to(&r)}),
                                Err(e) => json!({"r": "err", "e": e.to_string()}),
                            },
                            huginn_net_http::packet_parser::IpPacket::None => json!({"r": "noip"}),
                        });
                        let l_ = guarded(|| {
                            let pk = |o: Result<huginn_net_tls::ObservableTlsPackage, huginn_net_tls::HuginnNetTlsError>| match o {
                                Ok(p) => json!({"r": "ok", "sig": p.tls_client.as_ref().map(crate::m_tls::client_to)}),
                                Err(e) => json!({"r": "err", "e": e.to_string()}),
                            };
                            match huginn_net_tls::packet_parser::parse_packet(f) {
                                huginn_net_tls::packet_parser::IpPacket::Ipv4(p) => pk(huginn_net_tls::process_tls_ipv4(&p)),
                                huginn_net_tls::packet_parser::IpPacket::Ipv6(p) => pk(huginn_net_tls::process_tls_ipv6(&p)),
                                huginn_net_tls::packet_parser::IpPacket::None => json!({"r": "noip"}),
                            }
                        });
                        json!({"uni": u_.unwrap_or_else(|e| json!({"panic": e})), "tcp": t_, "http": h_.unwrap_or_else(|e| json!({"r": "panic", "e": e})), "tls": l_.unwrap_or_else(|e| json!({"r": "panic", "e": e}))})
                    })
                    .collect();
                json!({"rows": rows})
            });
            let o = match r {
                Ok(mut x) => {
                    x["id"] = id;
                    x
                }
                Err(e) => json!({"id": id, "panic": e}),
            };
            writeln!(out, "{o}").map_err(|e| e.to_string())?;
            continue;
        }
        if let Some(g) = v.get("gen_capture") {
            // C11 (capture front ends): a capture of ONE connection -- SYN, then n segments of `len` octets (TLS application data records, or
            // the body of an upload after a complete request head) -- written here and analysed by analyze_pcap on a thread of its own
            let (n, len) = (g["n"].as_u64().unwrap_or(1000) as usize, g["len"].as_u64().unwrap_or(1400) as usize);
            let kind = g["kind"].as_str().unwrap_or("tls_appdata");
            let port = if kind == "tls_appdata" { 443 } else { 80 };
            let (c, s_) = ([10, 77, 0, 1], [10, 77, 0, 2]);
            let mut fs = vec![crate::m_res::frame(c, s_, 45000, port, 1000, 0x02, &[], 1)];
            let mut seq = 1001u32;
            if kind != "tls_appdata" {
                let head = b"POST /upload HTTP/1.1\r\nHost: example.com\r\nUser-Agent: up/1.0\r\nContent-Length: 999999999\r\n\r\n";
                fs.push(crate::m_res::frame(c, s_, 45000, port, seq, 0x18, head, 2));
                seq = seq.wrapping_add(head.len() as u32);
            }
            for i in 0..n {
                let mut p = if kind == "tls_appdata" { vec![0x17, 3, 3, ((len - 5) >> 8) as u8, (len - 5) as u8] } else { vec![] };
                p.resize(len, (i % 251) as u8);
                fs.push(crate::m_res::frame(c, s_, 45000, port, seq, 0x18, &p, (i + 3) as u16));
                seq = seq.wrapping_add(len as u32);
            }
            write_pcap(&path, &fs).map_err(|e| e.to_string())?;
            drop(fs);
            let mut o = file_run_keep(&krate, &path, Arc::clone(&db), with_db, cap, v["wait_ms"].as_u64().unwrap_or(60000), false);
            let _ = std::fs::remove_file(&path);
            o["id"] = id;
            if o["hung"].as_bool() == Some(true) {
                hangs += 1;
            }
            writeln!(out, "{o}").map_err(|e| e.to_string())?;
            continue;
        }
        if let Some(fb) = v.get("file") {
            // X04: the octets of a capture file given as they are; analyze_pcap runs on a thread of its own so that a front end which
            // does not return is an observation ("hung") instead of the end of this process
            let bytes = blob(fb);
            std::fs::write(&path, &bytes).map_err(|e| e.to_string())?;
            let o = file_run(&krate, &path, Arc::clone(&db), with_db, cap, v["wait_ms"].as_u64().unwrap_or(5000));
            let _ = std::fs::remove_file(&path);
            let mut o = o;
            o["id"] = id;
            if o["hung"].as_bool() == Some(true) {
                hangs += 1;
            }
            writeln!(out, "{o}").map_err(|e| e.to_string())?;
            continue;
        }
        let r = guarded(|| -> Value {
            if krate != "uni_direct" {
                write_pcap(&path, &frames).expect("write pcap");
            }
            match krate.as_str() {
                "tcp" => {
                    let (tx, rx) = std::sync::mpsc::channel();
                    let mut a = huginn_net_tcp::HuginnNetTcp::new(if with_db { Some(Arc::clone(&db)) } else { None }, cap).expect("analyzer");
                    if let Some(f) = filt {
                        a = a.with_filter(crate::m_filter::tcp_filter(f));
                    }
                    let res = a.analyze_pcap(&path, tx, None);
                    let out: Vec<Value> = rx.try_iter().map(|r| crate::m_tcp::result_to(&r)).collect();
                    json!({"ok": res.is_ok(), "results": out})
                }
                "http" => {
                    let (tx, rx) = std::sync::mpsc::channel();
                    let mut a = huginn_net_http::HuginnNetHttp::new(if with_db { Some(Arc::clone(&db)) } else { None }, cap).expect("analyzer");
                    if let Some(f) = filt {
                        a = a.with_filter(crate::m_filter::http_filter(f));
                    }
                    // "split": the capture comes as two files (rotated at frame k), analysed one after the other by the same analyzer
                    if let Some(k) = v["split"].as_u64() {
                        let k = (k as usize).min(frames.len());
                        let p2 = format!("{path}.2");
                        write_pcap(&path, &frames[..k]).expect("write pcap");
                        write_pcap(&p2, &frames[k..]).expect("write pcap");
                        let (tx2, rx2) = std::sync::mpsc::channel();
                        let r1 = a.analyze_pcap(&path, tx, None);
                        let r2 = a.analyze_pcap(&p2, tx2, None);
                        let _ = std::fs::remove_file(&p2);
                        let out: Vec<Value> = rx.try_iter().chain(rx2.try_iter()).map(|r| http_result_to(&r)).collect();
                        return json!({"ok": r1.is_ok() && r2.is_ok(), "results": out});
                    }
                    let res = a.analyze_pcap(&path, tx, None);
                    let out: Vec<Value> = rx.try_iter().map(|r| http_result_to(&r)).collect();
                    json!({"ok": res.is_ok(), "results": out})
                }
                "tls" => {
                    let (tx, rx) = std::sync::mpsc::channel();
                    let mut a = huginn_net_tls::HuginnNetTls::new(cap);
                    if let Some(f) = filt {
                        a = a.with_filter(crate::m_filter::tls_filter(f));
                    }
                    let res = a.analyze_pcap(&path, tx, None);
                    let out: Vec<Value> = rx.try_iter().map(|r| crate::m_tls::output_to(&r)).collect();
                    json!({"ok": res.is_ok(), "results": out})
                }
                // the parallel front end: with_config + init_pool + analyze_pcap (which dispatches every packet and then shuts the pool
                // down); results are collected until every worker has gone
                "tcp_par" | "http_par" | "tls_par" => {
                    let pc = &v["parallel"];
                    let (nw, qs, bs, to) = (pc["workers"].as_u64().unwrap_or(2) as usize, pc["queue"].as_u64().unwrap_or(100) as usize, pc["batch"].as_u64().unwrap_or(8) as usize, pc["timeout_ms"].as_u64().unwrap_or(5));
                    fn drain<T>(rx: std::sync::mpsc::Receiver<T>, f: impl Fn(&T) -> Value) -> (Vec<Value>, bool) {
                        let mut out = vec![];
                        loop {
                            match rx.recv_timeout(std::time::Duration::from_secs(10)) {
                                Ok(r) => out.push(f(&r)),
                                Err(std::sync::mpsc::RecvTimeoutError::Disconnected) => return (out, false),
                                Err(std::sync::mpsc::RecvTimeoutError::Timeout) => return (out, true),
                            }
                        }
                    }
                    match krate.as_str() {
                        "tcp_par" => {
                            let (tx, rx) = std::sync::mpsc::channel();
                            let mut a = huginn_net_tcp::HuginnNetTcp::with_config(if with_db { Some(Arc::clone(&db)) } else { None }, cap, nw, qs, bs, to).expect("analyzer");
                            // "late_filter": a pool had already been initialised (and is replaced) when the filter is installed
                            if v["late_filter"].as_bool() == Some(true) {
                                let (tx0, _rx0) = std::sync::mpsc::channel();
                                a.init_pool(tx0).expect("pool");
                            }
                            if let Some(f) = filt {
                                a = a.with_filter(crate::m_filter::tcp_filter(f));
                            }
                            // "repeat": the analyzer is used for the same capture several times (init_pool again each time, as the
                            // pool of the previous run has been shut down); the results of the LAST run are reported
                            let reps = v["repeat"].as_u64().unwrap_or(1);
                            let (mut tx, mut rx) = (tx, rx);
                            for _ in 1..reps {
                                a.init_pool(tx.clone()).expect("pool");
                                let _ = a.analyze_pcap(&path, tx, None);
                                while rx.recv_timeout(std::time::Duration::from_millis(300)).is_ok() {}
                                let (t2, r2) = std::sync::mpsc::channel();
                                tx = t2;
                                rx = r2;
                            }
                            a.init_pool(tx.clone()).expect("pool");
                            let res = a.analyze_pcap(&path, tx, None);
                            let st = a.stats().map(|s| json!({"dispatched": s.total_dispatched, "dropped": s.total_dropped}));
                            drop(a);
                            let (out, hung) = drain(rx, crate::m_tcp::result_to);
                            json!({"ok": res.is_ok(), "results": out, "hung": hung, "stats": st})
                        }
                        "http_par" => {
                            let (tx, rx) = std::sync::mpsc::channel();
                            let mut a = huginn_net_http::HuginnNetHttp::with_config(if with_db { Some(Arc::clone(&db)) } else { None }, cap, nw, qs, bs, to).expect("analyzer");
                            // "late_filter": a pool had already been initialised (and is replaced) when the filter is installed
                            if v["late_filter"].as_bool() == Some(true) {
                                let (tx0, _rx0) = std::sync::mpsc::channel();
                                a.init_pool(tx0).expect("pool");
                            }
                            if let Some(f) = filt {
                                a = a.with_filter(crate::m_filter::http_filter(f));
                            }
                            a.init_pool(tx.clone()).expect("pool");
                            let res = a.analyze_pcap(&path, tx, None);
                            let st = a.stats().map(|s| json!({"dispatched": s.total_dispatched, "dropped": s.total_dropped}));
                            drop(a);
                            let (out, hung) = drain(rx, http_result_to);
                            json!({"ok": res.is_ok(), "results": out, "hung": hung, "stats": st})
                        }
                        _ => {
                            let (tx, rx) = std::sync::mpsc::channel();
                            let mut a = huginn_net_tls::HuginnNetTls::with_config_and_max_connections(nw, qs, bs, to, cap);
                            // "late_filter": a pool had already been initialised (and is replaced) when the filter is installed
                            if v["late_filter"].as_bool() == Some(true) {
                                let (tx0, _rx0) = std::sync::mpsc::channel();
                                a.init_pool(tx0).expect("pool");
                            }
                            if let Some(f) = filt {
                                a = a.with_filter(crate::m_filter::tls_filter(f));
                            }
                            a.init_pool(tx.clone()).expect("pool");
                            let res = a.analyze_pcap(&path, tx, None);
                            let st = a.stats().map(|s| json!({"dispatched": s.total_dispatched, "dropped": s.total_dropped}));
                            drop(a);
                            let (out, hung) = drain(rx, crate::m_tls::output_to);
                            json!({"ok": res.is_ok(), "results": out, "hung": hung, "stats": st})
                        }
                    }
                }
                "uni" | "uni_direct" => {
                    let c = &v["cfg"];
                    let cfg = huginn_net::AnalysisConfig {
                        http_enabled: c["http"].as_bool().unwrap_or(true),
                        tcp_enabled: c["tcp"].as_bool().unwrap_or(true),
                        tls_enabled: c["tls"].as_bool().unwrap_or(true),
                        matcher_enabled: c["matcher"].as_bool().unwrap_or(true),
                    };
                    let mut a = match huginn_net::HuginnNet::new(if with_db { Some(db.as_ref()) } else { None }, cap, Some(cfg)) {
                        Ok(a) => a,
                        Err(e) => return json!({"ok": false, "ctor_error": e.to_string(), "results": []}),
                    };
                    if krate == "uni_direct" {
                        let out: Vec<Value> = frames.iter().map(|f| uni_to(&a.analyze_tcp(f))).collect();
                        return json!({"ok": true, "results": out});
                    }
                    if let Some(f) = filt {
                        a = a.with_filter(crate::m_filter::tcp_filter(f));
                    }
                    let (tx, rx) = std::sync::mpsc::channel();
                    if let Some(k) = v["split"].as_u64() {
                        let k = (k as usize).min(frames.len());
                        let p2 = format!("{path}.2");
                        write_pcap(&path, &frames[..k]).expect("write pcap");
                        write_pcap(&p2, &frames[k..]).expect("write pcap");
                        let (tx2, rx2) = std::sync::mpsc::channel();
                        let r1 = a.analyze_pcap(&path, tx, None);
                        let r2 = a.analyze_pcap(&p2, tx2, None);
                        let _ = std::fs::remove_file(&p2);
                        let out: Vec<Value> = rx.try_iter().chain(rx2.try_iter()).map(|r| uni_to(&r)).collect();
                        return json!({"ok": r1.is_ok() && r2.is_ok(), "results": out});
                    }
                    let res = a.analyze_pcap(&path, tx, None);
                    let out: Vec<Value> = rx.try_iter().map(|r| uni_to(&r)).collect();
                    json!({"ok": res.is_ok(), "results": out})
                }
                c => panic!("crate {c}"),
            }
        });
        let _ = std::fs::remove_file(&path);
        let o = match r {
            Ok(mut x) => {
                x["id"] = id;
                x
            }
            Err(e) => json!({"id": id, "panic": e}),
        };
        if o["hung"].as_bool() == Some(true) {
            hangs += 1;
        }
        writeln!(out, "{o}").map_err(|e| e.to_string())?;
    }
    Ok(())
}
