//! TCP analyzer entry points (C03, C13 TCP half, C19): one frame (or a short sequence of frames on one
//! connection tracker) through packet_parser::parse_packet + process_ipv4_packet / process_ipv6_packet with the
//! bundled database as matcher.  Also the window classifier on whole domains (C03 iv).
use crate::conv::*;
use crate::util::*;
use crate::R;
use huginn_net_db::tcp::IpVersion;
use huginn_net_db::Database;
use huginn_net_tcp::packet_parser::{parse_packet, IpPacket};
use huginn_net_tcp::{process_ipv4_packet, process_ipv6_packet, ConnectionKey, SignatureMatcher, TcpAnalysisResult, TcpTimestamp};
use serde_json::{json, Value};
use std::io::{BufRead, Write};
use ttl_cache::TtlCache;

fn quality(q: &huginn_net_db::MatchQualityType) -> Value {
    match q {
        huginn_net_db::MatchQualityType::Matched(x) => json!((x * 100.0).round() as i64),
        huginn_net_db::MatchQualityType::NotMatched => json!("notmatched"),
        huginn_net_db::MatchQualityType::Disabled => json!("disabled"),
    }
}
fn ipport(p: &huginn_net_tcp::IpPort) -> Value {
    json!(format!("{}|{}", p.ip, p.port))
}
fn uptime(u: &huginn_net_tcp::UptimeOutput) -> Value {
    json!({"src": ipport(&u.source), "dst": ipport(&u.destination), "role": format!("{:?}", u.role), "days": u.days, "hours": u.hours,
           "min": u.min, "mod": u.up_mod_days, "freq": u.freq})
}
pub fn result_to(r: &TcpAnalysisResult) -> Value {
    json!({
        "syn": r.syn.as_ref().map(|s| json!({"obs": tcp_obs_to(&s.sig.matching), "text": s.sig.matching.to_string(), "sigtext": s.sig.to_string(), "line": s.to_string(), "src": ipport(&s.source), "dst": ipport(&s.destination),
                                              "os": s.os_matched.os.as_ref().map(|o| json!({"name": o.name, "family": o.family, "variant": o.variant, "kind": o.kind.to_string()})),
                                              "q": quality(&s.os_matched.quality)})),
        "syn_ack": r.syn_ack.as_ref().map(|s| json!({"obs": tcp_obs_to(&s.sig.matching), "text": s.sig.matching.to_string(), "sigtext": s.sig.to_string(), "line": s.to_string(), "src": ipport(&s.source), "dst": ipport(&s.destination),
                                              "os": s.os_matched.os.as_ref().map(|o| json!({"name": o.name, "family": o.family, "variant": o.variant, "kind": o.kind.to_string()})),
                                              "q": quality(&s.os_matched.quality)})),
        "mtu": r.mtu.as_ref().map(|m| json!({"mtu": m.mtu, "link": m.link.link, "q": quality(&m.link.quality), "src": ipport(&m.source), "dst": ipport(&m.destination)})),
        "client_uptime": r.client_uptime.as_ref().map(uptime),
        "server_uptime": r.server_uptime.as_ref().map(uptime),
    })
}

pub fn one(frame: &[u8], cache: &mut TtlCache<ConnectionKey, TcpTimestamp>, matcher: Option<&SignatureMatcher>) -> Value {
    match guarded(|| match parse_packet(frame) {
        IpPacket::Ipv4(p) => match process_ipv4_packet(&p, cache, matcher) {
            Ok(r) => json!({"r": "ok", "res": result_to(&r)}),
            Err(e) => json!({"r": "err", "e": e.to_string()}),
        },
        IpPacket::Ipv6(p) => match process_ipv6_packet(&p, cache, matcher) {
            Ok(r) => json!({"r": "ok", "res": result_to(&r)}),
            Err(e) => json!({"r": "err", "e": e.to_string()}),
        },
        IpPacket::None => json!({"r": "noip"}),
    }) {
        Ok(v) => v,
        Err(p) => json!({"r": "panic", "e": p}),
    }
}

pub fn run(input: &mut dyn BufRead, out: &mut dyn Write, _args: &[String]) -> R {
    let db = Database::load_default().map_err(|e| e.to_string())?;
    let matcher = SignatureMatcher::new(&db);
    for v in crate::lines(input) {
        let id = v["id"].clone();
        let op = v["op"].as_str().unwrap_or("frames");
        let o = match op {
            "frames" => {
                // a sequence of frames on one fresh tracker; "clock": ms values set before each frame (hook H1)
                let mut cache: TtlCache<ConnectionKey, TcpTimestamp> = TtlCache::new(u(&v["cap"].as_u64().map(|x| json!(x)).unwrap_or(json!(1000))) as usize);
                let use_matcher = v["matcher"].as_bool().unwrap_or(true);
                // "db": the text of a database to match against instead of the bundled one
                let custom = v.get("db").and_then(|t| t.as_str()).map(|t| <Database as std::str::FromStr>::from_str(t).expect("generated database must load"));
                let custom_matcher = custom.as_ref().map(SignatureMatcher::new);
                let matcher = custom_matcher.as_ref().unwrap_or(&matcher);
                let res: Vec<Value> = arr(&v["frames"])
                    .iter()
                    .enumerate()
                    .map(|(i, f)| {
                        if let Some(c) = v.get("clock").and_then(|c| c.as_array()) {
                            crate::clock::set_ms(c[i].as_u64().unwrap());
                        }
                        let b = if f.is_string() { hex(f.as_str().unwrap()) } else { bytes(f) };
                        one(&b, &mut cache, if use_matcher { Some(matcher) } else { None })
                    })
                    .collect();
                json!({"id": id, "out": res})
            }
            "win_table" => {
                // detect_win_multiplicator over all 65536 windows for each (mss, th, ts, ver): run-length table of Display strings
                let mut rows = vec![];
                for c in arr(&v["cases"]) {
                    let (mss, th, ts) = (u(&c["mss"]) as u16, u(&c["th"]) as u16, c["ts"].as_bool().unwrap());
                    let ver = if u(&c["ver"]) == 4 { IpVersion::V4 } else { IpVersion::V6 };
                    // lossless compaction: list exactly the windows whose class is not the raw value itself
                    let r = guarded(|| {
                        let mut exc: Vec<Value> = vec![];
                        for w in 0..=65535u16 {
                            let ws = huginn_net_tcp::window_size::detect_win_multiplicator(w, mss, th, ts, &ver);
                            if ws != huginn_net_db::tcp::WindowSize::Value(w) {
                                exc.push(json!({"w": w, "c": ws_to(&ws)}));
                            }
                        }
                        exc
                    });
                    match r {
                        Ok(exc) => rows.push(json!({"c": c, "exc": exc, "n": 65536})),
                        Err(e) => rows.push(json!({"c": c, "panic": e})),
                    }
                }
                json!({"id": id, "rows": rows})
            }
            o => return Err(format!("unknown op {o}")),
        };
        writeln!(out, "{o}").map_err(|e| e.to_string())?;
    }
    Ok(())
}
