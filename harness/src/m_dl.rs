//! X01 (extension): link-layer framing.  For every frame: what the packet parser of each crate extracts (IP version, source
//! and destination address) and what `detect_datalink_format` answers.
use crate::util::*;
use crate::R;
use serde_json::{json, Value};
use std::io::{BufRead, Write};

macro_rules! view {
    ($krate:ident, $f:expr) => {{
        use $krate::packet_parser::{detect_datalink_format, parse_packet, DatalinkFormat, IpPacket};
        let f: &[u8] = $f;
        let v = match parse_packet(f) {
            IpPacket::Ipv4(p) => json!({"ver": 4, "src": p.get_source().octets().to_vec(), "dst": p.get_destination().octets().to_vec()}),
            IpPacket::Ipv6(p) => json!({"ver": 6, "src": p.get_source().octets().to_vec(), "dst": p.get_destination().octets().to_vec()}),
            IpPacket::None => json!({"ver": 0, "src": [], "dst": []}),
        };
        let d = match detect_datalink_format(f) {
            Some(DatalinkFormat::Ethernet) => "eth",
            Some(DatalinkFormat::RawIp) => "raw",
            Some(DatalinkFormat::Null) => "null",
            None => "none",
        };
        json!({"view": v, "detect": d})
    }};
}

fn uni_view(f: &[u8]) -> Value {
    use huginn_net::packet_parser::{detect_datalink_format, parse_packet, DatalinkFormat, IpPacket};
    let v = match parse_packet(f) {
        IpPacket::Ipv4(p) if p.len() >= 20 => json!({"ver": 4, "src": p[12..16].to_vec(), "dst": p[16..20].to_vec()}),
        IpPacket::Ipv6(p) if p.len() >= 40 => json!({"ver": 6, "src": p[8..24].to_vec(), "dst": p[24..40].to_vec()}),
        IpPacket::Ipv4(_) | IpPacket::Ipv6(_) => json!({"ver": -1, "src": [], "dst": []}),
        IpPacket::None => json!({"ver": 0, "src": [], "dst": []}),
    };
    let d = match detect_datalink_format(f) {
        Some(DatalinkFormat::Ethernet) => "eth",
        Some(DatalinkFormat::RawIp) => "raw",
        Some(DatalinkFormat::Null) => "null",
        None => "none",
    };
    json!({"view": v, "detect": d})
}

pub fn run(input: &mut dyn BufRead, out: &mut dyn Write, _args: &[String]) -> R {
    for v in crate::lines(input) {
        let f = bytes(&v["frame"]);
        let r = guarded(|| -> Value {
            json!({"tcp": view!(huginn_net_tcp, &f), "http": view!(huginn_net_http, &f), "tls": view!(huginn_net_tls, &f), "uni": uni_view(&f)})
        });
        let o = match r {
            Ok(x) => json!({"id": v["id"], "res": x}),
            Err(e) => json!({"id": v["id"], "panic": e}),
        };
        writeln!(out, "{o}").map_err(|e| e.to_string())?;
    }
    Ok(())
}
