//! C01: totality of every entry point.  Inputs (frames, byte streams, texts) are fed one after another to one instance under
//! catch_unwind; every `probe_every` inputs a fixed well-formed probe runs on the same instance and is compared with what a
//! fresh instance gives.  A watchdog thread reports an input that does not return within 5 s.
use crate::util::*;
use crate::R;
use serde_json::{json, Value};
use std::io::{BufRead, Write};
use std::str::FromStr;
use std::sync::atomic::{AtomicU64, Ordering};
use ttl_cache::TtlCache;

static PROGRESS: AtomicU64 = AtomicU64::new(0);
static CUR_LINE: AtomicU64 = AtomicU64::new(0);

fn blob(v: &Value) -> Vec<u8> {
    if v.is_string() {
        hex(v.as_str().unwrap())
    } else {
        bytes(v)
    }
}
fn dg(v: &Value) -> String {
    v.to_string()
}

pub fn run(input: &mut dyn BufRead, out: &mut dyn Write, _args: &[String]) -> R {
    crate::clock::set_ms(1_700_000_000_000);
    std::thread::spawn(|| {
        let mut last = (u64::MAX, std::time::Instant::now());
        loop {
            std::thread::sleep(std::time::Duration::from_millis(250));
            let p = PROGRESS.load(Ordering::SeqCst);
            if p == last.0 && p != 0 {
                if last.1.elapsed() > std::time::Duration::from_secs(5) {
                    println!("{}", json!({"id": CUR_LINE.load(Ordering::SeqCst), "hang_at": (p & 0xffff_ffff) as u64 - 1}));
                    std::process::exit(3);
                }
            } else {
                last = (p, std::time::Instant::now());
            }
        }
    });
    let db = huginn_net_db::Database::load_default().map_err(|e| e.to_string())?;
    let tcp_m = huginn_net_tcp::SignatureMatcher::new(&db);
    for v in crate::lines(input) {
        let id = v["id"].clone();
        CUR_LINE.store(id.as_u64().unwrap_or(0), Ordering::SeqCst);
        let entry = v["entry"].as_str().unwrap().to_string();
        let inputs: Vec<Vec<u8>> = arr(&v["inputs"]).iter().map(|x| if entry == "db" { x.as_str().unwrap().as_bytes().to_vec() } else { blob(x) }).collect();
        let probe: Vec<Vec<u8>> = v.get("probe").map(|p| arr(p).iter().map(blob).collect()).unwrap_or_default();
        let every = v["probe_every"].as_u64().unwrap_or(50) as usize;
        let mut panics: Vec<Value> = vec![];
        let mut probe_bad: Vec<Value> = vec![];
        let (mut n_ok, mut n_err) = (0u64, 0u64);
        // ---- instances
        let mut tracker: TtlCache<huginn_net_tcp::ConnectionKey, huginn_net_tcp::TcpTimestamp> = TtlCache::new(1000);
        let mut flows: TtlCache<huginn_net_http::http_process::FlowKey, huginn_net_http::http_process::TcpFlow> = TtlCache::new(1000);
        let procs = huginn_net_http::http_process::HttpProcessors::new();
        let mut tls: TtlCache<huginn_net_tls::FlowKey, huginn_net_tls::tls_client_hello_reader::TlsClientHelloReader> = TtlCache::new(1000);
        let mut uni = huginn_net::HuginnNet::new(Some(&db), 1000, None).map_err(|e| e.to_string())?;
        let mut reader = huginn_net_tls::tls_client_hello_reader::TlsClientHelloReader::new();
        let mut extractor = huginn_net_http::Http2FingerprintExtractor::new();
        let filt_t = huginn_net_tcp::FilterConfig::new().with_port_filter(huginn_net_tcp::PortFilter::new().destination(80));
        let filt_h = huginn_net_http::FilterConfig::new().with_port_filter(huginn_net_http::PortFilter::new().destination(80));
        let filt_l = huginn_net_tls::FilterConfig::new().with_port_filter(huginn_net_tls::PortFilter::new().destination(80));
        // one call of the entry point on the shared instance; returns (outcome, projection)
        macro_rules! call {
            ($b:expr, $probe_mode:expr) => {{
                let b: &[u8] = $b;
                match entry.as_str() {
                    "tcp" => { let r = crate::m_tcp::one(b, &mut tracker, Some(&tcp_m)); (r["r"].as_str().unwrap().to_string(), r) }
                    "http" => { let r = crate::m_http::packet(b, &mut flows, &procs); (r["r"].as_str().unwrap().to_string(), r) }
                    "tls" => { let r = crate::m_tls::packet(b, &mut tls); (r["r"].as_str().unwrap().to_string(), r) }
                    "uni" => match guarded(|| crate::m_ana::uni_to(&uni.analyze_tcp(b))) { Ok(x) => ("ok".to_string(), x), Err(e) => ("panic".to_string(), json!(e)) },
                    "filter" => match guarded(|| json!([huginn_net_tcp::raw_filter::apply(b, &filt_t), huginn_net_http::raw_filter::apply(b, &filt_h), huginn_net_tls::raw_filter::apply(b, &filt_l)])) {
                        Ok(x) => ("ok".to_string(), x), Err(e) => ("panic".to_string(), json!(e)) },
                    "hash" => match guarded(|| json!([huginn_net_tcp::packet_hash::hash_source_ip(b) % 7, huginn_net_http::packet_hash::hash_flow(b, 7), huginn_net_tls::packet_hash::hash_flow(b, 7), huginn_net_http::packet_hash::hash_flow(b, 0)])) {
                        Ok(x) => ("ok".to_string(), x), Err(e) => ("panic".to_string(), json!(e)) },
                    "reader" => {
                        if $probe_mode { reader.reset(); }
                        match guarded(|| reader.add_bytes(b).map(|o| o.map(|s| crate::m_tls::sig_to(&s)))) {
                            Ok(Ok(x)) => ("ok".to_string(), json!(x)), Ok(Err(_)) => ("err".to_string(), Value::Null), Err(e) => ("panic".to_string(), json!(e)) }
                    }
                    "extractor" => {
                        if $probe_mode { extractor.reset(); }
                        match guarded(|| extractor.add_bytes(b).map(|o| o.map(|f| f.fingerprint))) {
                            Ok(Ok(x)) => ("ok".to_string(), json!(x)), Ok(Err(_)) => ("err".to_string(), Value::Null), Err(e) => ("panic".to_string(), json!(e)) }
                    }
                    "akamai" => match guarded(|| huginn_net_http::extract_akamai_fingerprint_from_bytes(b).map(|f| f.fingerprint)) { Ok(x) => ("ok".to_string(), json!(x)), Err(e) => ("panic".to_string(), json!(e)) },
                    "hello" => match guarded(|| huginn_net_tls::tls_process::parse_tls_client_hello(b).map(|o| o.map(|s| crate::m_tls::sig_to(&s)))) {
                        Ok(Ok(x)) => ("ok".to_string(), json!(x)), Ok(Err(_)) => ("err".to_string(), Value::Null), Err(e) => ("panic".to_string(), json!(e)) },
                    "hreq" => match guarded(|| procs.parse_request(b).map(|r| crate::m_http::req_to(&r))) { Ok(x) => ("ok".to_string(), json!(x)), Err(e) => ("panic".to_string(), json!(e)) },
                    "hresp" => match guarded(|| procs.parse_response(b).map(|r| crate::m_http::resp_to(&r))) { Ok(x) => ("ok".to_string(), json!(x)), Err(e) => ("panic".to_string(), json!(e)) },
                    "db" => match guarded(|| huginn_net_db::Database::from_str(std::str::from_utf8(b).unwrap_or("")).map(|d| d.tcp_request.entries.len())) {
                        Ok(Ok(x)) => ("ok".to_string(), json!(x)), Ok(Err(_)) => ("err".to_string(), Value::Null), Err(e) => ("panic".to_string(), json!(e)) },
                    e => panic!("entry {e}"),
                }
            }};
        }
        // fresh-instance probe result: computed on this line's instances before any input
        let mut fresh: Vec<String> = vec![];
        for (k, p) in probe.iter().enumerate() {
            let (_o, r) = call!(p, k == 0);
            fresh.push(dg(&r));
        }
        // shift the probe connection: the probe must be a *new* connection each time, so re-address it
        let mut probe_round = 0u8;
        for (i, b) in inputs.iter().enumerate() {
            PROGRESS.store(((id.as_u64().unwrap_or(0) & 0xffff) << 32) | (i as u64 + 1), Ordering::SeqCst);
            let (o, r) = call!(b, false);
            match o.as_str() {
                "panic" => {
                    if panics.len() < 20 {
                        panics.push(json!({"i": i, "e": r.get("e").cloned().unwrap_or(r.clone())}));
                    }
                }
                "err" | "noip" | "none" => n_err += 1,
                _ => n_ok += 1,
            }
            if !probe.is_empty() && (i + 1) % every == 0 {
                probe_round = probe_round.wrapping_add(1);
                let mut got: Vec<String> = vec![];
                for (k, p) in probe.iter().enumerate() {
                    let mut q = p.clone();
                    if matches!(entry.as_str(), "tcp" | "http" | "tls" | "uni") && q.len() > 40 {
                        // re-address the probe connection (client address byte and IP id) so that it is new to the instance;
                        // reported endpoints are masked out of the comparison below
                        if q[26] == 10 && q[27] == 99 {
                            q[28] = probe_round;
                        }
                        if q[30] == 10 && q[31] == 99 {
                            q[32] = probe_round;
                        }
                    }
                    let (_o, r) = call!(&q, k == 0);
                    got.push(dg(&r).replace(&format!("10.99.{}.", probe_round), "10.99.0."));
                }
                let want: Vec<String> = fresh.iter().map(|s| s.replace("10.99.0.", "10.99.0.")).collect();
                if got != want && probe_bad.len() < 10 {
                    probe_bad.push(json!({"after_input": i, "fresh": want, "used": got}));
                }
            }
        }
        PROGRESS.store(0, Ordering::SeqCst);
        writeln!(out, "{}", json!({"id": id, "entry": entry, "n": inputs.len(), "ok": n_ok, "err": n_err, "panics": panics, "probe_bad": probe_bad})).map_err(|e| e.to_string())?;
        out.flush().map_err(|e| e.to_string())?;
    }
    Ok(())
}
