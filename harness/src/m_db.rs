//! huginn-net-db entry points: signature text (C06), database loading (C06), best match (C02),
//! distances and score tables (C12).  One request per input line, selected by "op".
use crate::conv::*;
use crate::util::*;
use crate::R;
use huginn_net_db::db::FingerprintCollection;
use huginn_net_db::db_matching_trait::{DatabaseSignature, FingerprintDb, IndexKey, MatchQuality, ObservedFingerprint};
use huginn_net_db::http::HttpMatchQuality;
use huginn_net_db::tcp::{TcpMatchQuality, Ttl, WindowSize};
use huginn_net_db::{http, tcp, Database};
use serde_json::{json, Value};
use std::fmt::Display;
use std::io::{BufRead, Write};
use std::str::FromStr;

fn q100(q: f32) -> i64 {
    (q * 100.0).round() as i64
}

fn coll_to<OF, DS, K>(c: &FingerprintCollection<OF, DS, K>) -> Value
where
    OF: ObservedFingerprint<Key = K>,
    DS: DatabaseSignature<OF> + Display,
    K: IndexKey,
{
    Value::Array(
        c.entries
            .iter()
            .map(|(l, sigs)| json!({"label": label_to(l), "sigs": sigs.iter().map(|s| s.to_string()).collect::<Vec<_>>()}))
            .collect(),
    )
}

pub fn db_to(db: &Database) -> Value {
    json!({
        "classes": db.classes,
        "mtu": db.mtu.iter().map(|(l, v)| json!({"label": l, "sigs": v})).collect::<Vec<_>>(),
        "ua_os": db.ua_os.iter().map(|(k, v)| json!({"k": k, "v": v.iter().collect::<Vec<_>>()})).collect::<Vec<_>>(),
        "tcp_request": coll_to(&db.tcp_request),
        "tcp_response": coll_to(&db.tcp_response),
        "http_request": coll_to(&db.http_request),
        "http_response": coll_to(&db.http_response),
    })
}

/// `scale`: the protocol's documented distance-to-quality scale (not the signature's own method: the reported quality is
/// compared with what the scale assigns to the winning distance)
fn match_all<OF, DS, K>(c: &FingerprintCollection<OF, DS, K>, obs: &OF, scale: fn(u32) -> f32) -> Value
where
    OF: ObservedFingerprint<Key = K>,
    DS: DatabaseSignature<OF> + Display,
    K: IndexKey,
{
    match_all_with(c, obs, scale, c.find_best_match(obs))
}

/// the same table of distances, with the reported entry supplied by the caller (the answer of a crate's SignatureMatcher wrapper)
pub fn match_all_with<'a, OF, DS, K>(c: &'a FingerprintCollection<OF, DS, K>, obs: &OF, scale: fn(u32) -> f32, rep: Option<(&'a huginn_net_db::Label, &'a DS, f32)>) -> Value
where
    OF: ObservedFingerprint<Key = K>,
    DS: DatabaseSignature<OF> + Display,
    K: IndexKey,
{
    let mut dists: Vec<i64> = vec![];
    let mut qs: Vec<i64> = vec![];
    let mut rep_idx: i64 = 0; // 1-based flat index, 0 = none
    let mut flat = 0i64;
    for (_l, sigs) in c.entries.iter() {
        for s in sigs.iter() {
            flat += 1;
            match s.calculate_distance(obs) {
                Some(d) => {
                    dists.push(d as i64);
                    qs.push(q100(scale(d)));
                }
                None => {
                    dists.push(-1);
                    qs.push(-1);
                }
            }
            if let Some((_, rs, _)) = rep {
                if std::ptr::eq(rs, s) {
                    rep_idx = flat;
                }
            }
        }
    }
    let (rq, rlabel) = match rep {
        Some((l, _, q)) => (q100(q), label_to(l)),
        None => (-1, Value::Null),
    };
    json!({"dists": dists, "qs": qs, "rep": rep_idx, "rq": rq, "rlabel": rlabel})
}

fn rle(vals: impl Iterator<Item = i64>) -> Vec<[i64; 2]> {
    let mut runs: Vec<[i64; 2]> = vec![];
    for v in vals {
        match runs.last_mut() {
            Some(r) if r[0] == v => r[1] += 1,
            _ => runs.push([v, 1]),
        }
    }
    runs
}
fn od(d: Option<u32>) -> i64 {
    d.map(|x| x as i64).unwrap_or(-1)
}

fn score_breaks(f: impl Fn(u32) -> f32 + Sync) -> Vec<Value> {
    // all 2^32 distances, scanned in 16 chunks; breakpoints where the score changes
    let chunks: Vec<Vec<(u32, i64)>> = std::thread::scope(|s| {
        let hs: Vec<_> = (0..16u64)
            .map(|c| {
                let f = &f;
                s.spawn(move || {
                    let lo = (c << 28) as u32;
                    let mut out = vec![(lo, q100(f(lo)))];
                    let mut last = out[0].1;
                    let mut d = lo;
                    loop {
                        if d == lo.wrapping_add((1u32 << 28) - 1) {
                            break;
                        }
                        d = d.wrapping_add(1);
                        let q = q100(f(d));
                        if q != last {
                            out.push((d, q));
                            last = q;
                        }
                    }
                    out
                })
            })
            .collect();
        hs.into_iter().map(|h| h.join().unwrap()).collect()
    });
    let mut res: Vec<Value> = vec![];
    let mut last: Option<i64> = None;
    for ch in chunks {
        for (d, q) in ch {
            if last != Some(q) {
                res.push(json!({"hi": d >> 16, "lo": d & 0xffff, "q": q}));
                last = Some(q);
            }
        }
    }
    res
}

pub fn run(input: &mut dyn BufRead, out: &mut dyn Write, _args: &[String]) -> R {
    let default_db = Database::load_default().map_err(|e| e.to_string())?;
    for v in crate::lines(input) {
        let op = v["op"].as_str().unwrap_or("").to_string();
        let id = v["id"].clone();
        let res = guarded(|| -> Value {
            match op.as_str() {
                "tcp_sig" => {
                    let s = tcp_sig_from(&v["v"]);
                    let parsed = tcp::Signature::from_str(v["text"].as_str().unwrap());
                    json!({"disp": s.to_string(), "parsed": parsed.as_ref().ok().map(tcp_sig_to),
                           "redisp": parsed.as_ref().ok().map(|p| p.to_string())})
                }
                "http_sig" => {
                    let s = http_sig_from(&v["v"]);
                    let parsed = http::Signature::from_str(v["text"].as_str().unwrap());
                    json!({"disp": s.to_string(), "parsed": parsed.as_ref().ok().map(http_sig_to),
                           "redisp": parsed.as_ref().ok().map(|p| p.to_string())})
                }
                "tcp_line" => {
                    let parsed = tcp::Signature::from_str(v["text"].as_str().unwrap());
                    json!({"redisp": parsed.as_ref().ok().map(|p| p.to_string()), "parsed": parsed.as_ref().ok().map(tcp_sig_to)})
                }
                "http_line" => {
                    let parsed = http::Signature::from_str(v["text"].as_str().unwrap());
                    json!({"redisp": parsed.as_ref().ok().map(|p| p.to_string()), "parsed": parsed.as_ref().ok().map(http_sig_to)})
                }
                "db_load" => match Database::from_str(v["text"].as_str().unwrap()) {
                    Ok(db) => json!({"ok": true, "db": db_to(&db)}),
                    Err(_) => json!({"ok": false}),
                },
                "db_default" => json!({"ok": true, "db": db_to(&default_db)}),
                "match" => {
                    let owned;
                    let db = match v["db"].as_str() {
                        Some(t) => {
                            owned = Database::from_str(t).expect("generated database must load");
                            &owned
                        }
                        None => &default_db,
                    };
                    let table = v["table"].as_str().unwrap();
                    let rs: Vec<Value> = arr(&v["obs"])
                        .iter()
                        .map(|o| match table {
                            "tcp_request" => match_all(&db.tcp_request, &tcp_obs_from(o), TcpMatchQuality::distance_to_score),
                            "tcp_response" => match_all(&db.tcp_response, &tcp_obs_from(o), TcpMatchQuality::distance_to_score),
                            "http_request" => match_all(&db.http_request, &http_req_obs_from(o), HttpMatchQuality::distance_to_score),
                            "http_response" => match_all(&db.http_response, &http_resp_obs_from(o), HttpMatchQuality::distance_to_score),
                            t => panic!("table {t}"),
                        })
                        .collect();
                    json!({"res": rs})
                }
                "tcp_dist" => {
                    let s = tcp_sig_from(&v["sig"]);
                    let ds: Vec<i64> = arr(&v["obs"]).iter().map(|o| od(s.calculate_distance(&tcp_obs_from(o)))).collect();
                    let qs: Vec<i64> = ds.iter().map(|d| if *d < 0 { -1 } else { q100(DatabaseSignature::<huginn_net_db::observable_signals::TcpObservation>::get_quality_score(&s, *d as u32)) }).collect();
                    json!({"d": ds, "q": qs})
                }
                "http_dist" => {
                    let s = http_sig_from(&v["sig"]);
                    let resp = v["resp"].as_bool().unwrap_or(false);
                    let ds: Vec<i64> = arr(&v["obs"])
                        .iter()
                        .map(|o| if resp { od(s.calculate_distance(&http_resp_obs_from(o))) } else { od(s.calculate_distance(&http_req_obs_from(o))) })
                        .collect();
                    let qs: Vec<i64> = ds.iter().map(|d| if *d < 0 { -1 } else { q100(HttpMatchQuality::distance_to_score(*d as u32)) }).collect();
                    json!({"d": ds, "q": qs})
                }
                "ttl_table" => {
                    // for each observed TTL value: its distance to every signature TTL value, per signature form
                    let mut rows = vec![];
                    for o in arr(&v["obs"]) {
                        let ot = ttl_from(o);
                        rows.push(json!({"o": o, "sk": "value", "runs": rle((0..=255u8).map(|a| od(ot.distance_ttl(&Ttl::Value(a)))))}));
                        rows.push(json!({"o": o, "sk": "guess", "runs": rle((0..=255u8).map(|a| od(ot.distance_ttl(&Ttl::Guess(a)))))}));
                        rows.push(json!({"o": o, "sk": "bad", "runs": rle((0..=255u8).map(|a| od(ot.distance_ttl(&Ttl::Bad(a)))))}));
                        rows.push(json!({"o": o, "sk": "dist", "runs": rle((0..=255u8).flat_map(|a| (0..=31u8).map(move |b| (a, b))).map(|(a, b)| od(ot.distance_ttl(&Ttl::Distance(a, b)))))}));
                    }
                    json!({"rows": rows})
                }
                "win_table" => {
                    let u16s: Vec<u16> = arr(&v["u16"]).iter().map(|x| u(x) as u16).collect();
                    let mut rows = vec![];
                    for o in arr(&v["obs"]) {
                        let ow = ws_from(o);
                        for m in arr(&v["mss"]) {
                            let mi = m.as_i64().unwrap();
                            let mss = if mi < 0 { None } else { Some(mi as u16) };
                            rows.push(json!({"o": o, "mss": mi, "sk": "mss", "runs": rle((0..=255u8).map(|n| od(ow.distance_window_size(&WindowSize::Mss(n), mss))))}));
                            rows.push(json!({"o": o, "mss": mi, "sk": "mtu", "runs": rle((0..=255u8).map(|n| od(ow.distance_window_size(&WindowSize::Mtu(n), mss))))}));
                            rows.push(json!({"o": o, "mss": mi, "sk": "value", "runs": rle(u16s.iter().map(|n| od(ow.distance_window_size(&WindowSize::Value(*n), mss))))}));
                            rows.push(json!({"o": o, "mss": mi, "sk": "mod", "runs": rle(u16s.iter().map(|n| od(ow.distance_window_size(&WindowSize::Mod(*n), mss))))}));
                            rows.push(json!({"o": o, "mss": mi, "sk": "any", "runs": rle(std::iter::once(od(ow.distance_window_size(&WindowSize::Any, mss))))}));
                        }
                    }
                    json!({"rows": rows})
                }
                "hdr_table" => {
                    // header-list pairs: lists of length <= maxlen over the given alphabets, indexed in
                    // length-then-lexicographic order (index 0 = empty list); one row per observed list
                    use huginn_net_db::observable_http_signals_matching::HttpDistance;
                    use huginn_net_db::observable_signals::HttpRequestObservation;
                    let oa: Vec<huginn_net_db::http::Header> = arr(&v["obs_alpha"]).iter().map(header_from).collect();
                    let sa: Vec<huginn_net_db::http::Header> = arr(&v["sig_alpha"]).iter().map(header_from).collect();
                    let maxlen = u(&v["maxlen"]) as usize;
                    fn lists(alpha: &[huginn_net_db::http::Header], maxlen: usize) -> Vec<Vec<huginn_net_db::http::Header>> {
                        let mut all = vec![vec![]];
                        let mut prev: Vec<Vec<huginn_net_db::http::Header>> = vec![vec![]];
                        for _ in 0..maxlen {
                            let mut next = vec![];
                            for p in &prev {
                                for a in alpha {
                                    let mut q = p.clone();
                                    q.push(a.clone());
                                    next.push(q);
                                }
                            }
                            all.extend(next.iter().cloned());
                            prev = next;
                        }
                        all
                    }
                    let ol = lists(&oa, maxlen);
                    let sl = lists(&sa, maxlen);
                    let rows: Vec<Value> = ol
                        .iter()
                        .enumerate()
                        .map(|(i, o)| json!({"oi": i, "runs": rle(sl.iter().map(|s| od(<HttpRequestObservation as HttpDistance>::distance_header(o, s))))}))
                        .collect();
                    json!({"rows": rows, "nobs": ol.len(), "nsig": sl.len()})
                }
                "sw_table" => {
                    use huginn_net_db::observable_http_signals_matching::HttpDistance;
                    let strs: Vec<String> = arr(&v["strs"]).iter().map(|x| x.as_str().unwrap().to_string()).collect();
                    let mut rows = vec![];
                    for o in &strs {
                        let obs = huginn_net_db::observable_signals::HttpRequestObservation { version: http::Version::V11, horder: vec![], habsent: vec![], expsw: o.clone() };
                        let ds: Vec<i64> = strs
                            .iter()
                            .map(|sw| od(obs.distance_expsw(&http::Signature { version: http::Version::V11, horder: vec![], habsent: vec![], expsw: sw.clone() })))
                            .collect();
                        rows.push(json!({"o": o, "d": ds}));
                    }
                    json!({"rows": rows})
                }
                "db_sigs" => {
                    let f = |c: &Vec<(huginn_net_db::Label, Vec<tcp::Signature>)>| -> Vec<Value> {
                        c.iter().enumerate().flat_map(|(li, (l, sigs))| sigs.iter().enumerate().map(move |(si, s)| json!({"li": li + 1, "si": si + 1, "label": label_to(l), "sig": tcp_sig_to(s), "text": s.to_string()})).collect::<Vec<_>>()).collect()
                    };
                    let g = |c: &Vec<(huginn_net_db::Label, Vec<http::Signature>)>| -> Vec<Value> {
                        c.iter().enumerate().flat_map(|(li, (l, sigs))| sigs.iter().enumerate().map(move |(si, s)| json!({"li": li + 1, "si": si + 1, "label": label_to(l), "sig": http_sig_to(s), "text": s.to_string()})).collect::<Vec<_>>()).collect()
                    };
                    // "db": the text of a database to export instead of the bundled one
                    let custom = v.get("db").and_then(|t| t.as_str()).map(|t| Database::from_str(t).expect("generated database must load"));
                    let d = custom.as_ref().unwrap_or(&default_db);
                    json!({"tcp_request": f(&d.tcp_request.entries), "tcp_response": f(&d.tcp_response.entries),
                           "http_request": g(&d.http_request.entries), "http_response": g(&d.http_response.entries),
                           "mtu": d.mtu.iter().map(|(l, v)| json!({"label": l, "sigs": v})).collect::<Vec<_>>()})
                }
                "score_table" => {
                    json!({"tcp": score_breaks(TcpMatchQuality::distance_to_score), "http": score_breaks(HttpMatchQuality::distance_to_score)})
                }
                o => panic!("unknown op {o}"),
            }
        });
        let o = match res {
            Ok(mut r) => {
                r["id"] = id;
                r["op"] = json!(op);
                r
            }
            Err(e) => json!({"id": id, "op": op, "panic": e}),
        };
        writeln!(out, "{o}").map_err(|e| e.to_string())?;
    }
    Ok(())
}
