#!/bin/bash
# run every check (tier $1, default quick) on the current tree; one line per property
cd /verif
t=${1:-quick}
for i in 01 02 03 04 05 06 07 08 09 10 11 12 13 14 15 16 17 18 19 20; do
  s=$(date +%s); out=$(./check C$i $t 2>&1); rc=$?; e=$(date +%s)
  echo "C$i $t exit=$rc $((e-s))s known=$(echo "$out" | grep -c '^KNOWN-FINDING') viol=$(echo "$out" | grep -c '^VIOLATION')"
  [ $rc -ne 0 ] && echo "$out" | tail -5
done
