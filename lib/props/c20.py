"""C20 — the unified analyzer equals the union of the protocol analyzers; configuration only masks.

A  TV_C20 (ASSUME over Unified.tla): for all 32 configurations and a presence matrix of protocol results, disabling a protocol
   removes exactly that protocol's fields and disabling matching only turns qualities into `disabled`, raw parts unchanged.
C  packet traces (interleaved TCP handshakes with timestamps and advancing clock, HTTP exchanges, one- and multi-segment
   ClientHellos, IPv6, malformed / non-TCP / invalid-flag frames) are fed, packet by packet, to one HuginnNet per
   configuration (16 switch combinations x with/without database) and to the TCP, HTTP and stateless TLS analyzers, which
   share nothing but the scripted clock; TLC checks for every packet that the unified result is Unified!Merge of the three."""
import hashlib, json, os, random
import vlib
from props import c10

PID = "C20"


def dg(x):
    return hashlib.sha1(json.dumps(x, sort_keys=True).encode()).hexdigest()[:12]


def fld_tcp(name, x):
    if x is None:
        return []
    if name in ("syn", "syn_ack"):
        return [{"raw": dg({"obs": x["obs"], "src": x["src"], "dst": x["dst"]}), "lab": dg(x["os"]), "q": str(x["q"])}]
    if name == "mtu":
        return [{"raw": dg({"mtu": x["mtu"], "src": x["src"], "dst": x["dst"]}), "lab": dg(x["link"]), "q": str(x["q"])}]
    return [{"raw": dg(x), "lab": "", "q": ""}]


def fld_http(name, x):
    if x is None:
        return []
    # `Anonymous` (no User-Agent at all) is a property of the message, not of the matcher: it belongs to the raw part
    anon = str(x["diagnosis"]).lower() == "anonymous"
    if name == "req":
        return [{"raw": dg({"sig": x["sig"], "src": x["src"], "dst": x["dst"], "lang": x["lang"], "anonymous": anon}), "lab": dg({"b": x["browser"], "d": x["diagnosis"]}), "q": str(x["q"])}]
    return [{"raw": dg({"sig": x["sig"], "src": x["src"], "dst": x["dst"], "anonymous": anon}), "lab": dg({"s": x["server"], "d": x["diagnosis"]}), "q": str(x["q"])}]


def mask_lab(cfg, rec):
    return rec


def partly_rejected_connections():
    """HTTP connections in which one packet is refused by one protocol analyzer (invalid flag combination, IP fragment, no
    flags at all) but carries state for another, followed by packets every analyzer accepts: the per-protocol state of the
    unified analyzer must evolve like that of the protocol analyzers, so the later, commonly accepted packets agree."""
    out = []
    R = b"GET /pr HTTP/1.1\r\nHost: pr.example\r\nUser-Agent: pr-agent\r\nAccept: */*\r\n\r\n"
    S = b"HTTP/1.1 200 OK\r\nServer: pr-srv\r\nContent-Type: text/plain\r\n\r\nok"
    srv = (10, 8, 0, 2)

    def mf(f):
        b = bytearray(f)
        b[20] = 0x20                       # more-fragments
        return bytes(b)
    for k, first_flags in enumerate((0x03, 0x06, 0x02)):          # connection opened by SYN+FIN, SYN+RST, plain SYN
        cli = (10, 8, 1, 1 + k)
        cp = 42000 + k
        out.append(c10.frame(cli, srv, cp, 80, 100, 0, first_flags, ipid=9100 + 10 * k))
        out.append(c10.frame(srv, cli, 80, cp, 500, 101, 0x12, ipid=9101 + 10 * k))
        out.append(c10.frame(cli, srv, cp, 80, 101, 501, 0x18, R, ipid=9102 + 10 * k))
        out.append(c10.frame(srv, cli, 80, cp, 501, 101 + len(R), 0x18, S, ipid=9103 + 10 * k))
    # a request without any User-Agent (diagnosis `Anonymous` with or without a matcher), and a response to it
    cli = (10, 8, 3, 1)
    Rn = b"GET /anon HTTP/1.1\r\nHost: anon.example\r\nAccept: */*\r\n\r\n"
    out += [c10.frame(cli, srv, 42200, 80, 100, 0, 0x02, ipid=9300), c10.frame(srv, cli, 80, 42200, 500, 101, 0x12, ipid=9301),
            c10.frame(cli, srv, 42200, 80, 101, 501, 0x18, Rn, ipid=9302), c10.frame(srv, cli, 80, 42200, 501, 101 + len(Rn), 0x18, b"HTTP/1.0 200 OK\r\n\r\nx", ipid=9303)]
    for k, variant in enumerate(("mf", "noflags", "synrst_data", "finrst_data")):     # first half of the head in a packet one analyzer refuses
        cli = (10, 8, 2, 1 + k)
        cp = 42100 + k
        out.append(c10.frame(cli, srv, cp, 80, 100, 0, 0x02, ipid=9200 + 10 * k))
        out.append(c10.frame(srv, cli, 80, cp, 500, 101, 0x12, ipid=9201 + 10 * k))
        first = c10.frame(cli, srv, cp, 80, 101, 501, {"mf": 0x18, "noflags": 0x00, "synrst_data": 0x06, "finrst_data": 0x05}[variant], R[:20], ipid=9202 + 10 * k)
        out.append(mf(first) if variant == "mf" else first)
        out.append(c10.frame(cli, srv, cp, 80, 121, 501, 0x18, R[20:], ipid=9203 + 10 * k))
        out.append(c10.frame(srv, cli, 80, cp, 501, 101 + len(R), 0x18, S, ipid=9204 + 10 * k))
    return out


def ipv6_connections():
    """complete IPv6 connections (handshake with options, HTTP exchange, one-segment ClientHello) between addresses of special forms:
    IPv4-mapped (::ffff:a.b.c.d), IPv4-compatible (::a.b.c.d), the unspecified / loopback neighbourhood, ordinary global ones.
    The endpoints reported are the ones on the wire, by every analyzer."""
    forms = [bytes([0] * 10 + [0xff, 0xff, 192, 0, 2, 10]), bytes([0] * 12 + [192, 0, 2, 11]), bytes([0] * 15 + [1]), bytes([0x20, 1, 0xd, 0xb8] + [0] * 11 + [7]),
             bytes([0x20, 2, 192, 0, 2, 12] + [0] * 10), bytes([0, 0x64, 0xff, 0x9b] + [0] * 8 + [192, 0, 2, 13])]
    srv = [bytes([0] * 10 + [0xff, 0xff, 192, 0, 2, 20]), bytes([0x20, 1, 0xd, 0xb8] + [0] * 11 + [9])]
    synopts = b"\x02\x04\x05\xa0\x04\x02\x08\x0a\x00\x00\x20\x00\x00\x00\x00\x00\x01\x03\x03\x07"
    out = []
    for k, a in enumerate(forms):
        b = srv[k % 2]
        cp = 42000 + k
        R = ("GET /v6-%d HTTP/1.1\r\nHost: v6.example\r\nUser-Agent: v6-agent/%d\r\nAccept: */*\r\n\r\n" % (k, k)).encode()
        S = ("HTTP/1.1 200 OK\r\nServer: v6-srv/%d\r\nContent-Type: text/plain\r\n\r\nok" % k).encode()
        out += [c10.frame6(a, b, cp, 80, 100, 0, 0x02, opts=synopts), c10.frame6(b, a, 80, cp, 700, 101, 0x12, opts=synopts, hlim=128),
                c10.frame6(a, b, cp, 80, 101, 701, 0x18, R), c10.frame6(b, a, 80, cp, 701, 101 + len(R), 0x18, S),
                c10.frame6(a, b, cp + 100, 443, 1, 1, 0x18, c10.hello("v6-%d.example" % k))]
    return out


def h2_connections():
    """cleartext HTTP/2 exchanges (prior knowledge: preface, SETTINGS, request HEADERS on two streams; the server's SETTINGS, HEADERS,
    DATA), over IPv4 and IPv6: the HTTP fields of the unified analyzer are those of the HTTP analyzer for every protocol version"""
    from props import c09
    out = []
    synopts = b"\x02\x04\x05\xb4\x04\x02\x08\x0a\x00\x00\x30\x00\x00\x00\x00\x00\x01\x03\x03\x07"
    for k, (R, S) in enumerate(((c09.REQ_E, c09.RESP_E), (c09.REQ_F, c09.RESP_F))):
        a4, b4, cp = (10, 7, 3, 1 + k), (10, 7, 3, 100), 43000 + k
        out += [c10.frame(a4, b4, cp, 80, 100, 0, 0x02, opts=synopts, ipid=9100 + 10 * k), c10.frame(b4, a4, 80, cp, 700, 101, 0x12, opts=synopts, ipid=9101 + 10 * k, ttl=128),
                c10.frame(a4, b4, cp, 80, 101, 701, 0x18, R, ipid=9102 + 10 * k), c10.frame(b4, a4, 80, cp, 701, 101 + len(R), 0x18, S, ipid=9103 + 10 * k)]
        a6, b6 = bytes([0x20, 1, 0xd, 0xb8] + [0] * 11 + [0x20 + k]), bytes([0x20, 1, 0xd, 0xb8] + [0] * 11 + [0x99])
        out += [c10.frame6(a6, b6, cp, 8080, 100, 0, 0x02, opts=synopts), c10.frame6(b6, a6, 8080, cp, 700, 101, 0x12, opts=synopts, hlim=128),
                c10.frame6(a6, b6, cp, 8080, 101, 701, 0x18, R), c10.frame6(b6, a6, 8080, cp, 701, 101 + len(R), 0x18, S)]
    return out


def self_connections():
    """packets whose two endpoints coincide (same address AND same port: TCP simultaneous-open to oneself on loopback, spoofed
    "land" segments on any address), IPv4 and IPv6: every analyzer reports them like any other packet, and so does the unified one;
    plus the neighbouring cases (same address, other port; same port, other address)"""
    synopts = b"\x02\x04\xff\xd7\x04\x02\x08\x0a\x00\x00\x40\x00\x00\x00\x00\x00\x01\x03\x03\x07"
    lo, a = (127, 0, 0, 1), (10, 9, 0, 1)
    lo6 = bytes([0] * 15 + [1])
    R = b"GET /self HTTP/1.1\r\nHost: self.example\r\nUser-Agent: self-agent\r\nAccept: */*\r\n\r\n"
    out = []
    for k, (x, y, px, py) in enumerate(((lo, lo, 5000, 5000), (a, a, 80, 80), (lo, lo, 5001, 5002), (a, (10, 9, 0, 2), 5003, 5003))):
        out += [c10.frame(x, y, px, py, 100, 0, 0x02, opts=synopts, ipid=9400 + 10 * k), c10.frame(y, x, py, px, 300, 101, 0x12, opts=synopts, ipid=9401 + 10 * k),
                c10.frame(x, y, px, py, 101, 301, 0x18, R, ipid=9402 + 10 * k)]
    out.append(c10.frame(lo, lo, 443, 443, 1, 1, 0x18, c10.hello("self.example"), ipid=9450))
    out += [c10.frame6(lo6, lo6, 6000, 6000, 100, 0, 0x02, opts=synopts), c10.frame6(lo6, lo6, 6000, 6000, 101, 1, 0x18, R),
            c10.frame6(lo6, lo6, 8443, 8443, 1, 1, 0x18, c10.hello("self6.example"))]
    return out


def run(tier, v):
    wd = vlib.workdir(PID)
    vlib.build_harness()
    rng = random.Random(vlib.seed())
    traces = []
    for t in range(3 if tier == "thorough" else 1):
        tr = c10.build_traces(rng, 4 + t, nrich=5)
        frames = []
        for crate in ("tcp", "http", "tls"):
            frames += [f for _, f in tr[crate]]
        # one-segment hello, IPv6 SYN, malformed frames
        H = c10.hello("one.example")
        frames.append(c10.frame((10, 7, 0, 1), (10, 7, 0, 2), 41000, 443, 1, 1, 0x18, H, ipid=9001))
        frames.append(bytes.fromhex("0200000000020200000000018 6dd".replace(" ", "")) + bytes([0x60, 0, 0, 0, 0, 24, 6, 64]) + bytes([0x20, 1, 0xd, 0xb8] + [0] * 11 + [1]) + bytes([0x20, 1, 0xd, 0xb8] + [0] * 11 + [2]) +
                      bytes([0x9c, 0x40, 0, 80, 0, 0, 0, 5, 0, 0, 0, 0, 0x60, 0x02, 0xff, 0xff, 0, 0, 0, 0, 2, 4, 5, 0xa0]))
        frames.append(c10.frame((10, 7, 0, 3), (10, 7, 0, 2), 41001, 80, 1, 0, 0x03, ipid=9002))            # SYN+FIN: invalid flags
        frames.append(c10.frame((10, 7, 0, 3), (10, 7, 0, 2), 41001, 80, 1, 0, 0x02, ipid=9003)[:40])       # truncated
        udp = bytearray(c10.frame((10, 7, 0, 4), (10, 7, 0, 2), 41002, 53, 1, 0, 0x02, ipid=9004))
        udp[23] = 17
        frames.append(bytes(udp))
        frames.append(b"\x00" * 10)
        # other framings of the same kind of packet (raw IP, loopback header), and Ethernet frames whose IP version nibble
        # contradicts the EtherType (the protocol analyzers go by the EtherType: so must the unified one)
        synopts = b"\x02\x04\x05\xb4\x04\x02\x08\x0a\x00\x00\x10\x00\x00\x00\x00\x00\x01\x03\x03\x07"
        for k, link in enumerate(("raw", "null")):
            frames.append(c10.relink(c10.frame((10, 7, 1, 1 + k), (10, 7, 0, 2), 41100 + k, 80, 5, 0, 0x02, opts=synopts, ipid=9010 + k), link))
            # the smallest segments there are, without a link-layer header: a SYN with an MSS option only (44 octets), a SYN+ACK without
            # options (40), a bare ACK with timestamps (52)
            frames.append(c10.relink(c10.frame((10, 7, 1, 11 + k), (10, 7, 0, 2), 41110 + k, 80, 5, 0, 0x02, opts=b"\x02\x04\x05\xb4", ipid=9030 + k), link))
            frames.append(c10.relink(c10.frame((10, 7, 0, 2), (10, 7, 1, 11 + k), 80, 41110 + k, 9, 6, 0x12, ipid=9032 + k), link))
            frames.append(c10.relink(c10.frame((10, 7, 1, 11 + k), (10, 7, 0, 2), 41110 + k, 80, 6, 10, 0x10, opts=b"\x01\x01\x08\x0a\x00\x00\x20\x00\x00\x00\x00\x00", ipid=9034 + k), link))
        for k, nib in enumerate((0x05, 0x65, 0xf5, 0x15)):
            b = bytearray(c10.frame((10, 7, 2, 1 + k), (10, 7, 0, 2), 41200 + k, 80, 5, 0, 0x02, opts=synopts, ipid=9020 + k))
            b[14] = nib
            frames.append(bytes(b))
        rng.shuffle(frames)
        # keep per-connection order: re-sort the shuffled list by original index within each connection is not needed for the
        # relation (both sides see the same order); but handshakes should precede data for interesting results
        traces.append(sorted(frames, key=lambda f: 0) if False else frames)
    # ordered variant: the un-shuffled concatenation gives complete connections
    tr = c10.build_traces(rng, 5, nrich=6)
    traces.append([f for crate in ("tcp", "http", "tls") for _, f in tr[crate]] + partly_rejected_connections() + ipv6_connections() + h2_connections() + self_connections())
    # a trace with IPv4 and IPv6 handshakes and exchanges under a database in which every observation is a signature of both tables of
    # its protocol, labelled by table (see C02 table selection): labels must agree between the unified and the protocol analyzers
    from props import c02
    ts_frames, _, ts_db = c02.table_db(wd)
    traces.append(ts_frames)
    ts_index = len(traces) - 1
    cfgs = [{"tcp": a, "http": b, "tls": c, "matcher": m, "db": d} for a in (True, False) for b in (True, False) for c in (True, False) for m in (True, False) for d in (True, False)]
    lines, meta = [], {}
    for ti, frames in enumerate(traces):
        clock = [1700000000000 + 137 * i for i in range(len(frames))]
        for ci, cfg in enumerate(cfgs):
            i = len(lines)
            meta[i] = (ti, cfg)
            lines.append({"id": i, "crate": "c20", "frames": [f.hex() for f in frames], "cfg": cfg, "matcher": cfg["db"], "clock": clock})
            if ti == ts_index:
                lines[-1]["db"] = ts_db
    req = os.path.join(wd, "c20.req")
    vlib.write_ndjson(req, lines)
    out = os.path.join(wd, "c20.out")
    vlib.run_hv("ana", req, out, timeout=3000, env={"HV_PCAP_DIR": os.path.join(wd, "pcap")})
    trace = os.path.join(wd, "trace.ndjson")
    n = n_nontriv = n_ctor = 0
    info = {}
    with open(trace, "w") as f:
        for o in vlib.read_ndjson(out):
            ti, cfg = meta[o["id"]]
            if "panic" in o:
                v.violation({"cfg": cfg, "observed": "panic: " + o["panic"]})
                continue
            expect_ctor_ok = not (cfg["matcher"] and (cfg["tcp"] or cfg["http"]) and not cfg["db"])
            if ("ctor_error" in o) == expect_ctor_ok:
                v.violation({"cfg": cfg, "expected_constructor_ok": expect_ctor_ok, "observed": o.get("ctor_error", "constructed")})
                continue
            if "ctor_error" in o:
                n_ctor += 1
                continue
            for k, row in enumerate(o["rows"]):
                n += 1
                if "panic" in row["uni"]:
                    v.violation({"cfg": cfg, "frame": traces[ti][k].hex(), "observed": "panic in unified analyzer: " + row["uni"]["panic"]})
                    continue
                t, h, l = row["tcp"], row["http"], row["tls"]
                res = {
                    "tcp": {"acc": t["r"] == "ok", "f": {nm: fld_tcp(nm, t["res"][nm]) if t["r"] == "ok" else [] for nm in ("syn", "syn_ack", "mtu", "client_uptime", "server_uptime")}},
                    "http": {"acc": h["r"] == "ok", "f": {nm: fld_http(nm, h["res"][nm]) if h["r"] == "ok" else [] for nm in ("req", "resp")}},
                    "tls": {"acc": l["r"] == "ok", "f": {"tls": [{"raw": dg(l["sig"]), "lab": "", "q": ""}] if l["r"] == "ok" and l["sig"] else []}},
                }
                u_ = row["uni"]
                uni = {nm: fld_tcp(nm, u_[nm]) for nm in ("syn", "syn_ack", "mtu", "client_uptime", "server_uptime")}
                uni.update({nm: fld_http(nm, u_[nm]) for nm in ("req", "resp")})
                uni["tls"] = [{"raw": dg(u_["tls"]["sig"]), "lab": "", "q": ""}] if u_["tls"] else []
                if not (cfg["matcher"] and cfg["db"]):
                    # labels of a result produced with matching disabled carry no information: normalise like Merge does
                    for nm in ("syn", "syn_ack", "mtu", "req", "resp"):
                        for rec in uni[nm]:
                            if rec["q"] == "disabled":
                                rec["lab"] = ""
                n_nontriv += any(uni.values()) or any(x for p in res.values() for x in p["f"].values())
                info[(o["id"], k)] = (ti, cfg, k)
                f.write(json.dumps({"id": o["id"], "k": k, "cfg": cfg, "res": res, "uni": uni}) + "\n")
    # ---- the capture front ends: HuginnNet::analyze_pcap against the analyze_pcap of the three protocol analyzers on the same capture
    # (everything enabled, with the database): per field, the unified analyzer reports what the protocol analyzer reports -- frame by
    # frame the loop of the front end may not treat a capture differently (framings without link-layer header, short frames, noise)
    fe = []
    # connections every analyzer accepts packet by packet (plain flags, no fragments), so that whole captures can be compared
    trf = c10.build_traces(rng, 4)
    small = [c10.frame((10, 7, 1, 21), (10, 7, 0, 2), 41120, 80, 5, 0, 0x02, opts=b"\x02\x04\x05\xb4", ipid=9040), c10.frame((10, 7, 0, 2), (10, 7, 1, 21), 80, 41120, 9, 6, 0x12, ipid=9041),
             c10.frame((10, 7, 1, 21), (10, 7, 0, 2), 41120, 80, 6, 10, 0x10, opts=b"\x01\x01\x08\x0a\x00\x00\x20\x00\x00\x00\x00\x00", ipid=9042)]
    fe_traces = [[f for crate in ("tcp", "http") for _, f in trf[crate]] + ipv6_connections() + h2_connections() + small]
    for ti, frames in enumerate(fe_traces):
        for link in ("asis", "raw", "null"):
            fs = [f if (link == "asis" or len(f) < 34 or f[12:14] not in (b"\x08\x00", b"\x86\xdd")) else c10.relink(f, link) for f in frames]
            for crate in ("uni", "tcp", "http"):
                fe.append({"id": "%d|%s|%s" % (ti, link, crate), "crate": crate, "frames": [f.hex() for f in fs], "matcher": True, "cfg": {"http": True, "tcp": True, "tls": True, "matcher": True}})
    # the same capture rotated into two files (after the handshakes, in the middle of the exchanges): one analyzer instance analyses
    # them one after the other; the HTTP fields of the unified analyzer stay those of the HTTP analyzer, which keeps its connections
    fs0 = fe_traces[0]
    for sp in sorted({2, len(fs0) // 3, len(fs0) // 2, len(fs0) - 3}):
        for crate in ("uni", "http"):
            fe.append({"id": "0|split%d|%s" % (sp, crate), "crate": crate, "frames": [f.hex() for f in fs0], "split": sp, "matcher": True, "cfg": {"http": True, "tcp": True, "tls": True, "matcher": True}})
    freq = os.path.join(wd, "fe.req")
    vlib.write_ndjson(freq, fe)
    fout = os.path.join(wd, "fe.out")
    vlib.run_hv_split("ana", freq, fout, parts=6, timeout=3000, env={"HV_PCAP_DIR": os.path.join(wd, "pcap")})
    got = {}
    for o in vlib.read_ndjson(fout):
        ti, link, crate = o["id"].split("|")
        if "panic" in o:
            v.violation({"front_end": crate, "framing": link, "observed": "panic: " + o["panic"]})
            continue
        bag = []
        for r_ in o.get("results", []):
            if crate == "tls":
                bag.append(("tls", dg(r_)))
                continue
            # (the TLS fields of the unified analyzer are those of the STATELESS TLS analyzer, which has no capture front end of its own)
            for nm in ("syn", "syn_ack", "mtu", "client_uptime", "server_uptime", "req", "resp"):
                x = r_.get(nm)
                if not x:
                    continue
                if nm in ("req", "resp"):
                    bag.append((nm, dg({"sig": x["sig"], "src": x["src"], "dst": x["dst"]})))       # what both projections carry
                else:
                    bag.append((nm, dg(fld_tcp(nm, x))))
        got[(ti, link, crate)] = sorted(bag)
    n_fe = 0
    for (ti, link, crate), bag in got.items():
        if crate != "uni":
            continue
        union = sorted(sum((got.get((ti, link, c), []) for c in ("tcp", "http")), []))
        if link.startswith("split"):
            # (the TCP analyzer starts every capture with an empty tracker, by design: only the HTTP fields are compared)
            bag = [x for x in bag if x[0] in ("req", "resp")]
            union = sorted(got.get((ti, link, "http"), []))
        n_fe += 1
        if bag != union:
            only_u = [x for x in bag if x not in union]
            only_p = [x for x in union if x not in bag]
            v.violation({"path": "analyze_pcap (capture front ends)", "trace": int(ti), "framing": {"asis": "as generated (mostly Ethernet)", "raw": "no link-layer header", "null": "4-octet loopback header"}.get(link, "as generated, the capture rotated into two files at frame " + link[5:] + " (same analyzer instance)"),
                         "fields_only_the_unified_analyzer_reports": [x[0] for x in only_u][:20], "fields_only_the_protocol_analyzers_report": [x[0] for x in only_p][:20],
                         "unified_results": len(bag), "protocol_results": len(union)})
    r2 = vlib.tlc("TV_C20", pid=PID, workers=8, env={"TRACE": trace}, timeout=1800, heap="10g")

    if tier == "thorough":
        def mut(rows):
            k = next(i for i, r_ in enumerate(rows) if any(r_["uni"][nm] for nm in r_["uni"]))
            r_ = json.loads(json.dumps(rows[k]))
            nm = next(n_ for n_ in r_["uni"] if r_["uni"][n_])
            r_["uni"][nm][0]["raw"] = "corrupted"
            return rows[:20] + [r_], "the raw part of one field of one unified result is altered"
        v.binding.append(vlib.binding_demo("TV_C20", trace, mut, PID, workers=4, timeout=900, heap="4g"))
    for b in r2.lines.get("BAD", []):
        ti, cfg, k = info[(b["id"], b["k"])]
        v.violation({"cfg": cfg, "packet_index": k, "frame": traces[ti][k].hex(), "fields_that_differ": b["fields"], "expected_from_protocol_analyzers": b["want"], "unified_reported": b["got"]})
    return v.finish("model_checking", {
        "states": r2.distinct, "transitions": r2.generated, "traces_validated_against_impl": len(meta) - n_ctor, "evaluations": n, "distinct_nontrivial": n_nontriv,
        "rule": "%d traces x 32 configurations (16 switch combinations x with/without database; %d rejected at construction as specified), every packet compared; non-trivial = packets for which some analyzer reports something" % (len(traces), n_ctor),
        "samples": [{"cfg": cfgs[0], "trace_frames": len(traces[0])}], "exhaustive": False,
    }, ["the protocol analyzers run with matching on; Unified!Merge applies the configuration", "fields are compared through digests of their raw part (signature, endpoints), label part and quality",
        "TLS side is the stateless one-segment analyzer (process_tls_ipv4/6); endpoints of TLS results are not compared", "clock scripted through hook H1 (advances 137 ms per packet)"])


def replay(path, v):
    return run("quick", v)
