"""C19 — uptime estimates are sound for steady clocks and withheld otherwise.

B  MC_C19 (Uptime.tla): TLC generates scenarios of timestamped segments (every rate 1..1500 Hz and outside x intervals around the
   25 ms / 100 ms / 600 s bounds x timestamp bases incl. 2^31 and 2^32 wrap; client and server interleaved; an out-of-bounds
   second segment followed by a good one; backward movement), renders them to frames and computes, with exact arithmetic,
   the set of acceptable outputs per segment; the real TCP analyzer is driven with the clock hook scripted to the scenario's
   arrival times and must report one of them, under the right role."""
import json, os
import vlib

PID = "C19"


def observed(o):
    """(role, record) reported for one frame, or None."""
    if o["r"] != "ok":
        return ("?", {"error": o.get("e", o["r"])}) if o["r"] == "panic" else None
    res = o["res"]
    outs = []
    for fld, role in (("client_uptime", "Client"), ("server_uptime", "Server")):
        u = res[fld]
        if u:
            f = u["freq"]
            outs.append((fld, u["role"], {"days": u["days"], "hours": u["hours"], "min": u["min"], "mod": u["mod"], "freq": int(f) if float(f).is_integer() else f}))
    if not outs:
        return None
    if len(outs) > 1:
        return ("both", {"both": [x[2] for x in outs]})
    fld, role, rec = outs[0]
    if (fld == "client_uptime") != (role == "Client"):
        return ("mislabelled", rec)
    return (role, rec)


def acceptable(exp_step, got):
    outs = exp_step
    if got is None:
        return [] in outs
    role, rec = got
    for o in outs:
        if o == ["any"]:
            return True
        if o and o[0] == rec:
            return True
    return False


def run(tier, v):
    wd = vlib.workdir(PID)
    vlib.build_harness()
    K = set(vlib.known_devs(PID))
    fams = [("freq", 1 if tier == "thorough" else 23), ("both", 1 if tier == "thorough" else 3), ("bad", 1), ("back", 1), ("role", 1), ("hsflags", 1), ("zero", 1)]
    n_steps = n_reports = n_scen = 0
    states = trans = 0
    samples = []
    for fam, stride in fams:
        vec = os.path.join(wd, "vec-%s.ndjson" % fam)
        exp = {}
        with open(vec, "w") as f:
            def sink(tag, o):
                if tag != "REPLAY":
                    return
                i = len(exp)
                exp[i] = o
                f.write(json.dumps({"id": i, "op": "frames", "frames": o["frames"], "clock": o["clock"]}) + "\n")
            r = vlib.tlc("MC_C19", pid=PID, workers=16 if tier == "thorough" else 8, tag_sink=sink, timeout=3000, heap="10g",
                         env={"VERIF_FAM": fam, "VERIF_STRIDE": stride, "VERIF_OFFSET": vlib.seed()})
        states += r.distinct
        trans += r.generated
        out = os.path.join(wd, "obs-%s.ndjson" % fam)
        vlib.run_hv("tcp", vec, out)
        seen = 0
        for o in vlib.read_ndjson(out):
            seen += 1
            e = exp[o["id"]]
            n_scen += 1
            for i, (st, fr) in enumerate(zip(e["exp"], o["out"])):
                n_steps += 1
                got = observed(fr)
                n_reports += got is not None
                ok = acceptable(st["outs"], got) and (got is None or got[0] == st["role"] or ["any"] in st["outs"])
                if ok:
                    continue
                if acceptable(st["devouts"], got) and (got is None or got[0] == st["role"]) and "D19_guess_returns_base" in K:
                    v.known_hit("D19_guess_returns_base", "a rate within 10% of k x 100 Hz (k >= 2) is reported as 100 Hz instead of k x 100 Hz")
                    continue
                v.violation({"family": fam, "k": e["k"], "segments": e["segs"], "step": i + 1, "expected_role": st["role"],
                             "acceptable_outputs": st["outs"], "observed": got, "frames": ["".join("%02x" % b for b in fr_) for fr_ in e["frames"]]})
            if len(samples) < 3 and any(s["outs"] != [[]] for s in e["exp"]) and n_scen % 211 == 1:
                samples.append({"family": fam, "segments": e["segs"], "acceptable_outputs_per_segment": [s["outs"] for s in e["exp"]]})
        if seen != len(exp):
            raise vlib.ToolError("harness answered %d of %d scenarios (%s)" % (seen, len(exp), fam))
        if fam in ("freq", "both"):
            # the same scenarios through the pool an application gets (HuginnNetTcp::with_config + init_pool + worker_pool()): four workers,
            # room for two endpoints per worker (the connection capacity is per worker), the clock scripted per dispatch call; the
            # estimates reported are those of the sequential analyzer, judged above
            seq = {o["id"]: sorted(json.dumps(observed(fr), sort_keys=True) for fr in o["out"] if observed(fr) is not None) for o in vlib.read_ndjson(out)}
            pick = [i for i in sorted(exp) if seq.get(i)][:: max(1, len([i for i in exp if seq.get(i)]) // (200 if tier == "thorough" else 40))]
            preq, pout = os.path.join(wd, "pool-%s.req" % fam), os.path.join(wd, "pool-%s.out" % fam)
            vlib.write_ndjson(preq, [{"id": i, "crate": "tcp_cfg", "workers": 4, "queue": 64, "batch": 1, "timeout_ms": 5, "cap": 2, "matcher": False, "perturb": 0, "gap_us": 4000, "grace_ms": 10,
                                      "dispatchers": [["".join("%02x" % b for b in fr_) for fr_ in exp[i]["frames"]]], "clock": exp[i]["clock"]} for i in pick])
            vlib.run_hv_split("pool", preq, pout, parts=8, timeout=1800)
            pool_line = lambda i, gap: {"id": i, "crate": "tcp_cfg", "workers": 4, "queue": 64, "batch": 1, "timeout_ms": 5, "cap": 2, "matcher": False, "perturb": 0, "gap_us": gap, "grace_ms": 10,
                                        "dispatchers": [["".join("%02x" % b for b in fr_) for fr_ in exp[i]["frames"]]], "clock": exp[i]["clock"]}
            est = lambda o: sorted(json.dumps(observed({"r": "ok", "res": r_}), sort_keys=True) for r_ in o.get("results", []) if observed({"r": "ok", "res": r_}) is not None)
            first = list(vlib.read_ndjson(pout))
            # a worker that is not scheduled for longer than the gap between two dispatch calls reads a later clock value: scenarios whose
            # estimates differ are run once more, one at a time, with 40 ms between the calls; only what differs again is reported
            again = [o["id"] for o in first if not (o.get("skipped") or "panic" in o or o.get("timed_out")) and est(o) != seq[o["id"]]]
            redo = {}
            if again:
                vlib.write_ndjson(preq + ".again", [pool_line(i, 40000) for i in again])
                vlib.run_hv("pool", preq + ".again", pout + ".again", timeout=1800)
                redo = {o["id"]: o for o in vlib.read_ndjson(pout + ".again")}
            for o in first:
                o = redo.get(o["id"], o)
                if o.get("skipped"):
                    continue
                e = exp[o["id"]]
                if "panic" in o or o.get("timed_out"):
                    v.violation({"family": fam, "k": e["k"], "path": "pool built by with_config + init_pool", "observed": o.get("panic", "queued packets were not taken up")})
                    continue
                got = est(o)
                n_steps += len(e["frames"])
                if got != seq[o["id"]]:
                    v.violation({"family": fam, "k": e["k"], "segments": e["segs"], "path": "pool built by HuginnNetTcp::with_config(max_connections = 2, workers = 4) + init_pool, packets dispatched one by one",
                                 "estimates_of_the_sequential_analyzer": [json.loads(x) for x in seq[o["id"]]], "estimates_from_the_pool": [json.loads(x) for x in got]})
    if not samples:
        samples.append({"note": "no sample drawn"})
    return v.finish("model_checking", {
        "states": states, "transitions": trans, "traces_validated_against_impl": n_scen,
        "evaluations": n_steps, "distinct_nontrivial": n_reports,
        "rule": "scenarios of MC_C19 (families freq/both/bad/back/role, strides %s): %d scenarios, %d segments; non-trivial = segments for which the analyzer reported an estimate" % (dict(fams), n_scen, n_steps),
        "samples": samples, "exhaustive": tier == "thorough",
    }, ["clock injected through hook H1 (verif_clock) and scripted per segment", "expected values use the observed pair (dms, dts), exact integer arithmetic; exact ties of a rounding/tolerance comparison are accepted either way",
        "nothing is demanded of the output for timestamps that move backwards", "traffic keeps a stable role per endpoint (client port > 1024, server port 80)"])


def replay(path, v):
    return run("quick", v)
