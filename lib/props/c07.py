"""C07 — connections are analysed in isolation: results do not depend on other traffic.

A  MC_C07 (Analyzer.tla): all order-preserving interleavings of connection scripts (incl. HTTP/2 header blocks that insert
   into the HPACK table, reference entry 62 without inserting, or set the table size to 0); NonInterference holds with
   per-connection tables and is violated with one shared table (the model sees the historical defect).
B  TLC enumerates every interleaving of the packets of 2-3 real connections (TCP handshake with timestamps, ClientHello in two
   segments, HTTP/1 exchange, four HTTP/2 connection starts rendered by Hpack/Http2 incl. the adversarial ones); each schedule
   is replayed into one HuginnNetHttp / HuginnNetTls / HuginnNetTcp / HuginnNet instance (analyze_pcap, clock frozen) and
   each connection alone into a fresh instance; TLC checks per connection that the attributed results are equal (TV_C07)."""
import hashlib, itertools, json, os, random
import vlib
from props import c10

PID = "C07"


def dg(x):
    return hashlib.sha1(json.dumps(x, sort_keys=True).encode()).hexdigest()[:12]


def tcp_conn(idx, payload_segs, port=80, resp=None, syn_opts=False, cip=None, sip=None, cp=None):
    """frames of one connection: SYN, SYN+ACK, client data segments, optional server response"""
    cip = cip or (10, 50, idx // 250, 1 + idx % 250)
    sip = sip or (10, 60, 0, 1)
    cp = cp or 30000 + idx
    ic, is_ = 1000 * (idx + 1), 7000 * (idx + 1)
    opts = (b"\x02\x04\x05\xb4\x04\x02\x08\x0a" + (5000 + idx).to_bytes(4, "big") + b"\x00\x00\x00\x00\x01\x03\x03\x07") if syn_opts else b""
    fr = [c10.frame(cip, sip, cp, port, ic, 0, 0x02, opts=opts, ipid=idx * 50 + 1), c10.frame(sip, cip, port, cp, is_, ic + 1, 0x12, opts=opts, ipid=idx * 50 + 2, ttl=128)]
    off = 0
    for k, seg in enumerate(payload_segs):
        fr.append(c10.frame(cip, sip, cp, port, ic + 1 + off, is_ + 1, 0x18, seg, ipid=idx * 50 + 3 + k))
        off += len(seg)
    if resp:
        fr.append(c10.frame(sip, cip, port, cp, is_ + 1, ic + 1 + off, 0x18, resp, ipid=idx * 50 + 40))
    ep = lambda a, p: "%s|%d" % (".".join(map(str, a)), p)
    return {"ip": ep(cip, cp) + ">" + ep(sip, port), "eps": (ep(cip, cp), ep(sip, port)), "frames": fr}


def tcp_conn6(idx, payload_segs, cip, sip, cp, port=80, resp=None, syn_opts=False):
    """tcp_conn over IPv6 (16-byte addresses)"""
    from props import traffic
    ic, is_ = 1000 * (idx + 1), 7000 * (idx + 1)
    opts = (b"\x02\x04\x05\xa0\x04\x02\x08\x0a" + (5000 + idx).to_bytes(4, "big") + b"\x00\x00\x00\x00\x01\x03\x03\x07") if syn_opts else b""
    fr = [c10.frame6(cip, sip, cp, port, ic, 0, 0x02, opts=opts), c10.frame6(sip, cip, port, cp, is_, ic + 1, 0x12, opts=opts, hlim=128)]
    off = 0
    for seg in payload_segs:
        fr.append(c10.frame6(cip, sip, cp, port, ic + 1 + off, is_ + 1, 0x18, seg))
        off += len(seg)
    if resp:
        fr.append(c10.frame6(sip, cip, port, cp, is_ + 1, ic + 1 + off, 0x18, resp))
    eps = (traffic.ep(cip, cp), traffic.ep(sip, port))
    return {"ip": eps[0] + ">" + eps[1], "eps": eps, "frames": fr}


def attribute(crate, results, conns):
    """per connection (by its directed endpoint pair: client -> server, either direction of travel): digests of the non-empty
    results attributed to it, in order"""
    out = [[] for _ in conns]
    by = {}
    for i, c in enumerate(conns):
        by[c["eps"]] = i
        by[(c["eps"][1], c["eps"][0])] = by.get((c["eps"][1], c["eps"][0]), i)     # a mirrored connection in the set keeps its own entry

    def put(ep_src, ep_dst, what):
        i = by.get((ep_src, ep_dst))
        if i is not None:
            out[i].append(dg(what))
    for r in results:
        if crate == "tls":
            put(r["src"], r["dst"], r)
            continue
        for k, x in r.items():
            if x is None or not isinstance(x, dict):
                continue
            if "src" in x:
                put(x["src"], x["dst"], {k: x})
    return out


def run(tier, v):
    wd = vlib.workdir(PID)
    vlib.build_harness()
    rng = random.Random(vlib.seed())
    rA = vlib.tlc("MC_C07", pid=PID, workers=4, env={"VERIF_MODE": "model", "VERIF_DEV": "none", "VERIF_LENS": "1"}, timeout=600)
    if rA.inv_violated:
        raise vlib.ToolError("Analyzer.tla: NonInterference fails on the design")
    rD = vlib.tlc("MC_C07", pid=PID, workers=4, env={"VERIF_MODE": "model", "VERIF_DEV": "D07_shared_hpack", "VERIF_LENS": "1"}, timeout=600)
    if not rD.inv_violated:
        raise vlib.ToolError("anti-vacuity: the shared-table model should violate NonInterference")
    rE = vlib.tlc("MC_C07", pid=PID, workers=4, env={"VERIF_MODE": "model", "VERIF_DEV": "D07_reset_on_success", "VERIF_LENS": "1"}, timeout=600)
    if not rE.inv_violated:
        raise vlib.ToolError("anti-vacuity: a decoder that is reset only after a successful decode should violate NonInterference")
    rC = vlib.tlc("MC_C07", pid=PID, workers=1, env={"VERIF_MODE": "conns", "VERIF_DEV": "none", "VERIF_LENS": "1"}, timeout=600, coverage=False)
    h2 = rC.lines["STAT"][0]
    # ---- connection library
    R1 = b"GET /a HTTP/1.1\r\nHost: one.example\r\nUser-Agent: ua-one\r\nAccept: */*\r\n\r\n"
    S1 = b"HTTP/1.1 200 OK\r\nServer: srv-one\r\n\r\nok"
    H = c10.hello("iso.example")
    H2 = c10.hello("other.example")

    def two(b, at=None):
        at = at or len(b) // 2
        return [b[:at], b[at:]]
    lib = {
        "tcp_a": tcp_conn(1, [b""], syn_opts=True), "tcp_b": tcp_conn(2, [b""], syn_opts=True),
        "tls_a": tcp_conn(3, two(H, 40), port=443), "tls_b": tcp_conn(4, two(H2, 9), port=443),
        "h1": tcp_conn(5, two(R1, 30), resp=S1),
        "h2_ins_ref": tcp_conn(6, two(bytes(h2["ins_ref"]), 60)), "h2_bare_ref": tcp_conn(7, two(bytes(h2["bare_ref"]), 50)),
        "h2_zero": tcp_conn(8, two(bytes(h2["zero_then_ins"]), 45)), "h2_legit": tcp_conn(9, two(bytes(h2["legit"]), 62)),
        "h2_zero_fail": tcp_conn(10, two(bytes(h2["zero_fail"]), 40)), "h2_ins_fail": tcp_conn(11, two(bytes(h2["ins_fail"]), 55)),
    }
    # near-collisions: connections whose 4-tuples differ in exactly one component (the flow tables must key on all four)
    base = dict(cip=(10, 70, 0, 1), sip=(10, 60, 0, 9), cp=40000)
    variants = {"": {}, "_dport": {"port_alt": True}, "_cport": {"cp": 40001}, "_sip": {"sip": (10, 60, 0, 10)}, "_cip": {"cip": (10, 70, 0, 2)},
                # the same two hosts with the two port numbers exchanged, and the same port numbers with the two hosts exchanged
                "_mirror": {"mirror": True}, "_swaphosts": {"cip": (10, 60, 0, 9), "sip": (10, 70, 0, 1)}}
    for k, (suffix, ch) in enumerate(variants.items()):
        kw = dict(base)
        kw.update({a: b for a, b in ch.items() if a not in ("port_alt", "mirror")})
        alt = ch.get("port_alt", False)
        mir = ch.get("mirror", False)
        Hn = c10.hello("nc%s.example" % (suffix or "_base"))
        Rn = ("GET /nc%s HTTP/1.1\r\nHost: nc%s.example\r\nUser-Agent: ua-nc%s\r\n\r\n" % (suffix, suffix, suffix)).encode()
        Sn = ("HTTP/1.1 200 OK\r\nServer: srv-nc%s\r\n\r\nok" % suffix).encode()
        if mir:
            lib["nc_tls" + suffix] = tcp_conn(20 + k, two(Hn, 35 + k), port=40000, **dict(kw, cp=443))
            lib["nc_h1" + suffix] = tcp_conn(30 + k, two(Rn, 20 + k), port=40000, resp=Sn, **dict(kw, cp=80))
            lib["nc_tcp" + suffix] = tcp_conn(40 + k, [b""], port=40000, syn_opts=True, **dict(kw, cp=80))
            continue
        lib["nc_tls" + suffix] = tcp_conn(20 + k, two(Hn, 35 + k), port=8443 if alt else 443, **kw)
        lib["nc_h1" + suffix] = tcp_conn(30 + k, two(Rn, 20 + k), port=8080 if alt else 80, resp=Sn, **kw)
        lib["nc_tcp" + suffix] = tcp_conn(40 + k, [b""], port=8080 if alt else 80, syn_opts=True, **kw)
    # the same two hosts and ports over IPv6 with IPv4-mapped addresses (::ffff:a.b.c.d): another connection, another address family
    m6 = lambda a: bytes([0] * 10 + [0xff, 0xff]) + bytes(a)
    Hm = c10.hello("nc_mapped.example")
    Rm = b"GET /nc_mapped HTTP/1.1\r\nHost: nc-mapped.example\r\nUser-Agent: ua-nc-mapped\r\n\r\n"
    lib["nc_tls_mapped"] = tcp_conn6(60, two(Hm, 41), m6(base["cip"]), m6(base["sip"]), base["cp"], port=443)
    lib["nc_h1_mapped"] = tcp_conn6(61, two(Rm, 27), m6(base["cip"]), m6(base["sip"]), base["cp"], port=80, resp=b"HTTP/1.1 200 OK\r\nServer: srv-nc-mapped\r\n\r\nok")
    lib["nc_tcp_mapped"] = tcp_conn6(62, [b""], m6(base["cip"]), m6(base["sip"]), base["cp"], port=80, syn_opts=True)
    # sequels: a connection that has run its course, followed by a NEW connection on the same 4-tuple (port reuse) -- "no connection can
    # disable analysis of the connections that follow it".  The predecessor of the TLS pair is a TLS 1.2 handshake whose second client
    # flight carries three records in one segment; the HTTP predecessor is a complete exchange.
    sq = dict(cip=(10, 71, 0, 1), sip=(10, 60, 0, 20), cp=41000)
    Hs1, Hs2 = c10.hello("first.example"), c10.hello("sequel.example")
    flight2 = bytes([0x16, 3, 3, 0, 37, 16, 0, 0, 33, 32]) + bytes(range(32)) + bytes([0x14, 3, 3, 0, 1, 1]) + bytes([0x16, 3, 3, 0, 40]) + bytes([0xab] * 40)
    srvflight = bytes([0x16, 3, 3, 0, 42, 2, 0, 0, 38, 3, 3]) + bytes(range(32)) + bytes([0, 0xc0, 0x2f, 0])
    t1 = tcp_conn(50, [Hs1, flight2], port=443, resp=srvflight, **sq)
    # order within the predecessor: hello, server flight, client second flight
    t1["frames"] = t1["frames"][:3] + [t1["frames"][4], t1["frames"][3]]
    lib["sq_tls_first"] = t1
    lib["sq_tls_sequel"] = tcp_conn(51, two(Hs2, 50), port=443, **sq)
    Rq1 = b"GET /first HTTP/1.1\r\nHost: first.example\r\nUser-Agent: ua-first\r\n\r\n"
    Rq2 = b"GET /sequel HTTP/1.1\r\nHost: sequel.example\r\nUser-Agent: ua-sequel\r\nAccept: */*\r\n\r\n"
    lib["sq_h1_first"] = tcp_conn(52, [Rq1], port=80, resp=b"HTTP/1.1 200 OK\r\nServer: srv-first\r\n\r\nok", **sq)
    lib["sq_h1_sequel"] = tcp_conn(53, two(Rq2, 25), port=80, resp=b"HTTP/1.1 404 Not Found\r\nServer: srv-sequel\r\n\r\nno", **sq)
    # predecessors whose last packet (the response that ends the exchange) is one that a protocol layer refuses although it carries
    # payload: the first IP fragment of a large response (MF set), a data segment with PSH but no ACK, with FIN+RST
    def last_variant(conn, how):
        c = dict(conn, frames=list(conn["frames"]))
        b = bytearray(c["frames"][-1])
        if how == "mf":
            b[20] |= 0x20
        else:
            b[14 + 20 + 13] = {"psh_noack": 0x08, "finrst": 0x1d}[how]
        c["frames"][-1] = bytes(b)
        return c
    for how in ("mf", "psh_noack", "finrst"):
        lib["sq_h1_first_" + how] = last_variant(lib["sq_h1_first"], how)
    sequels = {"tls": [("sq_tls_first", "sq_tls_sequel")], "http": [("sq_h1_first", "sq_h1_sequel")] + [("sq_h1_first_" + how, "sq_h1_sequel") for how in ("mf", "psh_noack", "finrst")],
               "uni": [("sq_tls_first", "sq_tls_sequel"), ("sq_h1_first", "sq_h1_sequel")] + [("sq_h1_first_" + how, "sq_h1_sequel") for how in ("mf", "psh_noack", "finrst")]}
    # connections with independently drawn features (lib/props/traffic.py): address family and form, ports, TTL, TOS, fragment word,
    # IP options, MAC addresses, SYN options, timestamps, sequence numbers at the wrap, message shapes, segmentation
    from props import traffic
    ipid = [20000]

    def nid():
        ipid[0] += 1
        return ipid[0]
    for k in range(3):
        for kind, nm in (("tcp", "rx_tcp"), ("http", "rx_h1"), ("tls", "rx_tls")):
            rc = traffic.connection(rng, 700 + 10 * k + len(nm), kind, nid, maxpieces=2)
            lib["%s_%d" % (nm, k)] = {"ip": rc["eps"][0] + ">" + rc["eps"][1], "eps": rc["eps"], "frames": rc["frames"]}
    for c in lib.values():
        # drop the empty data segment of plain handshakes
        c["frames"] = [f for f in c["frames"] if not (len(f) == 54 and f[47] == 0x18)]
    sets = {
        "http": [("h2_ins_ref", "h2_bare_ref"), ("h2_zero", "h2_legit"), ("h2_ins_ref", "h2_legit"), ("h1", "h2_bare_ref"), ("h2_bare_ref", "h2_ins_ref", "h2_zero"), ("h1", "h2_zero", "h2_legit"),
                 ("h2_zero_fail", "h2_legit"), ("h2_ins_fail", "h2_bare_ref"), ("h2_zero_fail", "h2_ins_ref", "h2_ins_fail")]
                + [("nc_h1", "nc_h1" + x) for x in ("_dport", "_cport", "_sip", "_cip", "_mirror", "_swaphosts", "_mapped")]
                + [("rx_h1_0", "rx_h1_1"), ("rx_h1_1", "rx_h1_2"), ("rx_h1_2", "h2_legit")],
        "tls": [("tls_a", "tls_b"), ("tls_a", "h1"), ("tls_a", "tls_b", "h2_legit")] + [("nc_tls", "nc_tls" + x) for x in ("_dport", "_cport", "_sip", "_cip", "_mirror", "_swaphosts", "_mapped")]
               + [("rx_tls_0", "rx_tls_1"), ("rx_tls_1", "rx_tls_2")],
        "tcp": [("tcp_a", "tcp_b"), ("tcp_a", "h1"), ("tcp_a", "tls_a", "tcp_b")] + [("nc_tcp", "nc_tcp" + x) for x in ("_dport", "_cport", "_sip", "_cip", "_mirror", "_swaphosts", "_mapped")]
               + [("rx_tcp_0", "rx_tcp_1"), ("rx_tcp_1", "rx_tcp_2"), ("rx_tcp_0", "rx_h1_0")],
        "uni": [("tcp_a", "tls_a", "h2_ins_ref"), ("h2_ins_ref", "h2_bare_ref"), ("h1", "tls_b", "h2_zero"), ("h2_zero", "h2_legit"), ("h2_zero_fail", "h2_legit"), ("h2_ins_fail", "h2_bare_ref"), ("nc_tls", "nc_tls_dport"), ("nc_h1", "nc_h1_cport"), ("nc_tls", "nc_h1_sip"),
                ("rx_tcp_0", "rx_tls_0"), ("rx_h1_0", "rx_tls_1"), ("rx_h1_1", "rx_tcp_2"), ("nc_tls", "nc_tls_mapped"), ("nc_h1", "nc_h1_mapped")],
    }
    cap = 4000 if tier == "thorough" else 150
    lines, meta = [], {}
    alone_needed = set()
    sched_cache = {}
    unordered = set()
    states = trans = 0
    for crate, css in sets.items():
        for cs in css:
            lens = [len(lib[c]["frames"]) for c in cs]
            key = tuple(lens)
            if key not in sched_cache:          # the schedules depend on the lengths only
                acc = []
                r = vlib.tlc("MC_C07", pid=PID, workers=8, env={"VERIF_MODE": "sched", "VERIF_DEV": "none", "VERIF_LENS": ",".join(map(str, lens))}, timeout=1800,
                             tag_sink=lambda tag, o: acc.append(o["sched"]), heap="10g", coverage=False)
                states += r.distinct
                trans += r.generated
                acc.sort()
                sched_cache[key] = acc
            scheds = list(sched_cache[key])
            if len(scheds) > cap:
                rng.shuffle(scheds)
                scheds = scheds[:cap]
            for sc in scheds:
                ptr = [0] * len(cs)
                frames = []
                for c in sc:
                    frames.append(lib[cs[c - 1]]["frames"][ptr[c - 1]].hex())
                    ptr[c - 1] += 1
                i = len(lines)
                meta[i] = (crate, cs, sc)
                lines.append({"id": "I%d" % i, "crate": crate, "frames": frames, "matcher": True, "cfg": {}})
                if crate != "uni" and len(scheds) and sc in scheds[:6]:
                    # the same interleaving through the parallel front end, with a per-worker capacity that just covers the set
                    # (documented as per worker: "within the configured connection capacity")
                    i = len(lines)
                    meta[i] = (crate, cs, sc)
                    if crate == "tcp":
                        unordered.add(i)          # the TCP pool shards by sending host: the two directions of a connection are not ordered
                    lines.append({"id": "I%d" % i, "crate": crate + "_par", "frames": frames, "matcher": True, "cfg": {}, "cap": len(cs) * (2 if crate == "tcp" else 1),
                                  "parallel": {"workers": 2, "queue": 256, "batch": 4, "timeout_ms": 5}})
            for c in cs:
                alone_needed.add((crate, c))
    for crate, pairs in sequels.items():
        for (a, b) in pairs:
            i = len(lines)
            meta[i] = (crate, (a, b), [1] * len(lib[a]["frames"]) + [2] * len(lib[b]["frames"]))
            lines.append({"id": "I%d" % i, "crate": crate, "frames": [f.hex() for f in lib[a]["frames"] + lib[b]["frames"]], "matcher": True, "cfg": {}})
            alone_needed.add((crate, a))
            alone_needed.add((crate, b))
    for (crate, c) in sorted(alone_needed):
        lines.append({"id": "A|%s|%s" % (crate, c), "crate": crate, "frames": [f.hex() for f in lib[c]["frames"]], "matcher": True, "cfg": {}})
    req = os.path.join(wd, "ana.req")
    vlib.write_ndjson(req, lines)
    out = os.path.join(wd, "ana.out")
    vlib.run_hv("ana", req, out, timeout=3000, env={"HV_PCAP_DIR": os.path.join(wd, "pcap")})
    alone, inter = {}, {}
    for o in vlib.read_ndjson(out):
        if o.get("skipped"):
            continue
        if o.get("hung"):
            v.violation({"run": str(o["id"]), "observed": "the parallel front end does not finish: 10 s after analyze_pcap returned and the last result arrived, the result channel is still open (a worker has not left)"})
            continue
        if "panic" in o:
            v.violation({"run": o["id"], "observed": "panic: " + o["panic"]})
            continue
        if o["id"].startswith("A|"):
            _, crate, c = o["id"].split("|")
            alone[(crate, c)] = attribute(crate, o["results"], [lib[c]])[0]
        else:
            inter[int(o["id"][1:])] = o["results"]
    trace = os.path.join(wd, "trace.ndjson")
    n_nontriv = 0
    with open(trace, "w") as f:
        for i, (crate, cs, sc) in meta.items():
            if i not in inter:
                continue
            per = attribute(crate, inter[i], [lib[c] for c in cs])
            n_nontriv += any(per)
            if cs[0].startswith("sq_"):
                # predecessor and sequel share the 4-tuple: everything reported for the tuple, in order = predecessor alone, then sequel alone
                one = attribute(crate, inter[i], [lib[cs[0]]])[0]
                f.write(json.dumps({"id": i, "conns": [{"inter": one, "alone": alone[(crate, cs[0])] + alone[(crate, cs[1])]}]}) + "\n")
                continue
            srt = sorted if i in unordered else (lambda x: x)
            f.write(json.dumps({"id": i, "conns": [{"inter": srt(per[k]), "alone": srt(alone[(crate, c)])} for k, c in enumerate(cs)]}) + "\n")
    # ---- timed connections (TCP timestamp clocks): the frames carry their own capture time (hook H1), so that uptime estimates
    # are produced; several connections between the SAME two hosts (other ports, either host as the client), one of them with
    # timestamps that make its estimate fail (second sample 2 ms after the first).  Packet path, one tracker for the interleaving.
    T0 = 1_700_000_000_000

    def timed(cip, sip, cp, sp, t, cts, sts, gap, cticks, sticks):
        tso = lambda val, ecr: b"\x01\x01\x08\x0a" + val.to_bytes(4, "big") + ecr.to_bytes(4, "big")
        syno = lambda val: b"\x02\x04\x05\xb4\x04\x02\x08\x0a" + val.to_bytes(4, "big") + b"\x00\x00\x00\x00\x01\x03\x03\x07"
        fr = [c10.frame(cip, sip, cp, sp, 100, 0, 0x02, opts=syno(cts), ipid=cp), c10.frame(sip, cip, sp, cp, 900, 101, 0x12, opts=syno(sts), ipid=cp + 1, ttl=128),
              c10.frame(cip, sip, cp, sp, 101, 901, 0x10, opts=tso(cts + cticks, sts), ipid=cp + 2), c10.frame(sip, cip, sp, cp, 901, 101, 0x18, b"hi", opts=tso(sts + sticks, cts + cticks), ipid=cp + 3, ttl=128)]
        return {"frames": fr, "clock": [T0 + t, T0 + t + 1, T0 + t + gap, T0 + t + gap + 1]}
    A_, B_ = (10, 70, 0, 1), (10, 70, 0, 2)
    tl = {"up_bad": timed(A_, B_, 40001, 80, 0, 1000, 2000, 2, 1, 1), "up_good": timed(A_, B_, 40002, 443, 5, 50000, 90000, 1000, 100, 1000),
          "up_good_rev": timed(B_, A_, 40003, 8080, 9, 777000, 333000, 2000, 2000, 200), "up_good_same_ports": timed(A_, (10, 70, 0, 3), 40001, 80, 3, 424242, 808080, 1000, 250, 100)}
    tsets = [("up_bad", "up_good"), ("up_bad", "up_good_rev"), ("up_good", "up_good_rev"), ("up_bad", "up_good_same_ports"), ("up_bad", "up_good", "up_good_rev")]
    tlines, tmeta = [], {}
    for cs in tsets:
        key = tuple(4 for _ in cs)
        if key not in sched_cache:
            acc = []
            r = vlib.tlc("MC_C07", pid=PID, workers=8, env={"VERIF_MODE": "sched", "VERIF_DEV": "none", "VERIF_LENS": ",".join(map(str, key))}, timeout=1800,
                         tag_sink=lambda tag, o: acc.append(o["sched"]), heap="10g", coverage=False)
            states += r.distinct
            trans += r.generated
            acc.sort()
            sched_cache[key] = acc
        scheds = list(sched_cache[key])
        if len(scheds) > cap * 2:
            rng.shuffle(scheds)
            scheds = scheds[:cap * 2]
        for sc in scheds:
            ptr = [0] * len(cs)
            frames, clock = [], []
            for c in sc:
                frames.append(tl[cs[c - 1]]["frames"][ptr[c - 1]].hex())
                clock.append(tl[cs[c - 1]]["clock"][ptr[c - 1]])
                ptr[c - 1] += 1
            tmeta[len(tlines)] = (cs, sc)
            tlines.append({"id": len(tlines), "op": "frames", "frames": frames, "clock": clock})
    nt = len(tlines)
    for k, name in enumerate(sorted(tl)):
        tlines.append({"id": nt + k, "op": "frames", "frames": [f.hex() for f in tl[name]["frames"]], "clock": tl[name]["clock"]})
    treq = os.path.join(wd, "timed.req")
    vlib.write_ndjson(treq, tlines)
    tout = os.path.join(wd, "timed.out")
    vlib.run_hv("tcp", treq, tout, timeout=3000)
    touts = {o["id"]: o["out"] for o in vlib.read_ndjson(tout)}
    talone = {name: [dg(x) for x in touts[nt + k]] for k, name in enumerate(sorted(tl))}
    n_up = sum(1 for name in tl for x in touts[nt + sorted(tl).index(name)] if x.get("res") and (x["res"].get("client_uptime") or x["res"].get("server_uptime")))
    if n_up < 2:      # anti-vacuity only: whether the estimates are the right ones is C19's business
        raise vlib.ToolError("timed connections: %d uptime estimates are produced when the connections are analysed alone (6 on the pinned tree): the timed part would be vacuous" % n_up)
    with open(trace, "a") as f:
        for i, (cs, sc) in tmeta.items():
            per = [[] for _ in cs]
            for c, x in zip(sc, touts[i]):
                per[c - 1].append(dg(x))
            n_nontriv += 1
            meta[1000000 + i] = ("tcp (timed, packet path)", cs, sc)
            inter[1000000 + i] = None
            f.write(json.dumps({"id": 1000000 + i, "conns": [{"inter": per[k], "alone": talone[c]} for k, c in enumerate(cs)]}) + "\n")
    r2 = vlib.tlc("TV_C07", pid=PID, workers=8, env={"TRACE": trace}, timeout=1800, heap="10g")

    if tier == "thorough":
        def mut(rows):
            k = next(i for i, r_ in enumerate(rows) if any(c_["inter"] for c_ in r_["conns"]))
            r_ = json.loads(json.dumps(rows[k]))
            c_ = next(c_ for c_ in r_["conns"] if c_["inter"])
            c_["inter"] = c_["inter"][:-1]
            return rows[:20] + [r_], "one result of one connection is removed from an interleaved run"
        v.binding.append(vlib.binding_demo("TV_C07", trace, mut, PID, workers=4, timeout=900, heap="4g"))
    for b in r2.lines.get("BAD", []):
        crate, cs, sc = meta[b["id"]]
        if b["id"] >= 1000000:
            i = b["id"] - 1000000
            rows = {c: [x.get("res") for cc, x in zip(sc, touts[i]) if cs[cc - 1] == c] for c in cs}
            v.violation({"analyzer": crate, "connections": cs, "schedule": sc, "connections_whose_results_differ": [cs[k - 1] for k in b["conns"]],
                         "interleaved_per_frame": {cs[k - 1]: [{kk: vv for kk, vv in (r_ or {}).items() if vv and kk.endswith("uptime")} for r_ in rows[cs[k - 1]]] for k in b["conns"]},
                         "alone_per_frame": {cs[k - 1]: [{kk: vv for kk, vv in ((x.get("res") or {}).items()) if vv and kk.endswith("uptime")} for x in touts[nt + sorted(tl).index(cs[k - 1])]] for k in b["conns"]},
                         "frames": [tl[cs[c - 1]]["frames"][0][26:34].hex() for c in sc]})
            continue
        per = attribute(crate, inter[b["id"]], [lib[c] for c in cs])
        if cs[0].startswith("sq_"):
            v.violation({"analyzer": crate, "connection_followed_by_a_new_one_on_the_same_4_tuple": cs, "reported_for_the_tuple": attribute(crate, inter[b["id"]], [lib[cs[0]]])[0],
                         "each_alone": [alone[(crate, cs[0])], alone[(crate, cs[1])]], "frames": [f.hex() for f in lib[cs[0]]["frames"] + lib[cs[1]]["frames"]]})
            continue
        v.violation({"analyzer": crate, "connections": cs, "schedule": sc, "connections_whose_results_differ": [cs[k - 1] for k in b["conns"]],
                     "interleaved": {cs[k - 1]: per[k - 1] for k in b["conns"]}, "alone": {cs[k - 1]: alone[(crate, cs[k - 1])] for k in b["conns"]},
                     "frames": [lib[cs[c - 1]]["ip"] for c in sc]})
    return v.finish("model_checking", {
        "states": rA.distinct + states + r2.distinct, "transitions": rA.generated + trans + r2.generated, "traces_validated_against_impl": len(meta),
        "evaluations": len(meta), "distinct_nontrivial": n_nontriv,
        "rule": "connection sets %s; every order-preserving interleaving enumerated by TLC (capped at %d seeded samples per set in this tier); non-trivial = schedules in which some connection has a result" % ({k: len(x) for k, x in sets.items()}, cap),
        "samples": [{"analyzer": meta[0][0], "connections": meta[0][1], "schedule": meta[0][2]}], "exhaustive": tier == "thorough",
    }, ["connections have distinct 4-tuples (some differ in a single component); their number is far below the table capacity", "results are attributed to a connection by the reported endpoint pair", "clock frozen through hook H1 (front-end runs) or set per frame (timed connections, packet path)",
        "HTTP/2 connection starts are rendered by Hpack.tla / Http2.tla"])


def replay(path, v):
    return run("quick", v)
