"""C15 — filtering commutes with analysis: filters remove packets, never change results.

A  MC_C15 (ASSUMEs): on the design the filter's quick decoder reads every frame the analyzer reads exactly like the analyzer;
   the code's quick decoder with the recorded deviations does not (the model sees the defects).
B  MC_C15 generates frame shapes (Ethernet / raw / loopback framing x IPv4 header lengths 0..15 x IPv6 x TCP / not TCP), each
   carrying a TCP handshake, a one-segment ClientHello and an HTTP exchange, the endpoints the analyzer's decoder derives, and
   for 13 filter configurations which frames must be admitted (Filter!ShouldProcess).  For every shape x configuration the
   TCP, HTTP, TLS and unified analyzers are run through analyze_pcap with the filter on the whole trace and without a filter on
   the admitted sub-trace (clock frozen), and worker pools with the filter installed: the non-empty results must be equal."""
import hashlib, json, os
import vlib

PID = "C15"
WHAT = {
    "D15_ihl_lt_5": "the quick decoder reads the ports at 4 x IHL while the analyzer reads them at offset 20: with an IPv4 header length below 5 the filter judges other ports than the ones reported",
    "D15_null_af_vs_nibble": "with loopback framing the quick decoder dispatches on the address-family word (1e 00 00 00 = IPv6) while the analyzer dispatches on the IP version nibble: an IPv4 packet in such a frame is not decoded by the filter and therefore always admitted",
}


def digest(x):
    return hashlib.sha1(json.dumps(x, sort_keys=True).encode()).hexdigest()[:16]


def nonempty(crate, results):
    out = []
    for r in results:
        if crate == "tls":
            out.append(digest(r))
        elif any(v is not None for v in r.values()):
            out.append(digest(r))
    return out


def run(tier, v):
    wd = vlib.workdir(PID)
    vlib.build_harness()
    K = set(vlib.known_devs(PID))
    shapes = []
    stat = {}

    def sink(tag, o):
        if tag == "STAT":
            stat.update(o)
        else:
            shapes.append(o)
    r = vlib.tlc("MC_C15", pid=PID, workers=8, tag_sink=sink, timeout=1800, coverage=False)
    cfgs = stat["cfgs"]
    if tier != "thorough":
        shapes = [s for s in shapes if s["shape"]["ihl"] in (0, 2, 4, 5, 6, 15) and (s["shape"]["vnib"] == s["shape"]["ver"] or s["shape"]["ihl"] == 5)]
    ana, pool, meta = [], [], {}
    empty_ref = []
    for si, s in enumerate(shapes):
        for crate, key in (("tcp", "tcp"), ("http", "http"), ("tls", "tls"), ("uni", "http"), ("uni", "tls")):
            t = s[key]
            frames = [bytes(f).hex() for f in t["frames"]]
            for ci, cfg in enumerate(cfgs):
                sub = [f for f, rd, ad in zip(frames, t["readable"], t["admit"][ci]) if rd and ad]
                cls = sorted({q for q in t["quick"] if q != "same"} and {"D15_null_af_vs_nibble" if q == "none" else "D15_ihl_lt_5" for q, rd in zip(t["quick"], t["readable"]) if q != "same" and rd})
                k = (si, crate, key, ci)
                meta[k] = {"shape": s["shape"], "analyzer": crate, "trace": key, "filter": cfg, "frames": frames, "admitted_subtrace": sub, "class": cls}
                base = {"crate": crate, "matcher": True, "cfg": {"http": True, "tcp": True, "tls": True, "matcher": True}}
                ana.append(dict(base, id="F|%d|%s|%s|%d" % k, frames=frames, filter=cfg))
                ana.append(dict(base, id="U|%d|%s|%s|%d" % k, frames=sub, filter=None))
                if crate != "uni" and (tier == "thorough" or ci % 4 == 1) and s["shape"].get("ihl", 5) == 5 and s["shape"]["vnib"] == s["shape"]["ver"]:
                    # the parallel front end with the filter (for the TCP analyzer used twice: its pool is shut down after every capture
                    # and must be initialised again) against the same front end without filter on the admitted sub-trace
                    par = {"workers": 2, "queue": 64, "batch": 2, "timeout_ms": 5}
                    ana.append(dict(base, id="G|%d|%s|%s|%d" % k, crate=crate + "_par", frames=frames, filter=cfg, parallel=par, repeat=2 if crate == "tcp" else 1))
                    ana.append(dict(base, id="H|%d|%s|%s|%d" % k, crate=crate + "_par", frames=sub, filter=None, parallel=par))
                    # the filter installed on an analyzer whose pool had already been initialised once (init_pool again afterwards)
                    ana.append(dict(base, id="L|%d|%s|%s|%d" % k, crate=crate + "_par", frames=frames, filter=cfg, parallel=par, late_filter=True))
                if crate != "uni" and (tier == "thorough" or ci % 4 == 0):
                    for nw in (1, 3):
                        pool.append({"id": "P%d|%d|%s|%s|%d" % ((nw,) + k), "crate": crate, "workers": nw, "queue": 64, "batch": 2, "timeout_ms": 5, "dispatchers": [frames], "filter": cfg,
                                     "matcher": True, "perturb": 0})
                        # the same pool without a filter on the admitted sub-trace (the reference for the parallel case)
                        if sub:
                            pool.append({"id": "Q%d|%d|%s|%s|%d" % ((nw,) + k), "crate": crate, "workers": nw, "queue": 64, "batch": 2, "timeout_ms": 5, "dispatchers": [sub], "filter": None,
                                         "matcher": True, "perturb": 0})
                        else:
                            empty_ref.append(("Q%d" % nw,) + k)
    # ---- R: richly varied connections (lib/props/traffic.py), filters built from the endpoints that occur; TLC (TV_C15R) applies the
    # documented rule to every frame's endpoints and says which frames each configuration admits
    import random
    from props import traffic
    rng = random.Random(vlib.seed())
    n_rich = 0
    for t in range(3 if tier == "thorough" else 1):
        ipid = [30000 + 1000 * t]

        def nid():
            ipid[0] += 1
            return ipid[0]
        conns = [traffic.connection(rng, 900 + 20 * t + c, ("http", "tls", "tcp")[c % 3], nid, maxpieces=3) for c in range(9)]
        # the connections interleaved (order kept within each): packets a filter rejects arrive between the segments of admitted ones
        order = [ci for ci, c in enumerate(conns) for _ in c["frames"]]
        rng.shuffle(order)
        ptr = [0] * len(conns)
        frames = []
        for ci in order:
            frames.append(conns[ci]["frames"][ptr[ci]])
            ptr[ci] += 1
        eps = [traffic.endpoints(f) for f in frames]
        # frames no analyzer reads (good TCP segments behind link-layer headers the parsers do not know, noise): part of the whole
        # trace, never of an admitted sub-trace -- whatever the filter makes of them, nothing may be reported for them
        extra = traffic.unreadable(rng, nid, 12) + traffic.noise(rng, nid, 8)
        extra_at = sorted(rng.randrange(len(frames) + 1) for _ in extra)
        first = [traffic.endpoints(c["frames"][0]) for c in conns]          # the SYN of each connection: client -> server
        A_ = lambda a: {"v": a["v"], "b": a["b"]}
        PF = lambda sp, dp, any_: [{"sp": sp, "dp": dp, "sr": [], "dr": [], "any": any_}]
        IPF = lambda addrs, cs, cd: [{"addrs": addrs, "cs": cs, "cd": cd}]
        net = lambda a, p: {"a": {"v": a["v"], "b": a["b"]}, "p": p}
        v4 = [e for e in first if e["sa"]["v"] == 4] or first
        v6 = [e for e in first if e["sa"]["v"] == 6] or first
        C = lambda deny, port=(), ip=(), sub=(): {"deny": deny, "port": list(port), "ip": list(ip), "sub": list(sub)}
        rcfgs = [C(False, PF([], [first[0]["dp"]], False)), C(True, PF([], [first[0]["dp"]], False)), C(False, PF([first[1]["sp"], first[2]["sp"]], [], False)),
                 C(False, PF([], [first[3]["dp"], first[4]["sp"]], True)), C(True, PF([], [first[5]["dp"]], True)),
                 C(False, ip=IPF([A_(v4[0]["sa"]), A_(v6[0]["sa"])], True, False)), C(True, ip=IPF([A_(v4[0]["da"]), A_(v6[0]["da"])], True, True)),
                 C(False, ip=IPF([A_(first[6]["sa"])], False, True)), C(True, ip=IPF([A_(e["sa"]) for e in first[:4]], True, False)),
                 C(False, sub=[{"nets": [net(v4[0]["sa"], 8), net(v6[0]["sa"], 32)], "cs": True, "cd": True}]),
                 C(True, sub=[{"nets": [net(v4[-1]["sa"], 32), net(v6[-1]["sa"], 128)], "cs": True, "cd": False}]),
                 C(False, sub=[{"nets": [net(v4[0]["da"], 0)], "cs": False, "cd": True}]), C(False, sub=[{"nets": [net(v6[0]["da"], 0)], "cs": True, "cd": True}]),
                 C(True, sub=[{"nets": [net(v6[0]["sa"], 96), net(v4[0]["sa"], 31)], "cs": True, "cd": True}]),
                 C(False, PF([], [first[0]["dp"], first[1]["dp"]], True), IPF([A_(e["da"]) for e in first], False, True), [{"nets": [net(v4[0]["sa"], 8), net(v6[0]["sa"], 16)], "cs": True, "cd": True}]),
                 C(True, PF([], [first[2]["dp"]], False), IPF([A_(first[2]["da"])], False, True))]
        rin = os.path.join(wd, "rich-%d.in" % t)
        vlib.write_ndjson(rin, [{"eps": eps, "cfgs": rcfgs}])
        admits = {}
        vlib.tlc("TV_C15R", pid=PID, workers=8, env={"TRACE": rin}, timeout=900, coverage=False, tags=("ADMIT",), tag_sink=lambda tag, o: admits.__setitem__(o["c"], o["admit"]))
        if len(admits) != len(rcfgs):
            raise vlib.ToolError("TV_C15R decided %d of %d configurations" % (len(admits), len(rcfgs)))
        hexes = [f.hex() for f in frames]
        whole = list(hexes)
        for pos, f in sorted(zip(extra_at, extra), key=lambda x: -x[0]):
            whole.insert(pos, f.hex())
        for crate in ("tcp", "http", "tls", "uni"):
            for ci, cfg in enumerate(rcfgs):
                sub = [f for f, ad in zip(hexes, admits[ci + 1]) if ad]
                k = (100000 + t, crate, "mix", ci)
                n_rich += 1
                meta[k] = {"shape": {"rich_trace": t, "connections": [c["style"] for c in conns]}, "analyzer": crate, "trace": "mix", "filter": cfg, "frames": hexes, "admitted_subtrace": sub, "class": []}
                base = {"crate": crate, "matcher": True, "cfg": {"http": True, "tcp": True, "tls": True, "matcher": True}}
                ana.append(dict(base, id="F|%d|%s|%s|%d" % k, frames=whole, filter=cfg))
                ana.append(dict(base, id="U|%d|%s|%s|%d" % k, frames=sub, filter=None))
                if crate in ("tls", "http"):
                    # the same with room for two connections only: what the filter rejects takes no room in the analyzer's tables
                    k2 = (200000 + t, crate, "mix", ci)
                    meta[k2] = dict(meta[k], capacity=2)
                    ana.append(dict(base, id="F|%d|%s|%s|%d" % k2, frames=whole, filter=cfg, cap=2))
                    ana.append(dict(base, id="U|%d|%s|%s|%d" % k2, frames=sub, filter=None, cap=2))
                if crate != "uni" and ci % 3 == 0:
                    pool.append({"id": "P3|%d|%s|%s|%d" % k, "crate": crate, "workers": 3, "queue": 256, "batch": 2, "timeout_ms": 5, "dispatchers": [whole], "filter": cfg, "matcher": True, "perturb": 0})
                    if sub:
                        pool.append({"id": "Q3|%d|%s|%s|%d" % k, "crate": crate, "workers": 3, "queue": 256, "batch": 2, "timeout_ms": 5, "dispatchers": [sub], "filter": None, "matcher": True, "perturb": 0})
                    else:
                        empty_ref.append(("Q3",) + k)
    # ---- what a filter rejects takes no room in the tables: an admitted connection whose ClientHello / request arrives in two segments,
    # and between them the first segments of as many rejected connections as the tables hold (capacity 2)
    from props import c10
    Ha, Hb, Hc = c10.hello("admitted.example"), c10.hello("rejected-b.example"), c10.hello("rejected-c.example")
    Rq = lambda n: ("GET /%s HTTP/1.1\r\nHost: %s.example\r\nUser-Agent: %s/1.0\r\n\r\n" % (n, n, n)).encode()
    for crate, port, A_, B_, C_ in (("tls", 443, Ha, Hb, Hc), ("http", 80, Rq("admitted"), Rq("rejected-b"), Rq("rejected-c"))):
        fr = lambda k, sp, dp, seq, data, fl=0x18: c10.frame((10, 11, 0, k), (10, 11, 9, 9), sp, dp, seq, 1, fl, data, ipid=k * 100 + seq % 97)
        syns = [fr(1, 50001, port, 0, b"", 0x02), fr(2, 50002, port + 8000, 0, b"", 0x02), fr(3, 50003, port + 8000, 0, b"", 0x02)] if crate == "http" else []
        whole = syns + [fr(1, 50001, port, 1, A_[:30]), fr(2, 50002, port + 8000, 1, B_[:30]), fr(3, 50003, port + 8000, 1, C_[:30]),
                        fr(1, 50001, port, 31, A_[30:]), fr(2, 50002, port + 8000, 31, B_[30:]), fr(3, 50003, port + 8000, 31, C_[30:])]
        sub = [f for f in whole if f[36:38] == bytes([port >> 8, port & 255])]
        cfg = {"deny": False, "port": [{"sp": [], "dp": [port], "sr": [], "dr": [], "any": False}], "ip": [], "sub": []}
        for pi_, path_crate in enumerate((crate, crate + "_par")):
            k = (300000 + pi_, crate, "tight", 0)
            meta[k] = {"shape": {"scenario": "an admitted connection in two segments, two rejected ones between them, capacity 2", "path": path_crate}, "analyzer": crate, "trace": "tight", "filter": cfg,
                       "frames": [f.hex() for f in whole], "admitted_subtrace": [f.hex() for f in sub], "class": []}
            base = {"crate": path_crate, "matcher": True, "cfg": {"http": True, "tcp": True, "tls": True, "matcher": True}, "cap": 2, "parallel": {"workers": 1, "queue": 64, "batch": 2, "timeout_ms": 5}}
            ana.append(dict(base, id="F|%d|%s|%s|%d" % k, frames=[f.hex() for f in whole], filter=cfg))
            ana.append(dict(base, id="U|%d|%s|%s|%d" % k, frames=[f.hex() for f in sub], filter=None))
    # ---- raw-IP capture of a connection whose client address makes octets 12-13 of its packets read 08 00 and whose server port makes
    # octet 23 read 06 (see D10_raw_ethertype_lookalike): whatever the packet parsers make of such frames, the filter must have
    # judged the endpoints the reported result carries.  TLC decides the admitted frames from the endpoints on the wire.
    cli, srv, cp, sp_ = (8, 0, 1, 5), (10, 11, 7, 7), 40021, 1030
    Rl = b"GET /look HTTP/1.1\r\nHost: look.example\r\nUser-Agent: look/1.0\r\nAccept: */*\r\n\r\n"
    Sl = b"HTTP/1.1 200 OK\r\nServer: look-srv\r\n\r\nok"
    eth = [c10.frame(cli, srv, cp, sp_, 100, 0, 0x02, opts=b"\x02\x04\x05\xb4", ipid=7001), c10.frame(srv, cli, sp_, cp, 900, 101, 0x12, opts=b"\x02\x04\x05\xb4", ipid=7002),
           c10.frame(cli, srv, cp, sp_, 101, 901, 0x18, Rl, ipid=7003), c10.frame(srv, cli, sp_, cp, 901, 101 + len(Rl), 0x18, Sl, ipid=7004)]
    n8 = {"a": {"v": 4, "b": [8, 0, 0, 0]}, "p": 8}
    lcfgs = [{"deny": d, "port": [], "ip": [], "sub": [{"nets": [n8], "cs": True, "cd": cd}]} for d in (False, True) for cd in (True, False)]
    lin = os.path.join(wd, "look.in")
    vlib.write_ndjson(lin, [{"eps": [traffic.endpoints(f) for f in eth], "cfgs": lcfgs}])
    ladm = {}
    vlib.tlc("TV_C15R", pid=PID, workers=2, env={"TRACE": lin}, timeout=900, coverage=False, tags=("ADMIT",), tag_sink=lambda tag, o: ladm.__setitem__(o["c"], o["admit"]))
    if len(ladm) != len(lcfgs):
        raise vlib.ToolError("TV_C15R decided %d of %d configurations" % (len(ladm), len(lcfgs)))
    rawf = [c10.relink(f, "raw").hex() for f in eth]
    for crate in ("http", "tcp", "uni"):
        for ci, cfg in enumerate(lcfgs):
            k = (400000, crate, "look", ci)
            sub = [f for f, ad in zip(rawf, ladm[ci + 1]) if ad]
            meta[k] = {"shape": {"scenario": "raw-IP capture, client 8.0.1.5, server port 1030"}, "analyzer": crate, "trace": "look", "filter": cfg, "frames": rawf, "admitted_subtrace": sub, "class": []}
            base = {"crate": crate, "matcher": True, "cfg": {"http": True, "tcp": True, "tls": True, "matcher": True}}
            ana.append(dict(base, id="F|%d|%s|%s|%d" % k, frames=rawf, filter=cfg))
            ana.append(dict(base, id="U|%d|%s|%s|%d" % k, frames=sub, filter=None))
    areq = os.path.join(wd, "ana.req")
    vlib.write_ndjson(areq, ana)
    aout = os.path.join(wd, "ana.out")
    vlib.run_hv("ana", areq, aout, timeout=3000, env={"HV_PCAP_DIR": os.path.join(wd, "pcap")})
    res = {}
    for o in vlib.read_ndjson(aout):
        if o.get("skipped"):
            continue
        if o.get("hung"):
            v.violation({"run": str(o["id"]), "observed": "the parallel front end does not finish: 10 s after analyze_pcap returned and the last result arrived, the result channel is still open (a worker has not left)"})
            continue
        kind, si, crate, key, ci = o["id"].split("|")
        k = (int(si), crate, key, int(ci))
        if "panic" in o:
            v.violation(dict(meta[k], observed="panic: " + o["panic"], run="filtered" if kind == "F" else "unfiltered"))
            continue
        res[(kind,) + k] = nonempty(crate, o["results"]) if kind in ("F", "U") else sorted(nonempty(crate, o["results"]))
    preq = os.path.join(wd, "pool.req")
    vlib.write_ndjson(preq, pool)
    pout = os.path.join(wd, "pool.out")
    vlib.run_hv_split("pool", preq, pout, parts=8, timeout=3000)
    for o in vlib.read_ndjson(pout):
        kind, si, crate, key, ci = o["id"].split("|")
        k = (int(si), crate, key, int(ci))
        if "panic" in o:
            v.violation(dict(meta[k], observed="panic: " + o["panic"], run="pool"))
            continue
        if o.get("skipped"):
            continue                  # the harness stops a batch after three runs that lost queued packets (reported below)
        if o["timed_out"]:
            # packets reported queued were never taken up by a worker within 30 s (3 s with empty queues): a worker has stopped
            v.violation({"shape": meta[k]["shape"], "analyzer": crate, "path": "worker pool with%s filter" % ("" if kind.startswith("P") else "out"), "filter": meta[k]["filter"] if kind.startswith("P") else None,
                         "observed": "packets that were reported queued are never analysed: a worker of the pool no longer takes packets", "frames": meta[k]["frames"][:40]})
            continue
        rs = o["results"]
        if crate == "http":
            rs = [{"req": x["req"], "resp": x["resp"]} for x in rs]
        res[(kind,) + k] = sorted(nonempty(crate, rs))
    for e in empty_ref:
        res[e] = []
    n = n_nontriv = 0
    samples = []
    for k, m in meta.items():
        want = res.get(("U",) + k)
        if want is None:
            continue
        for kind in ("F", "P1", "P3", "G", "L"):
            got = res.get((kind,) + k)
            if got is None:
                continue
            n += 1
            n_nontriv += bool(want) or bool(got)
            w = want
            if kind in ("G", "L"):
                w = res.get(("H",) + k)
                if w is None:
                    continue
            elif kind != "F":
                w = res.get(("Q" + kind[1:],) + k)      # same pool, no filter, admitted sub-trace
                if w is None:
                    continue
            if got == w:
                if len(samples) < 3 and want and n % 301 == 1:
                    samples.append({"shape": m["shape"], "analyzer": m["analyzer"], "filter": m["filter"], "frames_admitted": len(m["admitted_subtrace"]), "results": len(want)})
                continue
            if m["class"] and set(m["class"]) <= K:
                for d in m["class"]:
                    v.known_hit(d, WHAT[d])
                continue
            v.violation({"shape": m["shape"], "analyzer": m["analyzer"], "path": {"F": "analyze_pcap", "P1": "worker pool (1 worker)", "P3": "worker pool (3 workers)", "G": "parallel front end (with_config + init_pool + analyze_pcap; the TCP analyzer used for a second capture)",
                                                                                        "L": "parallel front end, the filter installed after a first init_pool (with_config + init_pool + with_filter + init_pool + analyze_pcap)"}[kind], "trace": m["trace"],
                         "filter": m["filter"], "frames": m["frames"], "admitted_subtrace": m["admitted_subtrace"], "results_with_filter": got, "results_without_filter_on_admitted_subtrace": w,
                         "input_class_of_recorded_deviation": m["class"]})
    return v.finish("model_checking", {
        "states": r.distinct, "transitions": r.generated, "traces_validated_against_impl": n, "evaluations": n, "distinct_nontrivial": n_nontriv,
        "rule": "%d frame shapes x %d filter configurations x analyzers (tcp, http, tls, unified on the http and tls traces) through analyze_pcap, plus worker pools with the filter for a subset; "
                "plus %d (trace x analyzer x configuration) runs on traces of connections with independently drawn features (traffic.py), 16 configurations built from the endpoints that occur, admitted frames decided by TLC (TV_C15R); "
                "non-trivial = comparisons where some result is reported with or without the filter" % (len(shapes), len(cfgs), n_rich),
        "samples": samples or [{"note": "none drawn"}], "exhaustive": tier == "thorough",
    }, ["the admitted sub-trace is defined by the endpoints the analyzer's own decoder derives (MC_C15!Ep) and Filter!ShouldProcess (judged by C14)", "only non-empty results are compared",
        "frames that are not TCP belong to neither run", "clock frozen through hook H1"])


def replay(path, v):
    return run("quick", v)
