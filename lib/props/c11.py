"""C11 — memory per connection and work per packet stay bounded for any traffic.

A  Resources.tla (ASSUMEs in TV_C11): a connection that buffers at most a fixed amount and is examined once per packet stays
   within the bounds for every history length; unbounded storing / re-parsing the stored stream does not.
C  the harness's counting allocator measures, per packet, the bytes an analyzer retains and the bytes it allocates while
   handling the packet, on long connections (HTTP-looking head that never completes, TLS application data, a handshake
   record that is not a ClientHello followed by data, a huge declared record, random bytes, a reported request followed by an
   endless body; client and server direction; 1 connection at capacity 1, capacity-many connections) through the HTTP, TLS,
   TCP and unified analyzers; TLC checks every recorded event against Resources' bounds (TV_C11)."""
import json, os
import vlib

PID = "C11"
WHAT = {
    "D11_http_unbounded": "an HTTP flow keeps every payload of a direction whose head has not been reported and re-assembles and re-parses the whole stored stream on every packet: retained bytes and per-packet allocation grow with the connection's history",
    "D11_tls_nonhello": "after a handshake record that is not a ClientHello the TLS flow stays tracked and appends all later application data",
}
L, BASE, A, B = 262144, 131072, 1048576, 64


def run(tier, v):
    wd = vlib.workdir(PID)
    vlib.build_harness()
    K = set(vlib.known_devs(PID))
    nseg = 20000 if tier == "thorough" else 2000
    scen = []
    for crate, kinds in (("http", ["http_nohead", "tls_appdata", "random", "http_ok_then_body"]), ("tls", ["tls_appdata", "tls_srvhello_then_data", "tls_huge_declared", "random"]),
                         ("tcp", ["random", "tls_appdata"]), ("uni", ["http_nohead", "tls_appdata", "tls_srvhello_then_data", "http_ok_then_body"])):
        for kind in kinds:
            for server in (False, True):
                scen.append({"crate": crate, "kind": kind, "n": nseg, "len": 1400, "cap": 1, "conns": 1, "server": server})
            scen.append({"crate": crate, "kind": kind, "n": nseg // 10, "len": 1400, "cap": 10, "conns": 10, "server": False})
            if tier == "thorough":
                scen.append({"crate": crate, "kind": kind, "n": 30, "len": 1400, "cap": 400, "conns": 400, "server": False})
                scen.append({"crate": crate, "kind": kind, "n": nseg, "len": 100, "cap": 1, "conns": 1, "server": False})
    # scripted connections: what happens AFTER something was reported, in both directions, with retransmissions, HTTP/2
    from props import c10
    hello = c10.hello("long.example")
    REQ = b"GET /long HTTP/1.1\r\nHost: long.example\r\nUser-Agent: long/1.0\r\n\r\n"
    RESP = b"HTTP/1.1 200 OK\r\nServer: long-srv\r\nContent-Type: application/octet-stream\r\n\r\n"
    H2 = b"PRI * HTTP/2.0\r\n\r\nSM\r\n\r\n" + bytes([0, 0, 0, 4, 0, 0, 0, 0, 0])
    H2H = H2 + bytes([0, 0, 3, 1, 5, 0, 0, 0, 1, 0x82, 0x86, 0x84])
    FLIGHT = bytes([0x16, 3, 3, 0, 42, 2, 0, 0, 38, 3, 3]) + bytes(range(32)) + bytes([0, 0x13, 0x01, 0]) + bytes([0x14, 3, 3, 0, 1, 1]) + bytes([0x17, 3, 3, 5, 0]) + bytes(100)
    c = lambda **kw: dict(dir="c", **kw)
    sv = lambda **kw: dict(dir="s", **kw)
    scripts = {
        "tls_hello_then_appdata": (443, [c(hex=hello.hex()), c(kind="tls_appdata", n=nseg, len=1400)]),
        "tls_split_hello_then_appdata": (443, [c(hex=hello[:40].hex()), c(hex=hello[40:].hex()), c(kind="tls_appdata", n=nseg, len=1400)]),
        "tls_hello_then_random": (443, [c(hex=hello.hex()), c(kind="random", n=nseg, len=1400)]),
        "tls_hello_retransmitted": (443, [c(hex=hello[:60].hex(), n=nseg, retx=True)]),
        # a complete first handshake record that does not parse (fragmented ClientHello: handshake length beyond the record;
        # garbage body; empty record; truncated hello body), then the connection goes on
        "tls_fragmented_hello_then_appdata": (443, [c(hex=(bytes([0x16, 3, 1, 0, 32, 1, 0, 1, 0]) + bytes(28)).hex()), c(kind="tls_appdata", n=nseg, len=1400)]),
        "tls_garbage_hello_then_random": (443, [c(hex=(bytes([0x16, 3, 1, 0, 32, 1, 0, 0, 28]) + b"\xff" * 28).hex()), c(kind="random", n=nseg, len=1400)]),
        "tls_empty_record_then_appdata": (443, [c(hex=bytes([0x16, 3, 1, 0, 0]).hex()), c(kind="tls_appdata", n=nseg, len=1400)]),
        "tls_truncated_hello_body_then_appdata": (443, [c(hex=(bytes([0x16, 3, 1, 0, 44, 1, 0, 0, 40, 3, 3]) + bytes(32) + bytes([32, 1, 2, 3, 4, 5])).hex()), c(kind="tls_appdata", n=nseg, len=1400)]),
        "tls_two_hellos_then_appdata": (443, [c(hex=(hello + hello).hex()), c(hex=hello.hex(), n=50), c(kind="tls_appdata", n=nseg, len=1400)]),
        # an incomplete record followed by very many very small segments (1-4 bytes): the reader must keep judging what it holds
        "tls_big_record_in_tiny_segments": (443, [c(hex=(bytes([0x16, 3, 1, 0xff, 0xf0, 1, 0, 0xff, 0xec]) + bytes(31)).hex()), c(kind="zeros", n=45 * nseg, len=4)]),
        "tls_partial_hello_then_tiny_segments": (443, [c(hex=hello[:40].hex()), c(kind="random", n=45 * nseg, len=3)]),
        "tls_header_only_then_one_byte_segments": (443, [c(hex=bytes([0x16, 3, 3, 0xff, 0xff]).hex()), c(kind="zeros", n=45 * nseg, len=1)]),
        "tls_appdata_from_server_after_hello": (443, [c(hex=hello.hex()), sv(kind="tls_appdata", n=nseg, len=1400)]),
        # a complete handshake record that is no ClientHello with MORE bytes behind it in the same segment (a server's first flight:
        # ServerHello, ChangeCipherSpec, the start of an encrypted record), then the connection goes on -- from either end
        "tls_server_flight_coalesced_then_appdata": (443, [sv(hex=FLIGHT.hex()), sv(kind="tls_appdata", n=nseg, len=1400)]),
        "tls_nonhello_record_and_tail_then_appdata_client": (443, [c(hex=FLIGHT.hex()), c(kind="tls_appdata", n=nseg, len=1400)]),
        "tls_nonhello_record_and_one_byte_then_random": (443, [c(hex=(FLIGHT[:47] + b"\x00").hex()), c(kind="random", n=nseg, len=1400)]),
        "http_exchange_then_response_body": (80, [c(hex=REQ.hex()), sv(hex=RESP.hex()), sv(kind="bytes_b", n=nseg, len=1400)]),
        "http_exchange_then_binary_both_ways": (80, [c(hex=REQ.hex()), sv(hex=RESP.hex())] + [x for _ in range(min(nseg, 3000) // 2) for x in (c(kind="random", n=1, len=1400), sv(kind="random", n=1, len=1400))]),
        "http_request_segment_retransmitted": (80, [c(hex=REQ[:30].hex(), n=nseg, retx=True)]),
        "http_body_segment_retransmitted": (80, [c(hex=REQ.hex()), c(kind="bytes_b", n=nseg, len=1400, retx=True)]),
        "http_response_without_request": (80, [sv(hex=RESP.hex()), sv(kind="bytes_b", n=nseg, len=1400)]),
        "http_pipelined_requests": (80, [c(hex=REQ.hex(), n=nseg)]),
        "http_many_exchanges": (80, [x for _ in range(min(nseg, 3000) // 2) for x in (c(hex=REQ.hex()), sv(hex=RESP.hex()))]),
        "h2_start_then_data": (80, [c(hex=H2H.hex()), c(kind="h2_data", n=nseg, len=1400)]),
        "h2_preface_then_many_headers": (80, [c(hex=H2.hex()), c(kind="h2_headers", n=nseg, len=1400)]),
        "h2_start_then_many_headers": (80, [c(hex=H2H.hex()), c(kind="h2_headers", n=nseg, len=1400)]),
        "h2_response_then_data": (80, [c(hex=H2H.hex()), sv(hex=(bytes([0, 0, 0, 4, 0, 0, 0, 0, 0]) + bytes([0, 0, 1, 1, 4, 0, 0, 0, 1, 0x88])).hex()), sv(kind="h2_data", n=nseg, len=1400)]),
    }
    # a header block that raises the HPACK table limit (dynamic-table-size update to 1 MiB), inserts 60 fields of 137 octets and then
    # fails to decode (index 0), followed by more payload in small segments: a block that failed must leave nothing behind, however
    # often the direction is looked at again
    badblk = bytes([0x3f, 0xe1, 0xff, 0x3f]) + b"".join(bytes([0x40, 5]) + b"x-k%02d" % i + bytes([100]) + b"v" * 100 for i in range(60)) + bytes([0x80])
    badhdr = bytes([0, len(badblk) >> 8, len(badblk) & 255, 1, 4, 0, 0, 0, 1]) + badblk + bytes([0, 0x3e, 0x80, 0, 0, 0, 0, 0, 1])
    scripts["h2_failed_block_then_small_segments_server"] = (80, [c(hex=H2H.hex()), sv(hex=(bytes([0, 0, 0, 4, 0, 0, 0, 0, 0]) + badhdr).hex()), sv(kind="zeros", n=min(nseg, 2500), len=16)])
    scripts["h2_failed_block_then_small_segments_client"] = (80, [c(hex=(H2 + badhdr).hex()), c(kind="zeros", n=min(nseg, 2500), len=16)])
    for name, (port, script) in scripts.items():
        crates = ("tls", "uni") if name.startswith("tls") else ("http", "uni")
        if "tiny" in name or "one_byte" in name:
            # the HTTP side of the unified analyzer stores every segment of a tracked flow separately until its 64 KiB byte cap: with
            # 1-4 byte segments that is a (large) constant per connection, above this check's per-connection allowance but bounded
            crates = ("tls",)
        for crate in crates:
            scen.append({"crate": crate, "kind": name, "script": script, "port": port, "n": 0, "len": 1400, "cap": 1, "conns": 1, "server": False})
            if tier == "thorough":
                scen.append({"crate": crate, "kind": name, "script": [dict(st, n=max(1, st.get("n", 1) // 10)) for st in script], "port": port, "n": 0, "len": 1400, "cap": 10, "conns": 10, "server": False})
    # far more connections than the configured capacity (a scan, many short connections): what is kept is bounded by the CAPACITY,
    # however many connections have been seen; every segment carries TCP timestamps, so the TCP tracker has something to keep
    many = 20000 if tier == "thorough" else 3000
    for crate in ("tcp", "uni", "http", "tls"):
        for cap in (1, 8):
            scen.append({"crate": crate, "kind": "random", "n": 2, "len": 60, "cap": cap, "conns": many, "server": False, "timestamps": True})
    # ... and every one of them completes an exchange: a request and a response head whose every value (path, host, agent, languages,
    # cookie, referer, a header NAME) occurs on this connection only -- nothing may be remembered per distinct value seen
    for crate in ("http", "uni"):
        for cap in (1, 8):
            scen.append({"crate": crate, "kind": "http_unique", "script": [{"dir": "c", "kind": "http_unique_req", "n": 1}, {"dir": "s", "kind": "http_unique_resp", "n": 1}], "port": 80,
                         "n": 0, "len": 1400, "cap": cap, "conns": many, "server": False, "timestamps": cap == 8, "serial": True})
    scen.append({"crate": "tcp", "kind": "random", "n": nseg // 4, "len": 200, "cap": 4, "conns": 4, "server": False, "timestamps": True})
    scen.append({"crate": "uni", "kind": "tls_appdata", "n": nseg // 4, "len": 200, "cap": 4, "conns": 4, "server": True, "timestamps": True})
    for i, s in enumerate(scen):
        s.update(id=i, seed=vlib.seed(), stop_retained=BASE + min(s["conns"], s["cap"]) * L, stop_alloc=A + B * 1500)
    req = os.path.join(wd, "res.req")
    vlib.write_ndjson(req, scen)
    out = os.path.join(wd, "res.out")
    vlib.run_hv_split("res", req, out, parts=8, timeout=3000)
    trace = os.path.join(wd, "trace.ndjson")
    n_ev = n_pk = 0
    maxima = []
    with open(trace, "w") as f:
        for o in vlib.read_ndjson(out):
            s = scen[o["id"]]
            if "panic" in o:
                v.violation({"scenario": s, "observed": "panic: " + o["panic"]})
                continue
            if o["wall_ms"] > 50000:
                raise vlib.ToolError("scenario %s took %d ms: too close to the 60 s flow TTL to be judged" % (s, o["wall_ms"]))
            n_ev += len(o["events"])
            n_pk += max(e["idx"] for e in o["events"]) * s["conns"]
            maxima.append({"crate": s["crate"], "kind": s["kind"], "server": s["server"], "conns": s["conns"], "max_retained": o["max_retained"], "max_allocated_per_packet": o["max_allocated"],
                           "packets": max(e["idx"] for e in o["events"])})
            f.write(json.dumps({"id": o["id"], "conns": min(s["conns"], s["cap"]), "cap": s["cap"], "over": s["conns"] > 8 * s["cap"] + 64, "events": o["events"]}) + "\n")
    r2 = vlib.tlc("TV_C11", pid=PID, workers=8, env={"TRACE": trace}, timeout=1800, heap="10g")

    if tier == "thorough":
        def mut(rows):
            r_ = json.loads(json.dumps(rows[0]))
            r_["events"][-1]["retained"] = r_["events"][-1]["retained"] + 1000000000
            return rows[:5] + [r_], "the retained bytes of one recorded event are raised beyond the bound"
        v.binding.append(vlib.binding_demo("TV_C11", trace, mut, PID, workers=4, timeout=900, heap="4g"))
    for b in r2.lines.get("BAD", []):
        s = scen[b["id"]]
        dev = None
        if s["crate"] in ("http", "uni") and s["kind"] != "http_ok_then_body" or (s["kind"] == "http_ok_then_body" and s["server"]):
            dev = "D11_http_unbounded"
        elif s["crate"] == "tls" and s["kind"] == "tls_srvhello_then_data":
            dev = "D11_tls_nonhello"
        if dev and dev in K:
            v.known_hit(dev, WHAT[dev])
            continue
        if b["retained_bound"] == -1:
            v.violation({"scenario": {k: s[k] for k in ("crate", "kind", "n", "len", "cap", "conns", "server")},
                         "observed": "what the analyzer keeps goes on growing with the number of connections seen, far beyond its connection capacity (no plateau: more than 64 KiB above what was kept when the tables first filled)",
                         "last_event": b["event"]})
            continue
        v.violation({"scenario": {k: s[k] for k in ("crate", "kind", "n", "len", "cap", "conns", "server")}, "first_event_over_a_bound": b["event"],
                     "retained_bound": b["retained_bound"], "work_bound": b["work_bound"], "retained_within_bound": b["retained_ok"], "work_within_bound": b["work_ok"]})
    # ---- the configured capacity is honoured on every path to the analyzers: the interleavings of Tables.tla (connection sets against
    # capacities 0..3, FIFO eviction; see X02) through the capture front ends -- sequential and the parallel one with a single worker,
    # whose queue is far larger than the capacity -- must report exactly what the model predicts for a table of THAT capacity
    from props import x02
    xl, xm, xs, xt = x02.build(PID)
    fe = []
    for mode in ("tls", "http"):
        for k_, ln in enumerate(sorted(xl[mode], key=lambda l: (l["cap"], l["frames"]))):      # (not in TLC's print order)
            if tier != "thorough" and k_ % 3:
                continue
            for crate in (mode, mode + "_par"):
                fe.append({"id": "%s|%d" % (crate, ln["id"]), "crate": crate, "frames": ln["frames"], "matcher": False, "cfg": {}, "cap": ln["cap"],
                           "parallel": {"workers": 1, "queue": 64, "batch": 4, "timeout_ms": 5}})
    freq = os.path.join(wd, "fe.req")
    vlib.write_ndjson(freq, fe)
    fout = os.path.join(wd, "fe.out")
    vlib.run_hv_split("ana", freq, fout, parts=6, timeout=3000, env={"HV_PCAP_DIR": os.path.join(wd, "pcap")})
    n_fe = 0
    for o in vlib.read_ndjson(fout):
        crate, i = o["id"].split("|")
        m = xm[int(i)]
        if "panic" in o:
            v.violation({"front_end": crate, "scenario": m["scen"], "capacity": m["cap"], "observed": "panic: " + o["panic"]})
            continue
        if o.get("skipped"):
            continue
        if o.get("hung"):
            # the capture is finished and the pool has been told to stop, yet a worker lives on -- with its flow table
            v.violation({"front_end": crate, "scenario": m["scen"], "capacity": m["cap"], "observed": "10 s after the capture was analysed the result channel is still open: a worker of the shut-down pool has not left and keeps its tables"})
            continue
        if m["cap"] == 0 and not o.get("ok", True) and not o.get("results"):
            continue                                     # a capacity of 0 may be refused outright
        n_fe += 1
        if crate.startswith("tls"):
            want = sorted(x for x in m["outs"] if x == "some")
            got = sorted("some" for _ in o["results"])
        else:
            want = sorted(x for x in m["outs"] if x in ("req", "resp"))
            got = sorted(k for r_ in o["results"] for k in ("req", "resp") if r_.get(k))
        if got != want:
            v.violation({"front_end": "analyze_pcap, " + ("parallel (1 worker, queue 64)" if crate.endswith("_par") else "sequential"), "analyzer": crate.split("_")[0], "scenario": m["scen"],
                         "configured_capacity": m["cap"], "schedule": m["sched"], "predicted_per_packet (table of that capacity)": m["outs"], "reported": got})
    # ---- what a capture front end holds while it works: one endless connection captured with n and with 4n segments, each capture
    # analysed by analyze_pcap of every analyzer (results taken from the channel as they arrive), the live heap sampled meanwhile;
    # TLC judges the pairs of peaks (TV_C11F, Resources!FrontEndOk)
    nbase = 6000 if tier == "thorough" else 2000
    glines, gmeta = [], []
    for crate in ("tls", "http", "tcp", "uni"):
        for kind in ("tls_appdata", "http_body"):
            for n_ in (nbase, 4 * nbase):
                gmeta.append((crate, kind, n_))
                glines.append({"id": len(glines), "crate": crate, "gen_capture": {"n": n_, "len": 1400, "kind": kind}, "matcher": crate in ("tcp", "uni"), "cfg": {}, "frames": [], "cap": 16})
    greq, gout = os.path.join(wd, "capture.req"), os.path.join(wd, "capture.out")
    vlib.write_ndjson(greq, glines)
    vlib.run_hv("ana", greq, gout, timeout=1800, env={"HV_PCAP_DIR": os.path.join(wd, "pcap")})
    peaks = {}
    for o in vlib.read_ndjson(gout):
        crate, kind, n_ = gmeta[o["id"]]
        if "panic" in o or o.get("hung") or o.get("skipped") or o.get("ok") is not True:
            v.violation({"front_end": "analyze_pcap (%s)" % crate, "capture": "one connection, %d segments of 1400 octets (%s)" % (n_, kind), "observed": {k: o.get(k) for k in ("panic", "hung", "skipped", "ok", "ctor_error")}})
            continue
        peaks[(crate, kind, n_)] = o["peak"]
    ftrace = os.path.join(wd, "capture.trace.ndjson")
    frows = [{"crate": c, "kind": k, "n_small": nbase, "n_big": 4 * nbase, "peak_small": peaks[(c, k, nbase)], "peak_big": peaks[(c, k, 4 * nbase)]}
             for c in ("tls", "http", "tcp", "uni") for k in ("tls_appdata", "http_body") if (c, k, nbase) in peaks and (c, k, 4 * nbase) in peaks]
    vlib.write_ndjson(ftrace, frows)
    r5 = vlib.tlc("TV_C11F", pid=PID, workers=1, env={"TRACE": ftrace}, timeout=600, coverage=False)
    for b in r5.lines.get("BAD", []):
        v.violation({"front_end": "analyze_pcap (%s)" % b["crate"], "capture": "one endless connection (%s), segments of 1400 octets" % b["kind"],
                     "peak_live_heap_while_analysing_%d_segments" % b["n_small"]: b["peak_small"], "peak_live_heap_while_analysing_%d_segments" % b["n_big"]: b["peak_big"],
                     "observed": "what the front end holds grows with the length of the capture"})
    n_fe += len(frows)
    return v.finish("exploration", {
        "evaluations": n_pk, "distinct_nontrivial": len(scen),
        "rule": "%d scenarios (analyzer x traffic kind x direction x {1 connection at capacity 1, capacity-many connections}) of up to %d segments of 1400 bytes; every packet measured, events recorded for the first 64 packets, "
                "at power-of-two indices, at the end and at the first bound excess (%d events judged by TLC); non-trivial = scenarios" % (len(scen), nseg, n_ev),
        "samples": maxima[:6], "states": r2.distinct + xs, "transitions": r2.generated + xt, "traces_validated_against_impl": len(scen) + n_fe,
        "bounds": {"retained": "131072 + connections * 262144", "allocated_per_packet": "1048576 + 64 * frame length"}, "measured_maxima": maxima,
    }, ["allocation counted by a process-wide counting #[global_allocator] in the harness; the analyzers' tables are the ones their front ends own (TtlCache of the crates' flow types)",
        "constants L, A, B are this check's reading of `fixed per-connection limit` and `constant plus a term proportional to the packet's size`",
        "real-time expiry of table entries (20-60 s) is not relied on: scenarios are cut at the first excess and must finish well within the TTL"])


def replay(path, v):
    return run("quick", v)
