"""C13 — every bundled signature is reachable by the traffic it describes.

B  MC_C13 (Reach.tla over TcpExtract/Match): for every TCP SYN / SYN+ACK signature of the bundled database and every grid choice
   (IP version, hop count, MSS / scale where left open, ECN in IP header or TCP flags, payload) TLC builds the conforming
   packet, checks on the definition that it conforms (engine A), lists the labels the property accepts (own label, or an earlier
   entry the packet conforms to equally) and what the code model predicts; the real analyzer with the bundled matcher is run
   on the packet.  A wrong label is a violation unless it is exactly the code model's prediction and every reason the model
   gives is a recorded finding.  (HTTP half: MC_C13H, see run_http.)"""
import json, os
import vlib

PID = "C13"
REASON_DEV = {
    "ttl_form": "D13_ttl_bound_form",
    "ttl_initial": "D13_ttl_nonstandard_initial",
    "win_form": "D13_window_form_shadow",
    "win_value": "D13_window_form_shadow",
    "layout": "D03_eol_continues",
    "quirks_v6": "D13_v6_quirks",
    "quirks_v4": "D13_v6_quirks",
    "quirk_order": "D13_quirk_order",
    "mss": "D13_absent_option_zero",
    "wscale": "D13_absent_option_zero",
}
WHAT = {
    "D13_ttl_bound_form": "signatures whose TTL is written `nnn-` (random TTL with upper bound) only match an observation printed `nnn-`, which no packet produces",
    "D13_ttl_nonstandard_initial": "an initial TTL other than 32/64/128/255 (or more than 30 hops away) is not recognised by the analyzer's TTL guess, so the signature's TTL field scores a mismatch",
    "D13_window_form_shadow": "the observed window is abstracted (mss multiple / modulus / mtu multiple) before matching, so a signature that states the same window in another form is rejected",
    "D03_eol_continues": "option layouts with an end-of-options marker are rendered with extra eol entries and never equal the signature's layout",
    "D13_v6_quirks": "quirk lists are compared literally, so an IPv6 packet can never match a signature listing IPv4-only quirks (df, id+, id-, 0+) and vice versa for flow",
    "D13_quirk_order": "quirks are emitted in header-walk order and compared as lists, so traffic whose quirks come out in another order than the signature lists them is rejected",
    "D13_absent_option_zero": "p0f writes MSS/scale 0 for a packet without that option; the analyzer reports them absent and scores a mismatch against the signature's 0",
}


def label_key(l):
    if l is None:
        return None
    return (l["name"], (l["class"] or [None])[0], (l["flavor"] or [None])[0], l["ty"])


def os_key(o):
    if o is None:
        return None
    return (o["name"], o["family"], o["variant"], {"Specified": "s", "Generic": "g"}[o["kind"]])


def run(tier, v):
    wd = vlib.workdir(PID)
    vlib.build_harness()
    K = set(vlib.known_devs(PID))
    sigs = os.path.join(wd, "sigs.ndjson")
    req = os.path.join(wd, "req.ndjson")
    vlib.write_ndjson(req, [{"op": "db_sigs", "id": 0}])
    vlib.run_hv("db", req, sigs)
    vec = os.path.join(wd, "vectors.ndjson")
    exp = {}
    with open(vec, "w") as f:
        def sink(tag, o):
            if tag == "STAT":
                raise vlib.ToolError("no conforming packet could be built for bundled signature %s" % o)
            i = len(exp)
            exp[i] = o
            f.write(json.dumps({"id": i, "op": "frames", "frames": [o["frame"]]}) + "\n")
        r = vlib.tlc("MC_C13", pid=PID, workers=16 if tier == "thorough" else 8, tag_sink=sink, timeout=3000, heap="10g",
                     env={"SIGS": sigs, "VERIF_TIER": tier})
    if r.inv_violated:
        raise vlib.ToolError("Reach.tla: a packet built for a signature does not conform to it under the definition")
    out = os.path.join(wd, "observed.ndjson")
    vlib.run_hv("tcp", vec, out)
    n = n_ok = 0
    sig_lines = set()
    dead = {}
    samples = []
    for o in vlib.read_ndjson(out):
        e = exp[o["id"]]
        n += 1
        sig_lines.add((e["table"], e["i"]))
        got = o["out"][0]
        if got["r"] != "ok":
            v.violation({"signature": e["line"], "table": e["table"], "choice": e["choice"], "observed": got})
            continue
        res = got["res"]["syn" if e["table"] == "tcp_request" else "syn_ack"]
        if res is None:
            v.violation({"signature": e["line"], "table": e["table"], "choice": e["choice"], "observed": "no %s result" % e["table"]})
            continue
        lab = os_key(res["os"])
        accept = {label_key(l) for l in e["accept"]}
        if lab in accept:
            n_ok += 1
            if len(samples) < 2 and n % 97 == 1:
                samples.append({"signature": e["line"], "choice": e["choice"], "observation": res["text"], "matched": res["os"], "quality_x100": res["q"]})
            continue
        pred = label_key(e["predicted"][0]) if e["predicted"] else None
        devs = {REASON_DEV.get(x, "?" + x) for x in e["reasons"]}
        if lab == pred and devs and devs <= K:
            for d in devs:
                v.known_hit(d, WHAT[d])
            dead.setdefault(e["line"], set()).update(devs)
            continue
        v.violation({"signature": e["line"], "table": e["table"], "entry": e["i"], "choice": e["choice"], "frame": "".join("%02x" % b for b in e["frame"]),
                     "acceptable_labels": sorted(map(str, accept)), "observed_label": lab, "observed_observation": res["text"], "observed_quality_x100": res["q"],
                     "code_model_predicts": pred, "code_model_reasons": e["reasons"], "reason_deviations": sorted(devs)})
    hn, hok, hlines, hdead, hstates, htrans = run_http(v, wd, sigs, K, samples)
    dead.update(hdead)
    n += hn
    n_ok += hok
    sig_lines |= hlines
    return v.finish("model_checking", {
        "states": r.distinct + hstates, "transitions": r.generated + htrans, "traces_validated_against_impl": n,
        "evaluations": n, "distinct_nontrivial": len(sig_lines),
        "rule": "every TCP and HTTP signature of the bundled database (%d lines; HTTP: both versions for `*`, optional headers in/out, software token alone and embedded) x grid choices (version, hops, MSS, scale, ECN placement, payload; %s grid): %d packets, %d matched an acceptable label; "
                "non-trivial = distinct signature lines exercised" % (len(sig_lines), tier, n, n_ok),
        "samples": samples or [{"note": "none drawn"}], "exhaustive": False,
        "signature_lines_unreachable_for_some_conforming_packet": {k: sorted(s) for k, s in sorted(dead.items())},
    }, ["conformance (Reach!Conforms) follows the p0f field definitions: quirks as a set restricted to the packet's IP version, `nnn-` as an upper bound, raw window against the stated form",
        "the code model (Reach!CodeObs + Match!TcpDist) is used only to recognise recorded findings, never to accept a result",
        "HTTP conformance (MC_C13H!Conforms) is judged on the message: listed headers in order with optional ones possibly missing, listed values, absent list, token contained"])


HTTP_REASON_DEV = {"sw": "D12_sw_reversed", "horder": "D13_http_header_values", "habsent": "D13_http_header_values", "shadowed": "D13_http_shadowed"}
WHAT.update({
    "D12_sw_reversed": "the software-string test is reversed (signature.contains(observed)): a real User-Agent / Server value that contains the signature's token is not an instance",
    "D13_http_header_values": "the observation prints the value of every header outside the two elision lists and compares header names case-sensitively with the absent list, so signatures that list such a header without a value (any value), or whose absent list names a header the message spells differently, score header mismatches",
    "D13_http_shadowed": "another entry reaches a distance no larger than the signature's own for its conforming traffic and is found first",
})


def run_http(v, wd, sigs, K, samples):
    vec = os.path.join(wd, "http-vectors.ndjson")
    exp = {}
    with open(vec, "w") as f:
        def sink(tag, o):
            if tag == "STAT":
                exp.setdefault("skipped", []).append(o)
                return
            i = len([k for k in exp if k != "skipped"])
            exp[i] = o
            data = ("\r\n".join(o["lines"]) + "\r\n\r\n").encode()
            f.write(json.dumps({"id": i, "op": "match", "kind": o["kind"], "data": data.hex()}) + "\n")
        r = vlib.tlc("MC_C13H", pid=PID, workers=8, tag_sink=sink, timeout=3000, heap="10g", env={"SIGS": sigs}, coverage=False)
    if r.inv_violated:
        raise vlib.ToolError("MC_C13H: a message built for a signature does not conform to it under the definition")
    out = os.path.join(wd, "http-observed.ndjson")
    vlib.run_hv("http", vec, out)
    n = n_ok = 0
    lines = set()
    dead = {}
    for o in vlib.read_ndjson(out):
        e = exp[o["id"]]
        n += 1
        lines.add((e["table"], e["i"]))
        if o["r"] != "some":
            v.violation({"signature": e["line"], "table": e["table"], "message": e["lines"], "observed": o})
            continue
        lab = label_key(o["v"]["label"])
        accept = {label_key(l) for l in e["accept"]}
        if lab in accept:
            n_ok += 1
            if len(samples) < 4 and n % 211 == 1:
                samples.append({"signature": e["line"], "message": e["lines"], "observation": o["v"]["text"], "matched": o["v"]["label"], "quality_x100": o["v"]["q"]})
            continue
        pred = label_key(e["predicted"][0]) if e["predicted"] else None
        devs = {HTTP_REASON_DEV.get(x, "?" + x) for x in e["reasons"]}
        if lab == pred and devs and devs <= K:
            for d in devs:
                v.known_hit(d, WHAT[d])
            dead.setdefault(e["line"], set()).update(devs)
            continue
        v.violation({"signature": e["line"], "table": e["table"], "entry": e["i"], "message": e["lines"], "acceptable_labels": sorted(map(str, accept)),
                     "observed_label": lab, "observed_observation": o["v"]["text"], "observed_quality_x100": o["v"]["q"], "code_model_predicts": pred,
                     "code_model_reasons": e["reasons"], "reason_deviations": sorted(devs)})
    for sk in exp.get("skipped", []):
        dead.setdefault(sk["skipped"], set()).add("not constructible: " + sk["why"])
    return n, n_ok, lines, dead, r.distinct, r.generated


def replay(path, v):
    return run("quick", v)
