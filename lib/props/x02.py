"""X02 (extension, not one of the twenty listed properties) — the flow tables at and beyond their capacity.

A  MC_X02 (Tables.tla): all order-preserving interleavings of small connection sets against tables of capacity 0..3; TLC checks
   that a table never exceeds its capacity and prints, per interleaving, the outcome predicted for every packet.
B  the same interleavings are rendered as real packets (split / whole ClientHellos, a ServerHello, HTTP handshakes, requests and
   responses) and fed to the TLS and HTTP packet paths with a flow table of that capacity; the per-packet outcomes must be the
   predicted ones: eviction is first-in-first-out, a capacity of 0 stores nothing, an evicted partial ClientHello is lost, a
   flow created by a SYN+ACK takes the server for the client."""
import json, os
import vlib
from props import c10

PID = "X02"


def build(pid):
    """MC_X02's interleavings rendered as real packets: (lines per analyzer, meta per line id, states, transitions)"""
    lines, meta = {"tls": [], "http": []}, {}
    states = trans = 0
    H = [c10.hello("x02-%d.example" % i) for i in range(5)]
    SH = bytes([0x16, 3, 3, 0, 42, 2, 0, 0, 38, 3, 3]) + bytes(range(32)) + bytes([0, 0xc0, 0x2f, 0])
    for scen in ("tls_split3", "tls_mixed", "http_two", "http_three"):
        acc = []
        r = vlib.tlc("MC_X02", pid=pid, workers=8, env={"VERIF_SCEN": scen}, tag_sink=lambda tag, o: acc.append(o), timeout=1800)
        if r.inv_violated:
            raise vlib.ToolError("Tables.tla: a table exceeds its capacity in the model (%s)" % r.inv_violated)
        states += r.distinct
        trans += r.generated
        for o in acc:
            mode = "tls" if scen.startswith("tls") else "http"
            ptr = {}
            frames = []
            for c in o["sched"]:
                k = ptr.get(c, 0)
                ptr[c] = k + 1
                cli, srv = (10, 20, 0, c), (10, 21, 0, 1)
                cp = 30000 + c
                if mode == "tls":
                    kinds = {"tls_split3": [["h1", "h2"]] * 3, "tls_mixed": [["h1", "h2"], ["H"], ["h1", "h2"], ["S"]]}[scen][c - 1]
                    kind = kinds[k]
                    h = H[c]
                    if kind == "h1":
                        frames.append(c10.frame(cli, srv, cp, 443, 1, 1, 0x18, h[:40], ipid=c * 10 + k))
                    elif kind == "h2":
                        frames.append(c10.frame(cli, srv, cp, 443, 41, 1, 0x18, h[40:], ipid=c * 10 + k))
                    elif kind == "H":
                        frames.append(c10.frame(cli, srv, cp, 443, 1, 1, 0x18, h, ipid=c * 10 + k))
                    else:
                        frames.append(c10.frame(srv, cli, 443, cp, 1, 1, 0x18, SH, ipid=c * 10 + k))
                else:
                    kinds = {"http_two": [["syn", "synack", "req", "resp"]] * 2, "http_three": [["syn", "req"], ["syn", "req", "resp"], ["synack", "req", "resp"]]}[scen][c - 1]
                    kind = kinds[k]
                    R = ("GET /x02-%d HTTP/1.1\r\nHost: x02.example\r\nUser-Agent: x02/%d\r\n\r\n" % (c, c)).encode()
                    S = ("HTTP/1.1 200 OK\r\nServer: x02-srv-%d\r\n\r\nok" % c).encode()
                    if kind == "syn":
                        frames.append(c10.frame(cli, srv, cp, 80, 100, 0, 0x02, ipid=c * 10 + k))
                    elif kind == "synack":
                        frames.append(c10.frame(srv, cli, 80, cp, 500, 101, 0x12, ipid=c * 10 + k))
                    elif kind == "req":
                        frames.append(c10.frame(cli, srv, cp, 80, 101, 501, 0x18, R, ipid=c * 10 + k))
                    else:
                        frames.append(c10.frame(srv, cli, 80, cp, 501, 101 + len(R), 0x18, S, ipid=c * 10 + k))
            i = len(meta)
            meta[i] = o
            lines[mode].append({"id": i, "op": "packets", "cap": o["cap"], "frames": [f.hex() for f in frames]})
    return lines, meta, states, trans


def run(tier, v):
    wd = vlib.workdir(PID)
    vlib.build_harness()
    lines, meta, states, trans = build(PID)
    n = n_nontriv = 0
    for mode in ("tls", "http"):
        req = os.path.join(wd, "%s.req" % mode)
        vlib.write_ndjson(req, lines[mode])
        out = os.path.join(wd, "%s.out" % mode)
        vlib.run_hv(mode, req, out)
        for o in vlib.read_ndjson(out):
            m = meta[o["id"]]
            got = []
            for fr in o["out"]:
                if mode == "tls":
                    got.append({"some": "some", "none": "none", "err": "err"}.get(fr["r"], fr["r"]))
                else:
                    got.append("req" if fr.get("req") else "resp" if fr.get("resp") else ("none" if fr["r"] == "ok" else fr["r"]))
            n += 1
            n_nontriv += any(x not in ("none",) for x in m["outs"])
            if got != m["outs"]:
                v.violation({"scenario": m["scen"], "capacity": m["cap"], "schedule": m["sched"], "predicted_per_packet": m["outs"], "observed_per_packet": got})
    return v.finish("model_checking", {
        "states": states, "transitions": trans, "traces_validated_against_impl": n, "evaluations": n, "distinct_nontrivial": n_nontriv,
        "rule": "all interleavings of the connection sets tls_split3, tls_mixed, http_two, http_three x capacities 0..3 (%d runs); non-trivial = runs in which something is reported" % n,
        "samples": [{"scenario": meta[0]["scen"], "capacity": meta[0]["cap"], "schedule": meta[0]["sched"], "predicted": meta[0]["outs"]}],
    }, ["extension beyond the listed properties", "real-time expiry of entries is not modelled (runs last milliseconds)"])


def replay(path, v):
    return run("quick", v)
