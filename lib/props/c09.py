"""C09 — HTTP stream reassembly is invariant to segmentation, sequence origin and arrival order.

A  MC_C09 (HttpReasm.tla): all ordered partitions of both directions' streams x all arrival orders, interleaved, with the
   invariants never-before-complete, at-most-once, reported-when-complete, never-garbled.
C  real request/response pairs are cut (every 2-cut, seeded k-partitions), given initial sequence numbers from small to
   within one stream length of 2^32, delivered in seeded permutations with both directions interleaved after SYN / SYN+ACK,
   through the packet-level HTTP analyzer; every connection's per-segment outcome (reported? identical to the one-shot
   result? right direction?) is validated by TLC against HttpReasm (TV_C09)."""
import hashlib, json, os, random
import vlib

PID = "C09"
WHAT = {
    "D09_abs_order": "segments are ordered by absolute 32-bit sequence number: a stream whose sequence space wraps is never (or wrongly) reported",
    "D09_no_contiguity": "stored segments are concatenated without a contiguity check: a head is assembled and reported from pieces with a hole between them",
}

REQ_A = b"GET /index.html HTTP/1.1\r\nHost: www.example.com\r\nUser-Agent: Mozilla/5.0 (X11; Linux x86_64; rv:109.0) Gecko/20100101 Firefox/115.0\r\nAccept: text/html,application/xhtml+xml\r\nAccept-Language: en-US,en;q=0.5\r\nConnection: keep-alive\r\n\r\n"
RESP_A = b"HTTP/1.1 200 OK\r\nDate: Mon, 01 Jan 2024 00:00:00 GMT\r\nServer: Apache/2.4.57 (Unix)\r\nContent-Type: text/html; charset=UTF-8\r\nContent-Length: 300\r\n\r\n" + b"<html>" + b"x" * 288 + b"</html>"
REQ_B = b"POST /submit HTTP/1.1\r\nHost: api.example.org\r\nUser-Agent: curl/8.1.2\r\nContent-Type: application/x-www-form-urlencoded\r\nContent-Length: 200\r\n\r\n" + b"k=v&" * 50
RESP_B = b"HTTP/1.0 204 No Content\r\nServer: nginx\r\nConnection: close\r\n\r\n"
REQ_C = b"GET / HTTP/1.0\r\nHost: h\r\nCookie: " + b"; ".join(b"c%d=%s" % (i, b"v" * 20) for i in range(25)) + b"\r\nUser-Agent: Wget/1.21\r\n\r\n"
RESP_C = b"HTTP/1.1 404 Not Found\r\nServer: lighttpd\r\nContent-Type: text/plain\r\n\r\nnot found\r\n\r\nreally\r\n"
# heads with bare LF line ends (accepted by the parser) followed by bodies that contain CRLF CRLF / LF LF and binary bytes
REQ_D = b"POST /lf HTTP/1.1\nHost: lf.example\nUser-Agent: lf-agent/1.0\nTransfer-Encoding: chunked\n\n" + b"5\r\nhello\r\n0\r\n\r\n" + b"\x00\xff\n\nrest"
RESP_D = b"HTTP/1.1 200 OK\nServer: lf-server\nContent-Type: text/plain\nTransfer-Encoding: chunked\n\n" + b"3\r\nabc\r\n0\r\n\r\n"
# cleartext HTTP/2 with two concurrent streams, the server answering the higher-numbered stream first: the request is the first
# HEADERS frame of the client, the response the first HEADERS frame of the server
def _h2f(t, fl, st, pl):
    return bytes([0, len(pl) >> 8, len(pl) & 255, t, fl, 0, 0, 0, st]) + pl


_H2_PRE = b"PRI * HTTP/2.0\r\n\r\nSM\r\n\r\n" + _h2f(4, 0, 0, b"")
_H2_REQ1 = _h2f(1, 5, 1, bytes([0x82, 0x86, 0x84, 0x0f, 0x2b, 7]) + b"agent/1")          # GET http / + user-agent (static 58)
_H2_REQ3 = _h2f(1, 5, 3, bytes([0x82, 0x86, 0x85]))
REQ_E = _H2_PRE + _H2_REQ1 + _H2_REQ3 + _h2f(6, 0, 0, bytes(8))
_H2_RESP3 = _h2f(1, 5, 3, bytes([0x8d, 0x0f, 0x27, 5]) + b"quick")                        # 404, server: quick (static 54)
_H2_RESP1 = _h2f(1, 5, 1, bytes([0x88, 0x0f, 0x27, 5]) + b"nginx")                        # 200, server: nginx
RESP_E = _h2f(4, 0, 0, b"") + _H2_RESP3 + _H2_RESP1 + _h2f(0, 1, 1, b"body")
# HTTP/2 again: the client's header block begins with a dynamic-table-size update to 0 (its answer to a server that announced
# SETTINGS_HEADER_TABLE_SIZE 0), the server's block inserts a field into its own dynamic table and refers to it (index 62) in the
# same block.  Each direction has its own HPACK context: what the client's block does to the table says nothing about the server's
_H2_REQF = _h2f(1, 5, 1, bytes([0x20, 0x82, 0x86, 0x84, 0x0f, 0x2b, 7]) + b"agent/2")
REQ_F = _H2_PRE + _H2_REQF + _h2f(6, 0, 0, bytes(8))
_H2_RESPF = _h2f(1, 4, 1, bytes([0x88, 0x40, 5]) + b"x-srv" + bytes([2]) + b"v1" + bytes([0xbe, 0x0f, 0x27, 5]) + b"nginx")
RESP_F = _h2f(4, 0, 0, b"") + _H2_RESPF + _h2f(0, 1, 1, b"body-f")
HEADLEN = {REQ_E: len(_H2_PRE + _H2_REQ1), RESP_E: len(_h2f(4, 0, 0, b"") + _H2_RESP3), REQ_F: len(_H2_PRE + _H2_REQF), RESP_F: len(_h2f(4, 0, 0, b"") + _H2_RESPF)}
# heads far longer than one Ethernet MTU (a 2.6 KB cookie, a long Set-Cookie): delivered whole (GRO / TSO captures, loopback, jumbo
# frames put more than 1460 octets into one segment) or cut anywhere, the report is the same
REQ_G = b"GET /big HTTP/1.1\r\nHost: big.example\r\nCookie: " + b"; ".join(b"k%03d=%s" % (i, b"v" * 18) for i in range(100)) + b"\r\nUser-Agent: big-agent/1.0\r\nAccept: */*\r\n\r\n"
RESP_G = b"HTTP/1.1 200 OK\r\nServer: big-server\r\nSet-Cookie: session=" + b"s" * 1900 + b"; Path=/\r\nContent-Type: text/html\r\n\r\n" + b"<html>" + b"y" * 1500 + b"</html>"
PAIRS = [(REQ_A, RESP_A), (REQ_B, RESP_B), (REQ_C, RESP_C), (REQ_D, RESP_D), (REQ_E, RESP_E), (REQ_F, RESP_F), (REQ_G, RESP_G)]


def head_only(m):
    """the message head: up to and including the first blank line (whichever line-end style comes first); for HTTP/2 up to the end
    of the first HEADERS frame"""
    if m in HEADLEN:
        return m[:HEADLEN[m]]
    ends = [m.find(t) + len(t) for t in (b"\r\n\r\n", b"\n\n") if m.find(t) >= 0]
    return m[:min(ends)]


def frame(src, dst, sport, dport, seq, ack, flags, payload):
    tcp = bytes([sport >> 8, sport & 255, dport >> 8, dport & 255]) + seq.to_bytes(4, "big") + ack.to_bytes(4, "big") + bytes([0x50, flags, 0xff, 0xff, 0, 0, 0, 0]) + payload
    total = 20 + len(tcp)
    ip = bytes([0x45, 0, total >> 8, total & 255, 0x12, 0x34, 0x40, 0, 64, 6, 0, 0]) + bytes(src) + bytes(dst)
    return (bytes([2, 0, 0, 0, 0, 2, 2, 0, 0, 0, 0, 1, 8, 0]) + ip + tcp).hex()


def cuts_to_pieces(n, cuts):
    b = [0] + sorted(cuts) + [n]
    return [(b[i], b[i + 1] - b[i]) for i in range(len(b) - 1)]


def run(tier, v):
    wd = vlib.workdir(PID)
    vlib.build_harness()
    K = set(vlib.known_devs(PID))
    rng = random.Random(vlib.seed())
    rA = vlib.tlc("MC_C09", pid=PID, workers=8, timeout=1800)
    if rA.inv_violated:
        raise vlib.ToolError("HttpReasm.tla violates its invariants (%s)" % rA.inv_violated)
    # one-shot references
    req = os.path.join(wd, "base.req")
    # the reference is the report for the head delivered alone: what follows the blank line and how the bytes are cut must not matter
    vlib.write_ndjson(req, [{"id": 2 * i, "op": "parse", "kind": "req", "datas": [head_only(p[0]).hex()]} for i, p in enumerate(PAIRS)] +
                      [{"id": 2 * i + 1, "op": "parse", "kind": "resp", "datas": [head_only(p[1]).hex()]} for i, p in enumerate(PAIRS)])
    bout = os.path.join(wd, "base.out")
    vlib.run_hv("http", req, bout)
    base = {}
    for o in vlib.read_ndjson(bout):
        if o["out"][0]["r"] != "some":
            raise vlib.ToolError("reference head %d is not parsed on its own: %s" % (o["id"], o))
        base[o["id"]] = hashlib.sha1(json.dumps(o["out"][0]["v"], sort_keys=True).encode()).hexdigest()
    scen = []

    def add(pi, isn_c, isn_s, pieces_c, pieces_s, order, tfo=False):
        # tfo: the first client piece travels on the SYN itself (TCP Fast Open): it is the first segment of the stream like any other
        scen.append({"pair": pi, "isn": {"c": isn_c, "s": isn_s}, "pieces": {"c": pieces_c, "s": pieces_s}, "order": order, "tfo": tfo})

    def orders(pc, ps, count):
        segs = [("c", i) for i in range(len(pc))] + [("s", i) for i in range(len(ps))]
        out = [list(segs)]                                                 # in order, request first
        for _ in range(count):
            s = list(segs)
            rng.shuffle(s)
            out.append(s)
        return out
    M32 = 1 << 32
    for pi, (R, S) in enumerate(PAIRS):
        hl_c = len(head_only(R))
        isns = [(1000, 5000), ((1 << 31) - 40, (1 << 31) + 7), (M32 - 1, M32 - 2), (M32 - 1 - hl_c // 2, M32 - 1 - 20), (M32 - len(R) + 3, M32 - len(S)), (M32 - len(R) - 5, 77)]
        # the first octets of the request on the SYN (TCP Fast Open), the rest in one or two further segments
        # (never the whole head: a head completed by the SYN itself is reported with the next client segment, which the property allows)
        for k_ in (1, 7, len(head_only(R)) - 1):
            if 0 < k_ < len(R):
                pc, ps = cuts_to_pieces(len(R), [k_]), cuts_to_pieces(len(S), [])
                add(pi, 1000, 5000, pc, ps, [("c", 0), ("c", 1), ("s", 0)], tfo=True)
                if k_ + 3 < len(R):
                    pc = cuts_to_pieces(len(R), [k_, k_ + 3])
                    add(pi, M32 - 2, 77, pc, ps, [("c", 0), ("c", 2), ("c", 1), ("s", 0)], tfo=True)
        # the client half-closes after its request (a FIN without payload: HTTP/1.0-style clients, shutdown(SHUT_WR)), the response follows;
        # the same with the request in two segments and the bare FIN between them arriving early
        pc, ps = cuts_to_pieces(len(R), []) + [(len(R), 0)], cuts_to_pieces(len(S), [])
        add(pi, 1000, 5000, pc, ps, [("c", 0), ("c", 1), ("s", 0)])
        if len(R) > 12:
            pc = cuts_to_pieces(len(R), [9]) + [(len(R), 0)]
            add(pi, M32 - 5, 77, pc, ps, [("c", 0), ("c", 2), ("c", 1), ("s", 0)])
        # both messages whole, each in one segment, in both arrival orders
        for (ic, is_) in isns[:2]:
            pc, ps = cuts_to_pieces(len(R), []), cuts_to_pieces(len(S), [])
            add(pi, ic, is_, pc, ps, [("c", 0), ("s", 0)])
            add(pi, ic, is_, pc, ps, [("s", 0), ("c", 0)])
        # a cut right behind every line terminator of either head (and one octet before / after it)
        for M, dname in ((R, "c"), (S, "s")):
            hl = len(head_only(M))
            ends = sorted({p + dlt for p in range(1, hl) if M[p - 1:p] == b"\n" for dlt in (-1, 0, 1) if 0 < p + dlt < len(M)})
            for c in ends:
                ic, is_ = isns[c % 2]
                pc = cuts_to_pieces(len(R), [c] if dname == "c" else [])
                ps = cuts_to_pieces(len(S), [c] if dname == "s" else [])
                add(pi, ic, is_, pc, ps, [("c", i) for i in range(len(pc))] + [("s", i) for i in range(len(ps))])
        # every 2-cut of the request, response in one piece; and vice versa
        step = (1 if tier == "thorough" else 3) * (1 if len(R) < 1000 else 7)
        for c in range(1, len(R), step):
            for (ic, is_) in (isns if c % (7 * step) == 1 else isns[:1] + [isns[(c // step) % len(isns)]]):
                pc, ps = cuts_to_pieces(len(R), [c]), cuts_to_pieces(len(S), [])
                for o in orders(pc, ps, 1):
                    add(pi, ic, is_, pc, ps, o)
                add(pi, ic, is_, pc, ps, [("c", 1), ("c", 0), ("s", 0)])       # request pieces swapped
        for c in range(1, len(S), step * 2):
            ic, is_ = isns[(c // step) % len(isns)]
            pc, ps = cuts_to_pieces(len(R), []), cuts_to_pieces(len(S), [c])
            add(pi, ic, is_, pc, ps, [("c", 0), ("s", 1), ("s", 0)])
            add(pi, ic, is_, pc, ps, [("s", 0), ("c", 0), ("s", 1)])
        # seeded k-partitions and permutations
        for _ in range(400 if tier == "thorough" else 60):
            kc, ks = rng.randint(1, 6), rng.randint(1, 5)
            pc = cuts_to_pieces(len(R), rng.sample(range(1, len(R)), min(kc - 1, len(R) - 1)))
            ps = cuts_to_pieces(len(S), rng.sample(range(1, len(S)), min(ks - 1, len(S) - 1)))
            ic, is_ = isns[rng.randrange(len(isns))]
            for o in orders(pc, ps, 2):
                add(pi, ic, is_, pc, ps, o)
        # a hole: one middle piece of the request never arrives
        for _ in range(40 if tier == "thorough" else 10):
            pc = cuts_to_pieces(len(R), sorted(rng.sample(range(1, hl_c), 2)))
            ps = cuts_to_pieces(len(S), [])
            add(pi, 1000, 5000, pc, ps, [("c", 0), ("c", 2), ("s", 0)])
    # ---- frames
    vec = os.path.join(wd, "scen.ndjson")
    lines = []
    for si, s in enumerate(scen):
        R, S = PAIRS[s["pair"]]
        cip, sip = (10, 1, (si >> 8) & 255, si & 255), (10, 2, 0, 1)
        cp, sp = 30000 + si % 30000, 80
        ic, is_ = s["isn"]["c"], s["isn"]["s"]
        syn_data = R[:s["pieces"]["c"][0][1]] if s["tfo"] else b""
        frames = [frame(cip, sip, cp, sp, ic, 0, 0x02, syn_data), frame(sip, cip, sp, cp, is_, (ic + 1) % M32, 0x12, b"")]
        for oi, (d, k) in enumerate(s["order"]):
            if s["tfo"] and oi == 0:
                continue                       # ("c", 0) is the SYN above
            off, ln = s["pieces"][d][k]
            # every third connection is closed by the sender of its last-arriving segment in that very segment (FIN|PSH|ACK: a server
            # that answers and closes, a client that half-closes with its request): the data it carries is analysed like any other
            fl = 0x19 if (si % 3 == 0 and oi == len(s["order"]) - 1) else 0x18
            if ln == 0:
                fl = 0x11                      # a bare FIN|ACK
            if d == "c":
                frames.append(frame(cip, sip, cp, sp, (ic + 1 + off) % M32, (is_ + 1) % M32, fl, R[off:off + ln]))
            else:
                frames.append(frame(sip, cip, sp, cp, (is_ + 1 + off) % M32, (ic + 1) % M32, fl, S[off:off + ln]))
        lines.append({"id": si, "op": "packets", "frames": frames})
    vlib.write_ndjson(vec, lines)
    out = os.path.join(wd, "scen.out")
    vlib.run_hv("http", vec, out)
    trace = os.path.join(wd, "trace.ndjson")
    rows = {}
    n_seg = n_rep = 0
    with open(trace, "w") as f:
        for o in vlib.read_ndjson(out):
            s = scen[o["id"]]
            R, S = PAIRS[s["pair"]]
            outs = []
            for (d, k), fr in zip(s["order"], ([o["out"][0]] + o["out"][2:]) if s["tfo"] else o["out"][2:]):
                n_seg += 1
                if fr["r"] != "ok":
                    outs.append("panic" if fr["r"] == "panic" else "none")
                    continue
                mine, other = (fr["req"], fr["resp"]) if d == "c" else (fr["resp"], fr["req"])
                if other is not None:
                    outs.append("wrongdir")
                elif mine is None:
                    outs.append("none")
                else:
                    n_rep += 1
                    dg = hashlib.sha1(json.dumps(mine, sort_keys=True).encode()).hexdigest()
                    outs.append("ok" if dg == base[2 * s["pair"] + (0 if d == "c" else 1)] else "garbled")
            conn = {"hlen": {"c": len(head_only(R)), "s": len(head_only(S))},
                    "wrap": {"c": (M32 - (s["isn"]["c"] + 1)) if s["isn"]["c"] + 1 + len(R) > M32 else -1,
                             "s": (M32 - (s["isn"]["s"] + 1)) if s["isn"]["s"] + 1 + len(S) > M32 else -1}}
            segs = [{"dir": d, "off": s["pieces"][d][k][0], "len": s["pieces"][d][k][1]} for d, k in s["order"]]
            rows[o["id"]] = {"conn": conn, "segs": segs, "out": outs, "isn": s["isn"]}
            f.write(json.dumps({"id": o["id"], "conn": conn, "segs": segs, "out": outs}) + "\n")
    r2 = vlib.tlc("TV_C09", pid=PID, workers=8, env={"TRACE": trace}, timeout=3000, heap="10g")

    if tier == "thorough":
        def mut(rows):
            # a connection without sequence wrap: the report of the segment that completes a head is withheld
            # (moving it to an earlier segment instead would read as the recorded deviation D09_no_contiguity, not as a rejection)
            for r0 in rows:
                if r0["conn"]["wrap"]["c"] != -1 or r0["conn"]["wrap"]["s"] != -1 or "ok" not in r0["out"]:
                    continue
                r_ = json.loads(json.dumps(r0))
                r_["out"][r_["out"].index("ok")] = "none"
                return rows[:40] + [r_], "the report of the segment that completes a message head is withheld"
            return rows[:1], "no suitable row"
        v.binding.append(vlib.binding_demo("TV_C09", trace, mut, PID, workers=4, timeout=900, heap="4g"))
    for b in r2.lines.get("BAD", []):
        row = rows[b["id"]]
        v.violation({"pair": scen[b["id"]]["pair"], "initial_sequence_numbers": row["isn"], "connection": row["conn"], "segments_in_arrival_order": row["segs"],
                     "expected_per_segment": b["want"], "observed_per_segment": b["got"]})
    for kk in r2.lines.get("KNOWN", []):
        if kk["dev"] in K:
            v.known_hit(kk["dev"], WHAT[kk["dev"]])
        else:
            row = rows[kk["id"]]
            v.violation({"initial_sequence_numbers": row["isn"], "connection": row["conn"], "segments_in_arrival_order": row["segs"], "observed_per_segment": row["out"],
                         "matches_deviation": kk["dev"]})
    return v.finish("model_checking", {
        "states": rA.distinct + r2.distinct, "transitions": rA.generated + r2.generated,
        "traces_validated_against_impl": len(scen), "evaluations": n_seg, "distinct_nontrivial": n_rep,
        "rule": "3 request/response pairs x every %s-th cut position x initial sequence numbers {small, 2^31 boundary, 2^32-1, wrap inside the head, wrap inside the stream, just before wrap} x arrival orders "
                "(in order, swapped, seeded permutations with both directions interleaved), plus connections with a hole in the request head; non-trivial = segments on which a message was reported" % ("" if tier == "thorough" else "3rd"),
        "samples": [rows[i] for i in (0, len(scen) // 2)], "exhaustive": False, "model_states": rA.distinct,
    }, ["connections are opened by SYN and SYN+ACK; segments partition the stream (no overlaps or retransmissions)", "the one-shot parse of the whole message is the reference for `identical` (judged by C05)",
        "HTTP/1.x messages; HTTP/2 streams are exercised by C16/C17"])


def replay(path, v):
    return run("quick", v)
