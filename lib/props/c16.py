"""C16 — HTTP/2 requests and responses are decoded as RFC 7540/7541 define them.

B  MC_C16 (Hpack.tla encoder + Http2.tla framing + Http1.tla's p0f rules): TLC enumerates header lists under every HPACK
   representation choice (indexed, literal with/without/never indexing, name by index or literal, Huffman or plain, dynamic
   table references, size updates), framings (PADDED with pad 0/1/7/255, PRIORITY, every CONTINUATION cut of the block, double
   cuts, END_STREAM or not), preceding/following control frames, responses, value shapes; renders each to bytes and assigns the
   report; HttpProcessors::parse_request / parse_response must return exactly that."""
import json, os
import vlib

PID = "C16"
WHAT = {
    "D16_raw_payload": "the HEADERS payload is handed to HPACK as is: padding, the priority fields and CONTINUATION fragments are not handled, so such a request/response is not reported (or reported wrongly)",
}


def norm_headers(hs):
    return [{"name": h["name"], "value": h["value"] or ""} for h in hs]


def norm_obs(o):
    o = json.loads(json.dumps(o))
    for h in o["horder"] + o["habsent"]:
        if h["val"] == [""]:
            h["val"] = []
    return o


def cookie_pairs(vals):
    out = []
    for v in vals:
        for part in v.split(";"):
            part = part.strip()
            if not part:
                continue
            if "=" in part:
                n, x = part.split("=", 1)
                out.append({"n": n.strip(), "v": [x.strip()]})
            else:
                out.append({"n": part, "v": []})
    return out


def diff(e, isreq, got):
    bad = []
    if isreq:
        if [got["method"]] != e["method"]:
            bad.append("method")
        if [got["uri"]] != e["target"]:
            bad.append("path")
        if got["cookies"] != cookie_pairs(e["cookievals"]):
            bad.append("cookies")
        if ([got["referer"]] if got["referer"] is not None else []) != e["referer"]:
            bad.append("referer")
        if ([got["ua"]] if got["ua"] is not None else []) != e["ua"]:
            bad.append("user_agent")
        if ([got["lang"]] if got["lang"] is not None else []) != e["lang"]:
            bad.append("lang")
    else:
        if [str(got["status"])] != e["status"]:
            bad.append("status")
    if norm_headers(got["headers"]) != norm_headers(e["headers"]):
        bad.append("headers")
    if norm_obs(got["obs"]) != norm_obs(e["obs"]):
        bad.append("p0f observation")
    elif not any(h["value"] == "" for h in e["headers"]) and got["text"] != e["text"]:
        bad.append("p0f text")
    return bad


def run(tier, v):
    wd = vlib.workdir(PID)
    vlib.build_harness()
    K = set(vlib.known_devs(PID))
    vec = os.path.join(wd, "vectors.ndjson")
    exp = {}
    got_ = []
    r = vlib.tlc("MC_C16", pid=PID, workers=8, tag_sink=lambda tag, o: got_.append(o), timeout=3000, heap="10g", coverage=False)
    got_.sort(key=lambda o: (o["note"], bytes(o["bytes"])))           # TLC's workers print in no fixed order: sampling must not depend on it
    with open(vec, "w") as f:
        for i, o in enumerate(got_):
            exp[i] = o
            f.write(json.dumps({"id": i, "op": "parse", "kind": "req" if o["isreq"] else "resp", "datas": [bytes(o["bytes"]).hex()]}) + "\n")
    out = os.path.join(wd, "observed.ndjson")
    vlib.run_hv("http", vec, out)
    n = 0
    notes = {}
    samples = []
    for o in vlib.read_ndjson(out):
        e = exp[o["id"]]
        n += 1
        notes[e["note"]] = notes.get(e["note"], 0) + 1
        res = o["out"][0]
        framed = e["note"] in ("framing", "continuation", "continuation2") or (e["note"] == "resp")
        ctx = {"family": e["note"], "kind": "request" if e["isreq"] else "response", "bytes": bytes(e["bytes"]).hex(), "expected": e["exp"]}
        if res["r"] == "panic":
            v.violation(dict(ctx, observed="panic: " + res["e"]))
            continue
        bad = ["not reported"] if res["r"] != "some" else diff(e["exp"], e["isreq"], res["v"])
        if not bad:
            if len(samples) < 3 and n % 401 == 1:
                samples.append({"family": e["note"], "bytes": bytes(e["bytes"]).hex()[:200] + "...", "p0f_observation": e["exp"]["text"]})
            continue
        if framed and "D16_raw_payload" in K and uses_framing(e["bytes"], e["isreq"]):
            v.known_hit("D16_raw_payload", WHAT["D16_raw_payload"])
            continue
        v.violation(dict(ctx, differences=bad, observed=res.get("v", res["r"])))
    # ---- one processor for many connections: the parser objects are meant to be reused (one per analyzer / worker); every connection
    # start, in a seeded order, through ONE HttpProcessors instance -- each begins with a fresh HPACK context, whatever the previous
    # call (of either kind) left behind: table-size updates, inserted entries, failed blocks
    import random
    order = sorted(exp, key=lambda i: bytes(exp[i]["bytes"]))        # (TLC's workers print in no fixed order)
    random.Random(vlib.seed()).shuffle(order)
    if tier != "thorough":
        order = [i for i in order if exp[i]["note"] in ("dyn", "dynsettings", "special", "prefix", "framing") or i % 4 == 0]
    # and, deliberately adjacent: every connection start that leaves a changed table limit or a non-empty table, followed by every
    # response that relies on its own dynamic table
    leaves = sorted((i for i in exp if exp[i]["note"] in ("dyn", "dynsettings")), key=lambda i: bytes(exp[i]["bytes"]))
    needs = sorted((i for i in exp if exp[i]["note"] == "respdyn"), key=lambda i: bytes(exp[i]["bytes"]))
    for a in leaves:
        for b in needs:
            order += [a, b]
    svec = os.path.join(wd, "shared.ndjson")
    vlib.write_ndjson(svec, [{"id": i, "op": "parse", "shared": True, "kind": "req" if exp[i]["isreq"] else "resp", "datas": [bytes(exp[i]["bytes"]).hex()]} for i in order])
    sout = os.path.join(wd, "shared.out")
    vlib.run_hv("http", svec, sout)
    prev = None
    for o in vlib.read_ndjson(sout):
        e = exp[o["id"]]
        n += 1
        res = o["out"][0]
        bad = ["panic: " + res["e"]] if res["r"] == "panic" else ["not reported"] if res["r"] != "some" else diff(e["exp"], e["isreq"], res["v"])
        if bad:
            v.violation({"family": e["note"], "kind": "request" if e["isreq"] else "response", "bytes": bytes(e["bytes"]).hex()[:4000], "via": "a processor that has handled other connections before",
                         "the_call_before": None if prev is None else {"family": exp[prev]["note"], "kind": "request" if exp[prev]["isreq"] else "response", "bytes": bytes(exp[prev]["bytes"]).hex()[:2000]},
                         "differences": bad, "expected": e["exp"]})
        prev = o["id"]
    # ---- the same connection starts as TCP connections through the OUTPUT layer of the crate (process_ipv4_packet: packet parser, flow
    # table, HTTP/2 processor, create_observable_package, matcher): the request / response handed to the caller there is the same
    from props import c10
    cvec = os.path.join(wd, "conns.ndjson")
    conns, cmeta = [], []
    for i, e in exp.items():
        if tier != "thorough" and e["note"] in ("rep", "continuation", "values", "dynsettings") and i % 3:
            continue
        data = bytes(e["bytes"])
        if len(data) > 60000:
            continue
        cip, sip, cp = (10, 6, 0, 1), (10, 6, 0, 2), 30000 + (i % 30000)
        syn = c10.frame(cip, sip, cp, 80, 100, 0, 0x02, ipid=1)
        seg = c10.frame(cip, sip, cp, 80, 101, 1, 0x18, data, ipid=2) if e["isreq"] else c10.frame(sip, cip, 80, cp, 1, 101, 0x18, data, ipid=2)
        conns.append([syn.hex(), seg.hex()])
        cmeta.append(i)
    vlib.write_ndjson(cvec, [{"id": 0, "op": "conns", "conns": conns}])
    cout = os.path.join(wd, "conns.out")
    vlib.run_hv("http", cvec, cout)
    n_out = 0
    for rows_, i in zip(next(vlib.read_ndjson(cout))["out"], cmeta):
        e = exp[i]
        n_out += 1
        last = rows_[-1]
        ctx = {"family": e["note"], "kind": "request" if e["isreq"] else "response", "bytes": bytes(e["bytes"]).hex()[:4000], "via": "process_ipv4_packet (one segment after the SYN)"}
        if last["r"] == "panic":
            v.violation(dict(ctx, observed="panic: " + last["e"]))
            continue
        rep = last.get("req" if e["isreq"] else "resp") if last["r"] == "ok" else None
        if rep is None:
            v.violation(dict(ctx, observed="not reported (%s)" % last["r"], expected=e["exp"]))
            continue
        bad = diff(e["exp"], e["isreq"], rep["v"])
        if bad:
            v.violation(dict(ctx, differences=bad, observed=rep["v"], expected=e["exp"]))
    n += n_out
    return v.finish("model_checking", {
        "states": r.distinct, "transitions": r.generated, "traces_validated_against_impl": n,
        "evaluations": n, "distinct_nontrivial": n,
        "rule": "connection starts of MC_C16 by family %s; every one carries a complete header block and must be reported" % notes,
        "samples": samples or [{"note": "none drawn"}], "exhaustive": True,
    }, ["the header list a block denotes is the encoder plan's list (RFC 7541); Hpack.tla is checked against RFC 7541 appendix C examples",
        "an empty header value may be reported as absent or empty", "header names are lower-case; values printable ASCII"])


def uses_framing(bs, isreq):
    """does the first HEADERS frame use PADDED / PRIORITY or lack END_HEADERS? (input class of D16_raw_payload)"""
    p = 24 if isreq else 0
    while p + 9 <= len(bs):
        ln = (bs[p] << 16) | (bs[p + 1] << 8) | bs[p + 2]
        if bs[p + 3] == 1:
            fl = bs[p + 4]
            return bool(fl & 0x28) or not (fl & 0x4)
        p += 9 + ln
    return False


def replay(path, v):
    return run("quick", v)
