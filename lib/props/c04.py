"""C04 — JA4 fingerprints equal the FoxIO specification for every ClientHello.

A  MC_C04 (Ja4.tla): laws on the definition — sorted parts invariant under all 24x24 permutations and under GREASE
   insertion, original-order parts follow the bytes, declared record length equals the rendered one.
B  each enumerated hello is rendered to bytes by Ja4!Wire with the JA4 parts the specification assigns
   (a, b, c sorted and original; version; SNI; ALPN; GREASE-free lists); the real parse_tls_client_hello +
   generate_ja4 / generate_ja4_original, and the packet-level TLS analyzer on a one-segment connection, must agree.
   SHA-256 is applied by this driver to the strings the specification yields (H = first 12 hex; 000000000000 for an empty list)."""
import hashlib, json, os
import vlib

PID = "C04"
WHAT = {
    "D04_version_presence": "the version part is `13` whenever a supported_versions extension is present, whatever it lists",
    "D04_unknown_12": "an unknown legacy version is reported as `12` instead of `00`",
    "D04_empty_hash": "an empty extension (or cipher) list is hashed as SHA-256(\"\") = e3b0c44298fc instead of 000000000000",
}
GREASE = {0x0a0a + 0x1010 * i for i in range(16)}


def H(s):
    return "000000000000" if s == "" else hashlib.sha256(s.encode()).hexdigest()[:12]


def H_dev(s):
    return hashlib.sha256(s.encode()).hexdigest()[:12]


def nog(xs):
    return [x for x in xs if x not in GREASE]


def expected_strings(e, h):
    return {
        "ja4": {"a": e["a"], "b": e["b"], "c": e["c"], "full": "%s_%s_%s" % (e["a"], h(e["b"]), h(e["c"])), "raw": "%s_%s_%s" % (e["a"], e["b"], e["c"])},
        "ja4o": {"a": e["a"], "b": e["bo"], "c": e["co"], "full": "%s_%s_%s" % (e["a"], h(e["bo"]), h(e["co"])), "raw": "%s_%s_%s" % (e["a"], e["bo"], e["co"])},
    }


def mismatch(e, sig, h):
    """list of differing fields between the specification's result e and the reported signature"""
    bad = []
    want = expected_strings(e, h)
    for v in ("ja4", "ja4o"):
        for f in ("a", "b", "c", "full", "raw"):
            if sig[v][f] != want[v][f]:
                bad.append("%s.%s: %r, specified %r" % (v, f, sig[v][f], want[v][f]))
    if sig["ver"] != e["ver"]:
        bad.append("version %r, specified %r" % (sig["ver"], e["ver"]))
    if ([sig["sni"]] if sig["sni"] is not None else []) != e["sni"]:
        bad.append("sni %r, specified %r" % (sig["sni"], e["sni"]))
    if ([sig["alpn"]] if sig["alpn"] is not None else []) != e["alpn"]:
        bad.append("alpn %r, specified %r" % (sig["alpn"], e["alpn"]))
    for f in ("ciphers", "exts", "sigalgs", "groups"):
        if nog(sig[f]) != e[f]:
            bad.append("%s %r, specified %r" % (f, sig[f], e[f]))
    return bad


def frame_for(payload):
    """one-segment TCP/IPv4/Ethernet frame carrying payload (PSH+ACK, port 443)"""
    tcp = bytes([0x9c, 0x40, 0x01, 0xbb, 0, 0, 0, 1, 0, 0, 0, 1, 0x50, 0x18, 0xff, 0xff, 0, 0, 0, 0]) + bytes(payload)
    total = 20 + len(tcp)
    ip = bytes([0x45, 0, total >> 8, total & 255, 0x12, 0x34, 0x40, 0, 64, 6, 0, 0, 10, 0, 0, 1, 10, 0, 0, 2])
    eth = bytes([2, 0, 0, 0, 0, 2, 2, 0, 0, 0, 0, 1, 8, 0])
    return list(eth + ip + tcp)


def run(tier, v):
    wd = vlib.workdir(PID)
    vlib.build_harness()
    K = set(vlib.known_devs(PID))
    fams = ["ver", "presence", "perm", "grease", "sizes", "big", "misc", "embed", "alpn", "lookalike", "recver", "sni"]
    n = n_nontriv = states = trans = 0
    samples = []
    for fam in fams:
        vec = os.path.join(wd, "vec-%s.ndjson" % fam)
        exp = {}
        with open(vec, "w") as f:
            def sink(tag, o):
                i = len(exp)
                exp[i] = o
                f.write(json.dumps({"id": 3 * i, "op": "hello", "bytes": o["bytes"]}) + "\n")
                f.write(json.dumps({"id": 3 * i + 1, "op": "packets", "frames": [frame_for(o["bytes"])]}) + "\n")
                f.write(json.dumps({"id": 3 * i + 2, "op": "stateless", "frames": [frame_for(o["bytes"])]}) + "\n")
            r = vlib.tlc("MC_C04", pid=PID, workers=8, tag_sink=sink, env={"VERIF_FAM": fam}, timeout=1800)
        if r.inv_violated:
            raise vlib.ToolError("Ja4.tla violates one of its laws in family %s" % fam)
        states += r.distinct
        trans += r.generated
        out = os.path.join(wd, "obs-%s.ndjson" % fam)
        vlib.run_hv("tls", vec, out)
        for o in vlib.read_ndjson(out):
            e = exp[o["id"] // 3]
            via = ("parse_tls_client_hello", "packet", "one-packet front end (process_tls_ipv4)")[o["id"] % 3]
            n += 1
            if via != "parse_tls_client_hello":
                po = o["out"][0]
                sig = po["out"]["sig"] if po["r"] == "some" else None
                if sig is None:
                    v.violation({"family": fam, "via": via, "hello": bytes(e["bytes"]).hex(), "expected": e["exp"], "observed": po})
                    continue
            else:
                if o["r"] != "some":
                    v.violation({"family": fam, "via": via, "hello": bytes(e["bytes"]).hex(), "expected": e["exp"], "observed": o})
                    continue
                sig = o["sig"]
            bad = mismatch(e["exp"], sig, H)
            if via == "packet" and not bad:
                # the rendered report the caller can print: every field line carries the full string (nothing cut, nothing else)
                want = expected_strings(e["exp"], H)
                rep = dict((x.split(":", 1)[0].strip(), x.split(":", 1)[1].strip()) for x in po["out"]["line"].split("\n")[1:] if ":" in x)
                for lab, val in (("SNI", (e["exp"]["sni"] or ["none"])[0]), ("Version", "TLS " + e["exp"]["ver"]), ("JA4", want["ja4"]["full"]), ("JA4_r", want["ja4"]["raw"]),
                                 ("JA4_o", want["ja4o"]["full"]), ("JA4_or", want["ja4o"]["raw"])):
                    if rep.get(lab) != val:
                        bad.append("report line `%s:` %r, specified %r" % (lab, (rep.get(lab) or "")[:80] + ("..." if len(rep.get(lab) or "") > 80 else ""), val[:80] + ("..." if len(val) > 80 else "")))
            n_nontriv += 1
            if not bad:
                if len(samples) < 3 and n % 131 == 1:
                    samples.append({"family": fam, "hello": bytes(e["bytes"]).hex()[:160] + "...", "ja4": sig["ja4"]["full"], "ja4_r": sig["ja4"]["raw"], "ja4_ro": sig["ja4o"]["raw"]})
                continue
            # recorded deviations: version clauses (from TLC) and the empty-list hash rule (driver side)
            hit = None
            for hv, hd in ((H, set()), (H_dev, {"D04_empty_hash"})):
                if hd and not mismatch(e["exp"], sig, hv):
                    hit = hd
                    break
                for a in sorted(e["alts"], key=lambda a: len(a["devs"])):
                    if not mismatch(a["exp"], sig, hv):
                        hit = set(a["devs"]) | hd
                        break
                if hit:
                    break
            if hit and hit <= K:
                for d in hit:
                    v.known_hit(d, WHAT[d])
                continue
            v.violation({"family": fam, "via": via, "hello": bytes(e["bytes"]).hex(), "differences": bad, "matches_deviations": sorted(hit) if hit else None})
    return v.finish("model_checking", {
        "states": states, "transitions": trans, "traces_validated_against_impl": n,
        "evaluations": n, "distinct_nontrivial": n_nontriv // 3,
        "rule": "hellos of MC_C04 (version table 8 legacy codes x 10 supported_versions lists; presence matrix of SNI/ALPN/groups/signature_algorithms/supported_versions; all 24x24 permutations of 4 ciphers and 4 extensions; "
                "GREASE placements; list sizes 1/98/99/100/130; session ids, compression lists, unknown extension bodies), each through parse_tls_client_hello and through the packet-level analyzer; non-trivial = distinct hellos that yield a signature",
        "samples": samples or [{"note": "none drawn"}], "exhaustive": True,
    }, ["SHA-256 is instantiated by Python hashlib on the strings Ja4.tla yields", "ALPN values have alphanumeric first/last characters and length >= 2; SNI host names are ASCII",
        "reported list fields are compared after removing GREASE values"])


def replay(path, v):
    return run("quick", v)
