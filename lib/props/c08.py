"""C08 — TLS ClientHello reassembly is segmentation-invariant and reports exactly once.

A  MC_C08 (TlsReasm.tla): every ordered partition of abstract client streams (hello alone / + tail / + following handshake
   record / after other records) explored by TLC with the invariants exactly-once, on the completing segment, nothing before,
   nothing for other records.
C  real ClientHello records (from C04's generator) are cut at every position (all 2-partitions; all 3-partitions of the
   shortest ones; seeded k-partitions with 1-byte pieces; with tails, following records, two connections interleaved) and
   fed to TlsClientHelloReader::add_bytes and to the packet-level analyzer; each connection's recorded outcome
   (which segment reported, and whether the result equals the one-shot result) is validated by TLC against TlsReasm (TV_C08)."""
import hashlib, json, os, random
import vlib

PID = "C08"


def tcp_frame(payload, sport=40000, dport=443, src=(10, 0, 0, 1), dst=(10, 0, 0, 2), seq=1, ipopt=b"", dmac=(2, 0, 0, 0, 0, 2)):
    tcp = bytes([sport >> 8, sport & 255, dport >> 8, dport & 255, (seq >> 24) & 255, (seq >> 16) & 255, (seq >> 8) & 255, seq & 255,
                 0, 0, 0, 1, 0x50, 0x18, 0xff, 0xff, 0, 0, 0, 0]) + bytes(payload)
    total = 20 + len(ipopt) + len(tcp)
    ip = bytes([0x40 | (5 + len(ipopt) // 4), 0, total >> 8, total & 255, 0x12, 0x34, 0x40, 0, 64, 6, 0, 0]) + bytes(src) + bytes(dst) + ipopt
    eth = bytes(dmac) + bytes([2, 0, 0, 0, 0, 1, 8, 0])
    f = eth + ip + tcp
    # what follows the IP datagram in a captured frame is link-layer trailer, not TCP payload: every other source port pads its short
    # frames to the 60-octet Ethernet minimum (as frames received from the wire are), every third appends a 4-octet frame check sequence
    if sport % 2 == 1 and len(f) < 60:
        f += bytes(60 - len(f))
    if sport % 3 == 0:
        f += b"\xde\xad\xbe\xef"
    return f.hex()


SERVER_HELLO = bytes([0x16, 3, 3, 0, 42, 2, 0, 0, 38, 3, 3]) + bytes(range(32)) + bytes([0, 0x13, 0x01, 0])
APPDATA = bytes([0x17, 3, 3, 0, 9]) + bytes([0xaa] * 9)


def partitions(rng, n, first_min, count, kmax=6):
    out = set()
    tries = 0
    while len(out) < count and tries < count * 20:
        tries += 1
        k = rng.randint(2, kmax)
        cuts = sorted(rng.sample(range(1, n), min(k - 1, n - 1)))
        if rng.random() < 0.3 and n > first_min + 3:
            cuts = sorted(set(cuts + [n - 1]))           # a one-byte last segment
        segs = [b - a for a, b in zip([0] + cuts, cuts + [n])]
        if segs[0] >= first_min:
            out.add(tuple(segs))
    return [list(s) for s in out]


def run(tier, v):
    wd = vlib.workdir(PID)
    vlib.build_harness()
    K = set(vlib.known_devs(PID))
    rng = random.Random(vlib.seed())
    rA = vlib.tlc("MC_C08", pid=PID, workers=8, timeout=1800)
    if rA.inv_violated:
        raise vlib.ToolError("TlsReasm.tla violates its invariants (%s)" % rA.inv_violated)
    vlib.require_no_zero_actions(rA)
    # ---- hellos from C04's generator
    hellos = []
    big = []
    vlib.tlc("MC_C04", pid=PID, workers=8, tag_sink=lambda tag, o: big.append(bytes(o["bytes"])), env={"VERIF_FAM": "big"}, timeout=1800, coverage=False)
    for fam in ("presence", "misc", "sizes") if tier == "thorough" else ("presence", "misc"):
        def sink(tag, o):
            hellos.append(bytes(o["bytes"]))
        vlib.tlc("MC_C04", pid=PID, workers=8, tag_sink=sink, env={"VERIF_FAM": fam}, timeout=1800, coverage=False)
    hellos = sorted(set(hellos), key=lambda b: (len(b), b))
    if tier != "thorough":
        hellos = hellos[:: max(1, len(hellos) // 24)]
    embed = []
    vlib.tlc("MC_C04", pid=PID, workers=8, tag_sink=lambda tag, o: embed.append(bytes(o["bytes"])), env={"VERIF_FAM": "embed"}, timeout=1800, coverage=False)
    if len(set(embed)) < 6:
        raise vlib.ToolError("MC_C04 embed family incomplete")
    hellos += sorted(set(embed))          # opaque fields that look like records: always all of them
    big = sorted(set(big), key=len)
    if tier != "thorough":
        big = big[::2]
    nbig0 = len(hellos)
    hellos += big                          # records far above an Ethernet MTU (cut positions sampled, see below)
    recver = []
    vlib.tlc("MC_C04", pid=PID, workers=8, tag_sink=lambda tag, o: recver.append(bytes(o["bytes"])), env={"VERIF_FAM": "recver"}, timeout=1800, coverage=False)
    hellos += sorted(set(recver))[:: (1 if tier == "thorough" else 3)]       # every record-layer version 3.0 .. 3.4
    req = os.path.join(wd, "base.req")
    vlib.write_ndjson(req, [{"id": i, "op": "hello", "bytes": h.hex()} for i, h in enumerate(hellos)])
    bout = os.path.join(wd, "base.out")
    vlib.run_hv("tls", req, bout)
    base = {}
    for o in vlib.read_ndjson(bout):
        if o["r"] != "some":
            raise vlib.ToolError("generated hello %d is not parsed one-shot (C04 territory): %s" % (o["id"], o))
        base[o["id"]] = hashlib.sha1(json.dumps(o["sig"], sort_keys=True).encode()).hexdigest()
    # ---- scenarios
    scen = []   # dict(stream=[bytes], recs=[..], tail=n, segs=[..], reader=bool, hello=index)

    def add(hi, recs_bytes, kinds, tail, segs, reader):
        scen.append({"hello": hi, "data": b"".join(recs_bytes) + tail, "recs": [{"n": len(b), "kind": k} for b, k in zip(recs_bytes, kinds)],
                     "tail": len(tail), "segs": segs, "reader": reader})
    for hi, h in enumerate(hellos):
        n = len(h)
        for reader in (False, True):
            fm = 1 if reader else 5
            cuts = range(fm, n)
            if n > 1000:
                # big records: the cut positions around the usual segment sizes, both ends, and a seeded sample
                cuts = sorted({c for c in [fm, fm + 1, 536, 1199, 1200, 1379, 1380, 1399, 1400, 1439, 1440, 1441, 1447, 1448, 1459, 1460, 1461, 1499, 1500, 1501, 1513, 1514, 1515, 8191, 8192, 16383, 16384, n - 2, n - 1]
                               + [rng.randrange(fm, n) for _ in range(12)] if fm <= c < n})
            for c in cuts:
                add(hi, [h], ["hello"], b"", [c, n - c], reader)
            if n > 1000:
                add(hi, [h], ["hello"], b"", [n], reader)          # the whole record in one segment
            for segs in partitions(rng, n, fm, 40 if tier == "thorough" else 8):
                add(hi, [h], ["hello"], b"", segs, reader)
            tail = bytes([0x17, 3, 3, 0, 50]) + bytes(rng.randrange(256) for _ in range(20))
            for segs in partitions(rng, n + len(tail), fm, 30 if tier == "thorough" else 6, kmax=5):
                add(hi, [h], ["hello"], tail, segs, reader)
        for segs in partitions(rng, n + len(SERVER_HELLO), 5, 10 if tier == "thorough" else 3, kmax=4):
            add(hi, [h, SERVER_HELLO], ["hello", "handshake"], b"", segs, False)
        for segs in partitions(rng, len(SERVER_HELLO) + 9, 5, 4, kmax=3):
            add(hi, [SERVER_HELLO], ["handshake"], b"\x17\x03\x03\x00\x04abcd", segs, False)
        for segs in partitions(rng, len(APPDATA) + n, 5, 3, kmax=3):
            add(hi, [APPDATA, h], ["appdata", "hello"], b"", segs, False)
    # all 3-partitions of the shortest hellos
    for hi, h in list(enumerate(hellos))[: (6 if tier == "thorough" else 2)]:
        n = len(h)
        for a in range(5, n - 1):
            for b in range(a + 1, n):
                add(hi, [h], ["hello"], b"", [a, b - a, n - b], False)
    # ---- run: reader scenarios one per line; packet scenarios two connections interleaved per line
    vec = os.path.join(wd, "scen.ndjson")
    pk = [i for i, s in enumerate(scen) if not s["reader"]]
    rng.shuffle(pk)
    lines = []
    for i, s in enumerate(scen):
        if s["reader"]:
            chunks, p = [], 0
            for n in s["segs"]:
                chunks.append(s["data"][p:p + n].hex())
                p += n
            lines.append({"id": "r%d" % i, "op": "reader", "chunks": chunks})
    plan = {}
    for j in range(0, len(pk), 2):
        pair = pk[j:j + 2]
        frames, owner = [], []
        ptr = {i: [0, 0] for i in pair}      # segment index, byte offset
        order = []
        for i in pair:
            order += [i] * len(scen[i]["segs"])
        rng.shuffle(order)                    # order-preserving interleaving of the two connections
        for i in order:
            s = scen[i]
            k, p = ptr[i]
            n = s["segs"][k]
            frames.append(tcp_frame(s["data"][p:p + n], sport=40000 + (i % 20000), src=(10, 0, (i >> 8) & 255, i & 255), seq=1 + p))
            owner.append(i)
            ptr[i] = [k + 1, p + n]
        plan["p%d" % j] = owner
        lines.append({"id": "p%d" % j, "op": "packets", "frames": frames})
    vlib.write_ndjson(vec, lines)
    out = os.path.join(wd, "scen.out")
    vlib.run_hv("tls", vec, out)
    outs = {i: [] for i in range(len(scen))}

    def code(i, r, sig):
        if r == "some":
            d = hashlib.sha1(json.dumps(sig, sort_keys=True).encode()).hexdigest()
            s = scen[i]
            ks = [k + 1 for k, rec in enumerate(s["recs"]) if rec["kind"] == "hello"]
            return ks[0] if ks and d == base[s["hello"]] else -1
        if r in ("none", "err"):
            return 0
        return -2   # panic / noip

    for o in vlib.read_ndjson(out):
        if o["id"].startswith("r"):
            i = int(o["id"][1:])
            outs[i] = [code(i, c["r"], c.get("sig")) for c in o["out"]]
        else:
            for i, fr in zip(plan[o["id"]], o["out"]):
                outs[i].append(code(i, fr["r"], fr["out"]["sig"] if fr["r"] == "some" else None))
    trace = os.path.join(wd, "trace.ndjson")
    vlib.write_ndjson(trace, [{"id": i, "recs": s["recs"], "tail": s["tail"], "segs": s["segs"], "reader": s["reader"], "out": outs[i]} for i, s in enumerate(scen)])
    r2 = vlib.tlc("TV_C08", pid=PID, workers=8, env={"TRACE": trace}, timeout=3000, heap="10g")

    if tier == "thorough":
        def mut(rows):
            k = next(i for i, r_ in enumerate(rows) if len(r_["out"]) > 1 and r_["out"][0] == 0 and any(x > 0 for x in r_["out"]))
            r_ = dict(rows[k])
            o_ = list(r_["out"])
            j = next(i for i, x in enumerate(o_) if x > 0)
            o_[0], o_[j] = o_[j], 0
            r_["out"] = o_
            return rows[:40] + [r_], "one report is moved from the completing segment to the first segment"
        v.binding.append(vlib.binding_demo("TV_C08", trace, mut, PID, workers=4, timeout=900, heap="4g"))
    for b in r2.lines.get("BAD", []):
        s = scen[b["id"]]
        v.violation({"api": "TlsClientHelloReader::add_bytes" if s["reader"] else "packet-level analyzer", "records": s["recs"], "tail": s["tail"], "segments": s["segs"],
                     "stream": s["data"].hex(), "expected_report_per_segment": b["want"], "observed": b["got"],
                     "legend": "0 nothing, k = record k reported identical to the one-shot result, -1 reported something else, -2 panic"})
    for kk in r2.lines.get("KNOWN", []):
        if kk["dev"] in K:
            v.known_hit(kk["dev"], "after a handshake record that is not a ClientHello the connection stays tracked")
        else:
            s = scen[kk["id"]]
            v.violation({"records": s["recs"], "segments": s["segs"], "matches_deviation": kk["dev"], "observed": outs[kk["id"]]})
    # ---- the same divisions through the worker pool, the segments arriving further apart than the workers' idle timeout
    # (the reassembly state of a connection must survive a quiet period; the sequential path above has no timers)
    pool_lines, pmeta = [], []
    fe_lines, fe_meta = [], []
    for hi in range(0, len(hellos), max(1, len(hellos) // (12 if tier == "thorough" else 4))):
        h = hellos[hi]
        for segs in ([len(h) // 2, len(h) - len(h) // 2], [5, 60, len(h) - 65], [len(h) - 1, 1]):
            frames, p = [], 0
            for n in segs:
                # (the source port decides the link-layer trailer, see tcp_frame: let it vary independently of the division)
                # the one-octet tail always travels without a trailer (port = 2 mod 6: a 55-octet frame), the other divisions with all kinds
                sp_ = (41002 + 6 * len(pool_lines)) if segs[-1] == 1 else 41000 + len(pool_lines) + (hi // max(1, len(hellos) // (12 if tier == "thorough" else 4))) % 3
                frames.append(tcp_frame(h[p:p + n], sport=sp_, src=(10, 9, 0, 1 + hi % 200), seq=1 + p))
                p += n
            fe_lines.append({"id": len(fe_lines), "crate": "tls_par", "frames": frames, "matcher": False, "cfg": {}, "cap": 100, "parallel": {"workers": 2, "queue": 64, "batch": 4, "timeout_ms": 5}})
            fe_meta.append((hi, segs))
            fe_lines.append({"id": len(fe_lines), "crate": "tls", "frames": frames, "matcher": False, "cfg": {}, "cap": 100})
            fe_meta.append((hi, segs))
            for nw, bs in ((1, 1), (2, 8)):
                pool_lines.append({"id": len(pool_lines), "crate": "tls", "workers": nw, "queue": 64, "batch": bs, "timeout_ms": 5, "gap_us": 40000, "dispatchers": [frames], "matcher": False, "perturb": 0})
                pmeta.append((hi, segs, nw, bs))
    # several connections at once, their segments interleaved, the pool's connection capacity exactly the number of connections
    # (the configured capacity is what the caller sized for the whole pool: no worker may run out of room below it)
    step = max(1, len(hellos) // 7)
    group = [hi for hi in range(0, len(hellos), step)][:6]
    for gi, (nw, bs) in enumerate(((2, 1), (3, 4), (4, 8), (8, 2))):
        per = []
        for ci, hi in enumerate(group):
            h = hellos[hi]
            cuts = [len(h) // 3, len(h) // 3, len(h) - 2 * (len(h) // 3)]
            fr, p = [], 0
            for k, n in enumerate(cuts):
                # every second connection crosses routers that fill in an Internet Timestamp option (RFC 791): IP options whose content is
                # different in every packet of the connection
                ipopt = bytes([68, 8, 9, 0]) + (0x01020304 * (k + 1) + 977 * ci).to_bytes(4, "big") if ci % 2 == 1 else b""
                # every third connection goes to a station whose (locally administered) address begins 1e:00 -- the first octets of
                # the loopback link-layer header, and 45:00 / 60:00 -- the first octets of an IPv4 / IPv6 header
                dmac = ((2, 0, 0, 0, 0, 2), (0x1e, 0, 0x5e, 0x10, 0x20, 0x30), (0x45, 0, 0, 40, 0, 0))[ci % 3] if gi % 2 == 0 else ((2, 0, 0, 0, 0, 2), (0x60, 0, 0, 0, 0, 20), (0x1e, 0, 0, 0, 0x60, 0))[ci % 3]
                fr.append(tcp_frame(h[p:p + n], sport=43000 + gi * 50 + ci, src=(10, 9, 1 + gi, 1 + ci), seq=1 + p, ipopt=ipopt, dmac=dmac))
                p += n
            per.append(fr)
        frames = [per[ci][k] for k in range(3) for ci in range(len(group))]
        pool_lines.append({"id": len(pool_lines), "crate": "tls", "workers": nw, "queue": 64, "batch": bs, "timeout_ms": 5, "gap_us": 300, "cap": len(group),
                           "dispatchers": [frames], "matcher": False, "perturb": 0})
        pmeta.append((group, "interleaved", nw, bs))
    # a burst: twelve connections, each ClientHello in three segments, dispatched without a pause into ONE worker whose batches hold up
    # to 64 packets -- whatever a worker does with a batch, the segments of a connection are analysed in the order they arrived
    burst = [hi for hi in range(0, len(hellos), max(1, len(hellos) // 13))][:12]
    for rep in range(10 if tier == "thorough" else 5):
        per = []
        for ci, hi in enumerate(burst):
            h = hellos[hi]
            cuts = [len(h) // 3, len(h) // 3, len(h) - 2 * (len(h) // 3)]
            fr, p = [], 0
            for n in cuts:
                fr.append(tcp_frame(h[p:p + n], sport=44000 + rep * 50 + ci, src=(10, 9, 20 + rep, 1 + ci), seq=1 + p))
                p += n
            per.append(fr)
        frames = [per[ci][k] for k in range(3) for ci in range(len(burst))]
        pool_lines.append({"id": len(pool_lines), "crate": "tls", "workers": 1, "queue": 256, "batch": 64, "timeout_ms": 5, "gap_us": 0, "cap": 64,
                           "dispatchers": [frames], "matcher": False, "perturb": 0})
        pmeta.append((burst, "interleaved", 1, 64))
    preq = os.path.join(wd, "pool.req")
    vlib.write_ndjson(preq, pool_lines)
    pout = os.path.join(wd, "pool.out")
    vlib.run_hv_split("pool", preq, pout, parts=8, timeout=3000)
    n_pool = 0
    for o in vlib.read_ndjson(pout):
        if o.get("skipped"):
            continue
        hi, segs, nw, bs = pmeta[o["id"]]
        if "panic" in o:
            v.violation({"api": "worker pool", "segments": segs, "observed": "panic: " + o["panic"]})
            continue
        n_pool += 1
        got = [hashlib.sha1(json.dumps(r_["sig"], sort_keys=True).encode()).hexdigest() for r_ in o["results"]]
        if segs == "interleaved":
            if sorted(got) != sorted(base[x] for x in hi):
                v.violation({"api": "worker pool (tls), %d workers, batch %d, connection capacity %d" % (nw, bs, len(hi)), "connections": len(hi),
                             "segments": "each ClientHello in three segments, the connections interleaved segment by segment",
                             "expected": "one result per connection, identical to its one-segment result", "observed_results": len(got),
                             "connections_without_result": len([x for x in hi if base[x] not in got])})
            continue
        if got != [base[hi]]:
            v.violation({"api": "worker pool (tls), %d worker(s), batch %d, 40 ms between segments, idle timeout 5 ms" % (nw, bs), "hello": hellos[hi].hex(), "segments": segs,
                         "expected": "exactly one result, identical to the one-segment result", "observed_results": len(got), "identical": got == [base[hi]]})
    # ---- and through the capture front ends (analyze_pcap, sequential and parallel)
    freq = os.path.join(wd, "fe.req")
    vlib.write_ndjson(freq, fe_lines)
    fout = os.path.join(wd, "fe.out")
    vlib.run_hv_split("ana", freq, fout, parts=6, timeout=3000, env={"HV_PCAP_DIR": os.path.join(wd, "pcap")})
    for o in vlib.read_ndjson(fout):
        if o.get("skipped"):
            continue
        if o.get("hung"):
            v.violation({"run": str(o["id"]), "observed": "the parallel front end does not finish: 10 s after analyze_pcap returned and the last result arrived, the result channel is still open (a worker has not left)"})
            continue
        hi, segs = fe_meta[o["id"]]
        path_ = "analyze_pcap, " + ("parallel (2 workers)" if fe_lines[o["id"]]["crate"].endswith("_par") else "sequential")
        if "panic" in o:
            v.violation({"api": path_, "segments": segs, "observed": "panic: " + o["panic"]})
            continue
        got = [hashlib.sha1(json.dumps(r_["sig"], sort_keys=True).encode()).hexdigest() for r_ in o["results"]]
        if got != [base[hi]]:
            v.violation({"api": path_, "hello": hellos[hi].hex(), "segments": segs, "expected": "exactly one result, identical to the one-segment result",
                         "observed_results": len(got), "identical": got == [base[hi]]})
    n_rep = sum(1 for o in outs.values() for x in o if x > 0)
    return v.finish("model_checking", {
        "states": rA.distinct + r2.distinct, "transitions": rA.generated + r2.generated,
        "traces_validated_against_impl": len(scen), "evaluations": sum(len(s["segs"]) for s in scen), "distinct_nontrivial": n_rep,
        "rule": "%d ClientHello records x every cut position (2-partitions) for reader and packet path, all 3-partitions of the shortest, seeded k-partitions incl. 1-byte pieces, "
                "tails, following/preceding records; packet scenarios run two connections interleaved on one flow table; non-trivial = connections that reported a ClientHello" % len(hellos),
        "samples": [{"records": scen[i]["recs"], "segments": scen[i]["segs"], "report_per_segment": outs[i]} for i in (0, len(scen) // 2, len(scen) - 1)],
        "exhaustive": False, "model_states": rA.distinct,
    }, ["hellos come from C04's generator (Ja4!Wire)", "the one-shot result (parse_tls_client_hello on the whole record) is the reference for `identical`",
        "first segment holds >= 5 bytes for the packet path, as the property states"])


def replay(path, v):
    return run("quick", v)
