"""X03 (extension, not one of the twenty listed properties) — the life cycle of a worker pool: shutdown.

A  MC_Pool (Pool.tla, worker loop with its loop head, the two outcomes of recv_timeout and the flag test after a timeout):
   with shutdown() allowed at any point of every interleaving of 2 dispatchers and 2 workers, TLC checks
   ShutdownDrains (what was queued when shutdown() was called is analysed before the workers are gone), ExitOnlyAfterShutdown,
   WorkersLeave and Termination (liveness, per-thread fairness) next to the C18 invariants.  With the named deviation
   DX3_timeout_exit (the worker loop as it was: leave at once when a receive timeout finds the flag set) ShutdownDrains must FAIL
   — the model sees the repaired defect.  NoLateQueued must fail as well: a dispatch call that read the flag before shutdown()
   may enqueue after its worker has left (a property the design does not have; recorded, not claimed).
B  TV_PoolLife: real pools of the three crates (1/2/4 workers, batch 1/3, receive timeout 1 ms, schedule perturbed through hook
   H2 including the point after a receive timeout) are driven through dispatch calls, shutdown() after the last call or
   concurrently with the calls, a dispatch call after shutdown, and are then observed until every worker has left; the recorded
   events (dispatch start / end, worker took packet, shutdown called / returned, all workers gone, statistics) are validated by
   TLC against the life-cycle part of Pool.tla."""
import json, os, random
import vlib
from props import c18

PID = "X03"


def run(tier, v):
    wd = vlib.workdir(PID)
    vlib.build_harness()
    rng = random.Random(vlib.seed())
    # ---- A
    r = vlib.tlc("MC_Pool", cfg="MC_Pool_x03", pid=PID, workers=8, env={"VERIF_SCEN": "x03"}, timeout=1800)
    if r.inv_violated:
        raise vlib.ToolError("Pool.tla violates %s with shutdown allowed" % r.inv_violated)
    vlib.require_no_zero_actions(r)
    states, trans = r.distinct, r.generated
    r = vlib.tlc("MC_Pool", cfg="MC_Pool_x03", pid=PID, workers=8, env={"VERIF_SCEN": "x03_dev"}, timeout=1800, coverage=False)
    if r.inv_violated != "ShutdownDrains":
        raise vlib.ToolError("anti-vacuity: with DX3_timeout_exit the pool model should violate ShutdownDrains, got %s" % r.inv_violated)
    r = vlib.tlc("MC_Pool", cfg="MC_Pool_late", pid=PID, workers=8, env={"VERIF_SCEN": "x03_late"}, timeout=1800, coverage=False)
    if r.inv_violated != "NoLateQueued":
        raise vlib.ToolError("the late-queued race of the design is no longer reachable in Pool.tla (got %s): DESIGN.md section 11 needs an update" % r.inv_violated)
    # ---- B
    n = 3000 if tier == "thorough" else 900
    runs, lines = [], []
    ipid = 0
    for i in range(n):
        crate = ("tcp", "http", "tls")[i % 3]
        nw = rng.choice([1, 2, 4])
        nd = rng.choice([1, 1, 2])
        mode = "during" if (nd == 2 or rng.random() < 0.25) else "after"
        disp, ident = [], {}
        for d in range(nd):
            frames = []
            for k in range(rng.choice([1, 2, 6])):
                ipid += 1
                conn = rng.randrange(4)
                a, b = (10, 9, d, conn + 1), (10, 8, 0, 1)
                fr = c18.frame(a, b, 30000 + conn, 80, ipid & 0xffff, flags=0x02 if k == 0 else 0x18, payload=bytes([ipid & 255, ipid >> 8 & 255, ipid >> 16 & 255]) + b"y" * (k % 7))
                tag = c18.fnv(fr)
                ident[tag] = ("src:%d.%d" % (d, conn)) if crate == "tcp" else "conn:%d:%d" % (d, conn)
                frames.append(fr.hex())
            disp.append(frames)
        ipid += 1
        late = c18.frame((10, 9, 9, 9), (10, 8, 0, 1), 31000, 80, ipid & 0xffff, payload=bytes([ipid & 255, ipid >> 8 & 255, ipid >> 16 & 255]))
        ident[c18.fnv(late)] = "late"
        gap = rng.choice([0, 200, 700, 1500])
        runs.append({"crate": crate, "nw": nw, "mode": mode, "dispatchers": nd, "ident": ident})
        lines.append({"id": i, "crate": crate, "workers": nw, "queue": 64, "batch": rng.choice([1, 3]), "timeout_ms": 1, "perturb": vlib.seed() * 100000 + i + 1,
                      "dispatchers": disp, "gap_us": gap, "life": mode, "shutdown_at_us": rng.choice([0, 100, 400, 1200, 2500]), "late": [late.hex()], "matcher": False})
    preq = os.path.join(wd, "life.req")
    vlib.write_ndjson(preq, lines)
    pout = os.path.join(wd, "life.out")
    vlib.run_hv("pool", preq, pout, timeout=3000)
    ptrace = os.path.join(wd, "life.trace.ndjson")
    n_ev = n_runs = n_conc = n_owed = 0
    KIND = {4: "sd", 5: "sr"}
    with open(ptrace, "w") as f:
        for o in vlib.read_ndjson(pout):
            run_ = runs[o["id"]]
            if "panic" in o:
                v.violation({"run": {k: run_[k] for k in ("crate", "nw", "mode")}, "observed": "panic: " + o["panic"]})
                continue
            n_runs += 1
            f.write(json.dumps({"k": "reset", "crate": run_["crate"], "nw": run_["nw"], "run": o["id"]}) + "\n")
            seen_sd = False
            for e in sorted(o["events"], key=lambda e: e["seq"]):
                n_ev += 1
                k = e["kind"]
                if k == 0:
                    f.write(json.dumps({"k": "wp", "p": e["tag"], "w": e["w"], "id": run_["ident"].get(e["tag"], "?"), "run": o["id"]}) + "\n")
                elif k == 1:
                    f.write(json.dumps({"k": "ds", "p": e["tag"], "run": o["id"]}) + "\n")
                    n_conc += seen_sd and run_["ident"].get(e["tag"]) != "late"
                elif k in (2, 3):
                    f.write(json.dumps({"k": "de", "p": e["tag"], "o": "queued" if k == 2 else "dropped", "run": o["id"]}) + "\n")
                    n_owed += (k == 2 and not seen_sd)
                elif k in (4, 5):
                    seen_sd = True
                    f.write(json.dumps({"k": KIND[k], "run": o["id"]}) + "\n")
                elif k == 6:
                    f.write(json.dumps({"k": "end", "exited": bool(o["exited"]), "run": o["id"]}) + "\n")
            f.write(json.dumps({"k": "st", "dispatched": o["stats"]["dispatched"], "dropped": o["stats"]["dropped"], "run": o["id"]}) + "\n")
    r3 = vlib.tlc("TV_PoolLife", pid=PID, workers=1, dfs=True, env={"TRACE": ptrace}, timeout=1800, coverage=False)
    if tier == "thorough":
        def mut(rows):
            # first run in which something was owed: drop the worker event of an owed packet (a queued packet lost at shutdown)
            by = {}
            for r_ in rows:
                by.setdefault(r_["run"], []).append(r_)
            for rr in by.values():
                ks = [x["k"] for x in rr]
                sd = ks.index("sd")
                owed = [x["p"] for x in rr[:sd] if x["k"] == "de" and x["o"] == "queued"]
                if owed:
                    return [x for x in rr if not (x["k"] == "wp" and x["p"] == owed[-1])], "the worker event of a packet that had been reported queued before shutdown() is removed (a queued packet lost at shutdown)"
            return rows[:1], "no run with owed packets"
        v.binding.append(vlib.binding_demo("TV_PoolLife", ptrace, mut, PID, workers=1, dfs=True, timeout=900))
    vd = (r3.lines.get("VERDICT") or [{"ok": False, "unmatched": "no verdict"}])[-1]
    if not vd["ok"]:
        ev = vd.get("unmatched")
        run_ = runs[ev["run"]] if isinstance(ev, dict) and "run" in ev else None
        v.violation({"first_event_the_pool_model_cannot_take": ev, "events_matched": vd.get("matched"),
                     "run": {k: run_[k] for k in ("crate", "nw", "mode", "dispatchers")} if run_ else None, "trace": ptrace,
                     "reading": "end: a packet reported queued before shutdown() was called has not been analysed when the last worker left, or the workers did not leave; "
                                "de: a dispatch call that began after shutdown() returned was queued; wp: a worker took a packet after all workers had left; st: counters"})
    return v.finish("model_checking", {
        "states": states + r3.distinct, "transitions": trans + r3.generated, "traces_validated_against_impl": n_runs, "evaluations": n_ev,
        "distinct_nontrivial": n_owed + n_conc,
        "rule": "model: MC_Pool x03 (2 dispatchers, 2 workers, queue 2, batch 2, shutdown at any point; safety + liveness), x03_dev and x03_late must fail; "
                "%d real life-cycle runs (crate x 1/2/4 workers x batch 1/3 x 1-2 dispatchers, shutdown after / during the calls, 1 ms receive timeout, perturbed), %d events; "
                "non-trivial = packets owed at shutdown (%d) + dispatch calls concurrent with or after shutdown (%d)" % (n_runs, n_ev, n_owed, n_conc),
        "samples": [{"run": {k: runs[0][k] for k in ("crate", "nw", "mode", "dispatchers")}}],
        "exhaustive": False, "pool_model_states": states,
    }, ["extension beyond the listed properties", "`owed` is taken when shutdown() is CALLED (a subset of the model's owed, taken when the flag is set)",
        "queues (64) are larger than a run, so every dropped call is a call refused because of the flag",
        "the result channel disconnecting is taken as `all workers have left`", "the relaxed flag store is visible to later loads (x86-TSO)"])


def replay(path, v):
    return run("quick", v)
