"""X04 (extension, not one of the twenty listed properties) — the capture-file front end: `analyze_pcap` of the four analyzers
follows Capture.tla.

A  MC_X04m: Capture.tla on nine files (clean, big-endian nanoseconds, cut inside data / inside a record header, a record in the
   middle whose fields contradict one another, fraction out of range, record longer than the snapshot length, header only, not
   a capture file): the frames delivered are a prefix that stops at the first unreadable record, and the analysis RETURNS
   (Terminates, weak fairness); with the deviation DX4_retry_unreadable (ask the reader again) Terminates must fail on every
   file with an unreadable record.
B  MC_X04 generates capture files around real frames (byte order x precision x tail x bad record; link types / framings,
   snapshot lengths, time stamps, zone / accuracy, non-capture files); each goes through analyze_pcap of the TCP, HTTP, TLS and
   unified analyzer on a thread of its own.  The analysis must return; it must be refused exactly when the file header is no pcap
   header; what it reports must be what the same analyzer reports for the frames of a prefix of the file's records that
   contains every record before the first unreadable one (CaptureFile!Certain) and at most those wholly in the file."""
import json, os
import vlib

PID = "X04"
SCEN = ("clean", "be_ns", "cut_data", "cut_header", "bad_middle", "frac", "snap", "empty", "nofile")
BAD = ("cut_data", "cut_header", "bad_middle", "frac", "snap")


def frames_input(wd):
    from props import c10
    so = b"\x02\x04\x05\xb4\x04\x02\x08\x0a\x00\x00\x10\x00\x00\x00\x00\x00\x01\x03\x03\x07"
    a, b = (10, 4, 0, 1), (10, 4, 0, 2)
    R = b"GET /x04 HTTP/1.1\r\nHost: x04.example\r\nUser-Agent: x04/1.0\r\nAccept: */*\r\n\r\n"
    S = b"HTTP/1.1 200 OK\r\nServer: x04-srv\r\n\r\nok"
    eth = [c10.frame(a, b, 44000, 80, 100, 0, 0x02, opts=so, ipid=1), c10.frame(b, a, 80, 44000, 500, 101, 0x12, opts=so, ipid=2, ttl=128),
           c10.frame(a, b, 44000, 80, 101, 501, 0x18, R, ipid=3), c10.frame(b, a, 80, 44000, 501, 101 + len(R), 0x18, S, ipid=4, ttl=128),
           c10.frame(a, b, 44001, 443, 1, 1, 0x18, c10.hello("x04.example"), ipid=5)]
    p = os.path.join(wd, "frames.ndjson")
    vlib.write_ndjson(p, [{"eth": [list(f) for f in eth], "raw": [list(c10.relink(f, "raw")) for f in eth], "null": [list(c10.relink(f, "null")) for f in eth]}])
    return p


def capture_bytes(frames, order="<", magic=0xa1b2c3d4):
    """a well-formed classic pcap file holding the frames (little-endian microseconds unless said otherwise)"""
    import struct
    out = struct.pack(order + "IHHiIII", magic, 2, 4, 0, 0, 65535, 1)
    for k, f in enumerate(frames):
        out += struct.pack(order + "IIII", 1700000000 + k, 1000 * k, len(f), len(f)) + f
    return out


def run(tier, v):
    wd = vlib.workdir(PID)
    vlib.build_harness()
    K = set(vlib.known_devs(PID))
    states = trans = 0
    # ---- A
    for sc in SCEN:
        r = vlib.tlc("MC_X04m", pid=PID, workers=1, env={"VERIF_SCEN": sc, "VERIF_DEV": "none"}, timeout=300, coverage=False)
        if r.inv_violated:
            raise vlib.ToolError("Capture.tla violates its own properties on scenario %s" % sc)
        states += r.distinct
        trans += r.generated
        rd = vlib.tlc("MC_X04m", pid=PID, workers=1, env={"VERIF_SCEN": sc, "VERIF_DEV": "DX4_retry_unreadable"}, timeout=300, coverage=False)
        if (rd.inv_violated == "Terminates") != (sc in BAD):
            raise vlib.ToolError("anti-vacuity: with DX4_retry_unreadable Terminates should %s on scenario %s" % ("fail" if sc in BAD else "hold", sc))
    # ---- B
    exp = {}
    r = vlib.tlc("MC_X04", pid=PID, workers=8, env={"FRAMES": frames_input(wd)}, timeout=900, coverage=False, tag_sink=lambda tag, o: exp.__setitem__(o["i"], o) if tag == "REPLAY" else None)
    states += r.distinct
    trans += r.generated
    lines, meta = [], {}
    for i, e in sorted(exp.items()):
        for crate in ("tcp", "http", "tls", "uni"):
            k = len(lines)
            meta[k] = (i, crate, "file", None)
            lines.append({"id": k, "crate": crate, "file": e["file"], "matcher": True, "cfg": {}, "frames": []})
            for n in range(e["certain"], e["inside"] + 1):
                k = len(lines)
                meta[k] = (i, crate, "ref", n)
                lines.append({"id": k, "crate": crate, "frames": [bytes(f).hex() for f in e["frames"][:n]], "matcher": True, "cfg": {}})
    req, out = os.path.join(wd, "x04.req"), os.path.join(wd, "x04.out")
    vlib.write_ndjson(req, lines)
    vlib.run_hv_split("ana", req, out, parts=8, timeout=1800, env={"HV_PCAP_DIR": os.path.join(wd, "pcap")})
    got, refs = {}, {}
    for o in vlib.read_ndjson(out):
        i, crate, kind, n = meta[o["id"]]
        if kind == "file":
            got[(i, crate)] = o
        else:
            refs.setdefault((i, crate), {})[n] = o
    n_eval = n_bad_files = 0
    samples = []
    for (i, crate), o in sorted(got.items()):
        e = exp[i]
        n_eval += 1
        n_bad_files += e["certain"] < len(e["frames"])
        what = {"analyzer": crate, "file": e["x"], "file_octets": len(e["file"]), "records": len(e["frames"]), "records_before_the_first_unreadable_one": e["certain"]}
        if o.get("skipped"):
            continue
        if "panic" in o:
            v.violation(dict(what, observed="panic: " + o["panic"], capture_file=bytes(e["file"]).hex()))
            continue
        if o.get("hung"):
            if "DX4_retry_unreadable" in K and e["certain"] < len(e["frames"]):
                v.known_hit("DX4_retry_unreadable", "analyze_pcap does not return on a capture file with a record that cannot be read")
                continue
            v.violation(dict(what, observed="analyze_pcap has not returned after 5 s (results so far: %d)" % len(o["results"]), capture_file=bytes(e["file"]).hex()))
            continue
        if not e["open_ok"]:
            if o.get("ok") is not False or o["results"]:
                v.violation(dict(what, expected="refused: the file does not begin with a pcap file header", observed={"returned_ok": o.get("ok"), "results": len(o["results"])}))
            continue
        if o.get("ok") is not True:
            v.violation(dict(what, expected="analysed", observed={"returned_ok": o.get("ok"), "error": o.get("ctor_error")}, capture_file=bytes(e["file"]).hex()))
            continue
        ok = [n for n, r_ in refs.get((i, crate), {}).items() if r_.get("results") == o["results"]]
        if not ok:
            v.violation(dict(what, observed_results=o["results"], expected="the results for the first n records, %d <= n <= %d" % (e["certain"], e["inside"]),
                             results_for_those_prefixes={n: r_.get("results") for n, r_ in refs.get((i, crate), {}).items()}, capture_file=bytes(e["file"]).hex()))
        elif len(samples) < 3 and e["certain"] < len(e["frames"]):
            samples.append(dict(what, delivered_records=ok))
    return v.finish("model_checking", {
        "states": states, "transitions": trans, "traces_validated_against_impl": len(got), "evaluations": n_eval, "distinct_nontrivial": n_bad_files,
        "rule": "Capture.tla model-checked on %d files (safety + Terminates; Terminates fails with DX4_retry_unreadable on the %d files that have an unreadable record); %d generated capture files x 4 analyzers "
                "through analyze_pcap on a watchdog thread, compared with the same analyzer on the admissible record prefixes; non-trivial = runs on files with an unreadable record" % (len(SCEN), len(BAD), len(exp)),
        "samples": samples or [{"note": "none drawn"}],
    }, ["extension beyond the listed properties", "the declared link type is not consulted by the analyzers (see D10_raw_ethertype_lookalike): the `link` family checks only that files of every link type are read",
        "which header fields make a record unreadable follows the reader the code uses (snapshot length, original length, fraction range); a more lenient reader is admitted by the prefix rule"])


def replay(path, v):
    return run("quick", v)
