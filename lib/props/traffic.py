"""Seeded generator of complete connections with many independent features, for the RELATIONAL checks (C07 isolation, C10 pool =
sequential, C15 filtering commutes, C18 accounting, C20 unified = union): those compare two runs of the real code on the same
frames, so the frames need no expected values and can be as varied as the header formats allow.  Every feature is drawn
independently per connection (and some per segment), so that cross-field combinations no hand-written family lists are met.

A connection is {"frames": [bytes], "eps": (client "ip|port", server "ip|port"), "ver": 4|6, "style": {...}}; frames are
Ethernet frames (use c10.relink for the other capture framings)."""
import ipaddress

M32 = 1 << 32

MACS = [bytes([2, 0, 0, 0, 0, 2]), bytes([0x1e, 0, 0x5e, 0x10, 0x4a, 1]), bytes([0x1e, 0, 0, 0, 0x60, 0]), bytes([0x45, 0, 0, 40, 0, 0]), bytes([0x60, 0, 0, 0, 0, 20]),
        bytes([0xff] * 6), bytes([0x33, 0x33, 0, 0, 0, 1]), bytes([0, 0, 0, 0, 0, 0])]
V6FORMS = [lambda k: bytes([0x20, 1, 0xd, 0xb8, 0, 0, 0, 0, 0, 0, 0, 0, 0, 0, k >> 8 & 255, k & 255]),
           lambda k: bytes([0] * 10 + [0xff, 0xff, 198, 51, k >> 8 & 255, k & 255]),           # IPv4-mapped
           lambda k: bytes([0] * 12 + [203, 0, k >> 8 & 255, k & 255]),                          # IPv4-compatible
           lambda k: bytes([0xfe, 0x80] + [0] * 12 + [k >> 8 & 255, k & 255]),                   # link-local
           lambda k: bytes([0x20, 2, 192, 0, 2, k & 255] + [0] * 9 + [k >> 8 & 255]),            # 6to4
           lambda k: bytes([0, 0x64, 0xff, 0x9b] + [0] * 8 + [192, 0, k >> 8 & 255, k & 255]),   # NAT64
           lambda k: bytes([0x20, 1, 0xd, 0xb8, 0x08, 0x00] + [0] * 8 + [k >> 8 & 255, k & 255]),  # octets 12..13 of a raw frame read 08 00
           lambda k: bytes([0x20, 1, 0xd, 0xb8, 0x86, 0xdd] + [0] * 8 + [k >> 8 & 255, k & 255])]  # ... read 86 dd
SYNOPTS = [lambda ts: b"\x02\x04\x05\xb4\x04\x02\x08\x0a" + ts.to_bytes(4, "big") + b"\x00\x00\x00\x00\x01\x03\x03\x07",      # mss,sok,ts,nop,ws
           lambda ts: b"\x02\x04\x05\xb4\x01\x03\x03\x08\x01\x01\x04\x02",                                                     # mss,nop,ws,nop,nop,sok
           lambda ts: b"\x02\x04\x02\x18",                                                                                     # mss only
           lambda ts: b"",
           lambda ts: b"\x02\x04\xff\xff\x01\x01\x08\x0a" + ts.to_bytes(4, "big") + b"\x00\x00\x00\x00\x00\x00\x00\x00"]      # mss 65535, ts, eol + padding


def pkt(ver, src, dst, sport, dport, seq, ack, flags, payload=b"", tcpopts=b"", ttl=64, tos=0, ipid=1, fragw=0x4000, ipopts=b"", flow=0,
        dmac=MACS[0], smac=bytes([2, 0, 0, 0, 0, 1]), win=0xffff, trailer=""):
    """one Ethernet frame; src / dst are 4- or 16-byte sequences"""
    doff = 5 + len(tcpopts) // 4
    tcp = bytes([sport >> 8, sport & 255, dport >> 8, dport & 255]) + (seq % M32).to_bytes(4, "big") + (ack % M32).to_bytes(4, "big") + \
        bytes([doff << 4, flags, win >> 8, win & 255, 0, 0, 0, 0]) + tcpopts + payload
    if ver == 4:
        ihl = 5 + len(ipopts) // 4
        total = 4 * ihl + len(tcp)
        ip = bytes([0x40 | ihl, tos, total >> 8, total & 255, ipid >> 8 & 255, ipid & 255, fragw >> 8, fragw & 255, ttl, 6, 0, 0]) + bytes(src) + bytes(dst) + ipopts
        return _trail(bytes(dmac) + bytes(smac) + b"\x08\x00" + ip + tcp, trailer)
    ip = bytes([0x60 | (tos >> 4), ((tos & 15) << 4) | (flow >> 16 & 15), flow >> 8 & 255, flow & 255, len(tcp) >> 8, len(tcp) & 255, 6, ttl]) + bytes(src) + bytes(dst)
    return _trail(bytes(dmac) + bytes(smac) + b"\x86\xdd" + ip + tcp, trailer)


def _trail(frame, trailer):
    """link-layer trailer after the IP datagram: "pad" = zero padding to the 60-octet Ethernet minimum, "fcs" = 4 octets, "both" """
    if trailer in ("pad", "both") and len(frame) < 60:
        frame += bytes(60 - len(frame))
    if trailer in ("fcs", "both"):
        frame += b"\xde\xad\xbe\xef"
    return frame


def ep(addr, port):
    """`ip|port` in the spelling of Rust's Display for IpAddr (RFC 5952; IPv4-mapped addresses as ::ffff:a.b.c.d)"""
    b = bytes(addr)
    if len(b) == 16 and b[:10] == bytes(10) and b[10:12] == b"\xff\xff":
        return "::ffff:%d.%d.%d.%d|%d" % (b[12], b[13], b[14], b[15], port)
    return "%s|%d" % (ipaddress.ip_address(b), port)


def cut(rng, data, maxpieces=4):
    n = rng.randint(1, min(maxpieces, max(1, len(data))))
    if n == 1 or len(data) < 2:
        return [data]
    cuts = sorted(rng.sample(range(1, len(data)), min(n - 1, len(data) - 1)))
    return [data[a:b] for a, b in zip([0] + cuts, cuts + [len(data)])]


def style(rng, c):
    """the per-connection features"""
    ver = 6 if rng.random() < 0.4 else 4
    if ver == 4:
        form = rng.choice(["below", "above", "same", "far", "ethertype4", "ethertype6"])
        # the last two: source addresses whose first octets, at offset 12 of a raw-IP frame, read like the EtherTypes 08 00 / 86 dd
        cip = {"below": (10, 1, c >> 8 & 255, c & 255), "above": (10, 3, c >> 8 & 255, c & 255), "same": (127, 0, c >> 8 & 255, c & 255 or 1), "far": (203, 0, c >> 8 & 255, c & 255),
               "ethertype4": (8, 0, (5, 69, 96)[c % 3], c & 255 or 1), "ethertype6": (134, 221, (5, 69, 96)[c % 3], c & 255 or 1)}[form]
        sip = cip if form == "same" else (10, 2, 0, 1 + c % 3)
    else:
        f = rng.randrange(len(V6FORMS))
        cip = V6FORMS[f](1000 + c)
        sip = cip if rng.random() < 0.1 else V6FORMS[rng.randrange(len(V6FORMS))](7 + c % 3)
    return {"ver": ver, "cip": tuple(cip), "sip": tuple(sip),
            "cport": rng.choice([20000 + c, 1024 + c, 50000 + c, 65535 - c, 1000 - c % 900]),
            "ttl_c": rng.choice([1, 64, 128, 255, 57]), "ttl_s": rng.choice([64, 128, 255, 30]),
            "tos": rng.choice([0, 0, 1, 2, 3, 0x10, 0xb8]), "flow": rng.choice([0, 0, 0xfffff, 0x12345]),
            "fragw": (lambda k: 0x4000) if rng.random() < 0.6 else (lambda k, o=rng.randrange(4): (0x0000, 0x2000, 0x4000, 0x8000, 0xc000)[(k + o) % 5]),
            "ipopts": rng.choice([b"", b"", b"", b"\x01\x01\x01\x01", b"\x01\x01\x01\x01\x01\x01\x01\x00"]) if ver == 4 else b"",
            "dmac": rng.choice(MACS), "smac": rng.choice(MACS), "syn": rng.randrange(len(SYNOPTS)), "tsopt": rng.random() < 0.4,
            "isn_c": rng.choice([rng.randrange(M32), M32 - 3, 0]), "isn_s": rng.choice([rng.randrange(M32), M32 - 1]),
            # extra bits on the handshake segments: ECN setup (SYN|ECE|CWR, SYN|ACK|ECE), PSH, URG
            "trailer": rng.choice(["", "", "pad", "fcs", "both"]),
            "synflags": rng.choice([0x02, 0x02, 0x02, 0xc2, 0x42, 0x0a, 0x22]), "synackflags": rng.choice([0x12, 0x12, 0x12, 0x52, 0x1a, 0x92])}


def connection(rng, c, kind, ipid, maxpieces=4):
    """kind: "tcp" (handshake with options), "http" (handshake, request in pieces, response in pieces), "tls" (ClientHello in pieces).
    ipid: callable returning a fresh IP identification (keeps every frame of a trace unique)"""
    from props import c10
    st = style(rng, c)
    ver, cip, sip = st["ver"], st["cip"], st["sip"]
    sport = {"tcp": rng.choice([80, 22, 8080]), "http": rng.choice([80, 80, 8080, 3128]), "tls": rng.choice([443, 443, 8443, 993])}[kind]
    cp = st["cport"]
    if cip == sip and cp == sport:
        cp += 1
    ic, is_ = st["isn_c"], st["isn_s"]
    k = [0]

    def C(seq, ack, flags, payload=b"", opts=b""):
        k[0] += 1
        return pkt(ver, cip, sip, cp, sport, seq, ack, flags, payload, opts, ttl=st["ttl_c"], tos=st["tos"], ipid=ipid(), fragw=st["fragw"](k[0]), ipopts=st["ipopts"], flow=st["flow"],
                   dmac=st["dmac"], smac=st["smac"], trailer=st["trailer"])

    def S(seq, ack, flags, payload=b"", opts=b""):
        k[0] += 1
        return pkt(ver, sip, cip, sport, cp, seq, ack, flags, payload, opts, ttl=st["ttl_s"], tos=0, ipid=ipid(), fragw=st["fragw"](k[0]), ipopts=b"", flow=0, dmac=st["smac"], smac=st["dmac"], trailer=st["trailer"])
    ts = lambda v, e: (b"\x01\x01\x08\x0a" + (v % M32).to_bytes(4, "big") + (e % M32).to_bytes(4, "big")) if st["tsopt"] else b""
    syno = SYNOPTS[st["syn"]](1000 + c)
    frames = [C(ic, 0, st["synflags"], opts=syno), S(is_, ic + 1, st["synackflags"], opts=syno)]
    if kind == "tcp":
        frames.append(C(ic + 1, is_ + 1, 0x10, opts=ts(1100 + c, 5)))
    elif kind == "http":
        v10 = rng.random() < 0.3
        nl = b"\n" if rng.random() < 0.1 else b"\r\n"
        hdrs = [b"Host: h%d.example" % c, rng.choice([b"User-Agent", b"user-agent", b"USER-AGENT"]) + b": agent-%d/%d.0" % (c, c % 7), b"Accept: */*"]
        if rng.random() < 0.4:
            hdrs.append(b"Cookie: sid=%d; theme=dark" % c)
        if rng.random() < 0.3:
            hdrs.append(b"Accept-Language: en-US,en;q=0.5")
        if rng.random() < 0.3:
            hdrs.insert(0, b"Connection: keep-alive")
        rng.shuffle(hdrs)
        R = nl.join([b"GET /c%d HTTP/%s" % (c, b"1.0" if v10 else b"1.1")] + hdrs) + nl + nl
        body = rng.choice([b"body %d" % c, b"", b"\x00\xff\xfe binary \r\n\r\n tail", b"x" * 300])
        S_ = nl.join([b"HTTP/%s %d %s" % (b"1.0" if v10 else b"1.1", rng.choice([200, 404, 301]), rng.choice([b"OK", b"Not Found", b""])), b"Server: srv-%d" % c, b"Content-Type: text/plain"]
                     + ([b"Date: Mon, 01 Jan 2024 00:00:00 GMT"] if rng.random() < 0.5 else [])) + nl + nl + body
        if rng.random() < 0.2:
            # cleartext HTTP/2 with prior knowledge: preface, SETTINGS, one request HEADERS frame; the server's SETTINGS, HEADERS, DATA
            h2f = lambda t, fl, st, pl: bytes([0, len(pl) >> 8, len(pl) & 255, t, fl, 0, 0, 0, st]) + pl
            ua = b"agent-%d/2" % c
            R = b"PRI * HTTP/2.0\r\n\r\nSM\r\n\r\n" + h2f(4, 0, 0, bytes([0, 3, 0, 0, 0, 100])) + h2f(1, 5, 1, bytes([0x82, 0x86, 0x84, 0x41, 9]) + b"h%04d.ex." % (c % 10000) + bytes([0x0f, 0x2b, len(ua)]) + ua)
            sv = b"srv-%d" % c
            S_ = h2f(4, 0, 0, b"") + h2f(1, 4, 1, bytes([0x88, 0x0f, 0x27, len(sv)]) + sv) + h2f(0, 1, 1, body[:50])
        off = 0
        for piece in cut(rng, R, maxpieces):
            frames.append(C(ic + 1 + off, is_ + 1, 0x18, piece, ts(1100 + c + off, 5)))
            off += len(piece)
        soff = 0
        for piece in cut(rng, S_, min(3, maxpieces)):
            frames.append(S(is_ + 1 + soff, ic + 1 + len(R), 0x18, piece, ts(7000 + c + soff, 1100 + c)))
            soff += len(piece)
        if rng.random() < 0.3:
            frames.append(C(ic + 1 + len(R), is_ + 1 + len(S_), 0x11))              # FIN
    else:
        H = c10.hello("host%d%s.example" % (c, "x" * rng.choice([0, 1, 30, 200])))
        off = 0
        for piece in cut(rng, H, maxpieces):
            frames.append(C(ic + 1 + off, is_ + 1, 0x18, piece, ts(1100 + c + off, 5)))
            off += len(piece)
    return {"frames": frames, "eps": (ep(cip, cp), ep(sip, sport)), "ver": ver,
            "style": {kk: (vv if not callable(vv) else "per-segment") for kk, vv in st.items() if kk not in ("dmac", "smac", "ipopts", "cip", "sip")}}


def endpoints(frame):
    """endpoints of an Ethernet frame built by pkt(): {"sa": {"v", "b"}, "da": ..., "sp", "dp"} in the shape Filter.tla uses"""
    if frame[12:14] == b"\x08\x00":
        ihl = (frame[14] & 15) * 4
        sa, da, t = frame[26:30], frame[30:34], 14 + ihl
        v = 4
    else:
        sa, da, t = frame[22:38], frame[38:54], 54
        v = 6
    return {"sa": {"v": v, "b": list(sa)}, "da": {"v": v, "b": list(da)}, "sp": (frame[t] << 8) | frame[t + 1], "dp": (frame[t + 2] << 8) | frame[t + 3]}


def noise(rng, ipid, n):
    """n frames that belong to no TCP connection the analyzers can follow: UDP and ICMP over IPv4 / IPv6, a later fragment of a TCP
    datagram, frames cut inside the IP or the TCP header, ARP, an unknown EtherType, a few arbitrary bytes.  Sequentially they yield
    nothing (or an error for that packet alone); they must not disturb what comes after them on any path."""
    out = []
    a4, b4 = (10, 9, 8, 7), (10, 9, 8, 6)
    a6, b6 = V6FORMS[0](4000), V6FORMS[0](4001)
    for i in range(n):
        k = rng.randrange(9)
        if k == 0:                                                   # UDP / IPv4
            f = bytearray(pkt(4, a4, b4, 5000 + i, 53, 1, 0, 0x02, b"query", ipid=ipid()))
            f[23] = 17
        elif k == 1:                                                 # ICMP / IPv4
            f = bytearray(pkt(4, a4, b4, 0x0800, 0, 1, 0, 0, b"ping", ipid=ipid()))
            f[23] = 1
        elif k == 2:                                                 # UDP / IPv6
            f = bytearray(pkt(6, a6, b6, 5000 + i, 53, 1, 0, 0x02, b"query"))
            f[20] = 17
        elif k == 3:                                                 # a later fragment (offset 185) of a TCP datagram
            f = bytearray(pkt(4, a4, b4, 80, 40000 + i, 7, 7, 0x18, b"tail of a datagram", ipid=ipid(), fragw=0x00b9))
        elif k == 4:                                                 # cut inside the IPv4 header
            f = bytearray(pkt(4, a4, b4, 40000 + i, 80, 1, 0, 0x02, ipid=ipid())[:14 + rng.choice([1, 10, 19])])
        elif k == 5:                                                 # cut inside the TCP header
            f = bytearray(pkt(rng.choice([4, 6]), a4 if False else (a4 if rng.random() < 0.5 else a4), b4, 40000 + i, 80, 1, 0, 0x02, ipid=ipid()))
            f = f[:len(f) - rng.choice([1, 8, 19])]
        elif k == 6:                                                 # ARP
            f = bytearray(MACS[5] + bytes([2, 0, 0, 0, 0, 1]) + b"\x08\x06" + bytes([0, 1, 8, 0, 6, 4, 0, 1]) + bytes(20))
        elif k == 7:                                                 # unknown EtherType
            f = bytearray(MACS[0] + bytes([2, 0, 0, 0, 0, 1]) + b"\x88\xcc" + bytes(rng.randrange(1, 60)))
        else:
            f = bytearray(rng.randbytes(rng.choice([0, 1, 13, 14, 15, 33])))
        out.append(bytes(f))
    return out


def unreadable(rng, ipid, n):
    """n frames that carry a perfectly good TCP SYN (options, timestamps) or data segment, but behind a link-layer header the
    analyzers do not read: an 802.1Q tag, a QinQ double tag, PPPoE, MPLS, an LLC/SNAP header, the BSD loopback header for AF_INET
    (02 00 00 00).  No analyzer reports anything for them, with or without a filter, sequentially or in a pool."""
    out = []
    for i in range(n):
        v = rng.choice([4, 6])
        a, b = ((10, 66, 0, 1 + i % 200), (10, 66, 1, 1)) if v == 4 else (V6FORMS[0](5000 + i), V6FORMS[0](5999))
        inner = pkt(v, a, b, 46000 + i, rng.choice([80, 443]), 77, 0, 0x02, tcpopts=SYNOPTS[0](900 + i), ipid=ipid())
        ip = inner[14:]
        et = inner[12:14]
        macs = inner[:12]
        k = i % 6
        if k == 0:
            f = macs + b"\x81\x00" + bytes([0, 100]) + et + ip
        elif k == 1:
            f = macs + b"\x88\xa8" + bytes([0, 7]) + b"\x81\x00" + bytes([0, 100]) + et + ip
        elif k == 2:
            f = macs + b"\x88\x64" + bytes([0x11, 0, 0, 1, len(ip) + 2 >> 8, (len(ip) + 2) & 255, 0, 0x21 if v == 4 else 0x57]) + ip
        elif k == 3:
            f = macs + b"\x88\x47" + bytes([0, 1, 1, 64]) + ip
        elif k == 4:
            f = macs + bytes([(len(ip) + 8) >> 8, (len(ip) + 8) & 255]) + bytes([0xaa, 0xaa, 3, 0, 0, 0]) + et + ip
        else:
            f = bytes([2, 0, 0, 0]) + ip if v == 4 else bytes([0x18, 0, 0, 0]) + ip
        out.append(f)
    return out
