"""C17 — Akamai HTTP/2 fingerprints follow the published format, incrementally too.

B  MC_C17 (Akamai.tla over Http2/Hpack): TLC enumerates client connection starts (SETTINGS with boundary ids/values, first
   WINDOW_UPDATE with/without reserved bit, PRIORITY frames, HEADERS with every pseudo-header order and PADDED / PRIORITY /
   CONTINUATION framing, frames in unusual order, no or second SETTINGS), with and without the preface, and assigns the
   fingerprint of every frame prefix; one-shot extraction must return it (hash = first 32 hex of SHA-256, by this driver).
C  every stream is cut at every byte (all 2-partitions) and into seeded k-partitions; the per-chunk returns of
   Http2FingerprintExtractor::add_bytes are validated by TLC against Akamai!Incremental (TV_C17)."""
import hashlib, json, os, random
import vlib

PID = "C17"


def run(tier, v):
    wd = vlib.workdir(PID)
    vlib.build_harness()
    rng = random.Random(vlib.seed())
    vec = os.path.join(wd, "vectors.ndjson")
    exp = {}
    with open(vec, "w") as f:
        def sink(tag, o):
            i = len(exp)
            n = len(o["bytes"])
            parts = [[c, n - c] for c in range(1, n)]
            for _ in range(30 if tier == "thorough" else 6):
                k = rng.randint(3, 7)
                cuts = sorted(rng.sample(range(1, n), min(k - 1, n - 1)))
                parts.append([b - a for a, b in zip([0] + cuts, cuts + [n])])
            parts.append([n])
            # a used extractor: it was fed the first k octets of a connection that ended there (inside the preface, after it, inside a
            # frame header, a header without its payload, one whole frame, everything) and reset(); then this connection, whole or in two
            base = 24 if o["preface"] else 0
            pres = sorted({k for k in (1, base, base + 5, base + 9, (o["ends"][0] if o["ends"] else n), n) if 0 < k <= n})
            reuse = [{"pre": k, "cs": cs} for k in pres for cs in ([n], [min(base + 9, n - 1), n - min(base + 9, n - 1)])] if i % (1 if tier == "thorough" else 7) == 0 else []
            o["reuse"] = reuse
            o["parts"] = parts
            o["fpl"] = [o["fps"][str(k)] for k in range(len(o["ends"]) + 1)]
            exp[i] = o
            f.write(json.dumps({"id": i, "op": "akamai", "bytes": bytes(o["bytes"]).hex(), "parts": parts + reuse}) + "\n")
        r = vlib.tlc("MC_C17", pid=PID, workers=8, tag_sink=sink, timeout=3000, heap="10g", coverage=False)
    out = os.path.join(wd, "observed.ndjson")
    vlib.run_hv("http", vec, out)
    trace = os.path.join(wd, "trace.ndjson")
    n_one = n_parts = n_fp = 0
    rowinfo = {}
    reused = {}
    samples = []
    with open(trace, "w") as f:
        for o in vlib.read_ndjson(out):
            e = exp[o["id"]]
            n_one += 1
            one = o["one"]
            want = e["one"]
            got = [one["fp"]] if one["r"] == "some" else []
            if one["r"] == "panic":
                v.violation({"part": "one-shot", "bytes": bytes(e["bytes"]).hex(), "observed": "panic: " + one["e"]})
            elif got != want:
                v.violation({"part": "one-shot", "frames": e["kinds"], "preface": e["preface"], "bytes": bytes(e["bytes"]).hex(), "expected": want, "observed": got})
            elif want:
                n_fp += 1
                h = hashlib.sha256(want[0].encode()).hexdigest()[:32]
                if one["hash"] != h:
                    v.violation({"part": "one-shot hash", "fingerprint": want[0], "expected": h, "observed": one["hash"]})
                if len(samples) < 3 and n_one % 97 == 1:
                    samples.append({"frames": e["kinds"], "preface": e["preface"], "fingerprint": want[0], "hash": h})
            for pi, (cs, po) in enumerate(zip(e["parts"] + e["reuse"], o["parts"])):
                n_parts += 1
                rid = "%d.%d" % (o["id"], pi)
                used = None
                if isinstance(cs, dict):
                    used, cs = cs["pre"], cs["cs"]
                    reused[rid] = used
                outs = []
                for x in po["outs"]:
                    outs.append([x["fp"]] if x["r"] == "some" else (["!" + x["r"]] if x["r"] in ("panic", "err") else []))
                rowinfo[rid] = (o["id"], cs)
                f.write(json.dumps({"id": rid, "ends": e["ends"], "firsts": e["firsts"], "sidx": e["sidx"], "fps": e["fpl"], "cs": cs, "outs": outs,
                                    "final": [po["final"]] if po["final"] is not None else []}) + "\n")
    r2 = vlib.tlc("TV_C17", pid=PID, workers=8, env={"TRACE": trace}, timeout=3000, heap="12g")
    if tier == "thorough":
        def mut(rows):
            k = next(i for i, r_ in enumerate(rows) if any(r_["outs"]))
            r_ = json.loads(json.dumps(rows[k]))
            j = next(i for i, x in enumerate(r_["outs"]) if x)
            r_["outs"][j] = []
            if j + 1 < len(r_["outs"]):
                r_["outs"][-1] = rows[k]["outs"][j]
            return rows[:20] + [r_], "the chunk at which the fingerprint was returned is changed"
        v.binding.append(vlib.binding_demo("TV_C17", trace, mut, PID, workers=4, timeout=900, heap="6g"))
    for b in r2.lines.get("BAD", []):
        i, cs = rowinfo[b["id"]]
        e = exp[i]
        v.violation({"part": "incremental" if b["id"] not in reused else "incremental, on an extractor that was given the first %d octets of another connection and then reset()" % reused[b["id"]], "frames": e["kinds"], "preface": e["preface"], "frame_end_offsets": e["ends"], "bytes": bytes(e["bytes"]).hex(), "chunks": cs,
                     "expected_return_per_chunk": b["want"], "observed_return_per_chunk": b["got"], "get_fingerprint_afterwards": b["final"]})
    return v.finish("model_checking", {
        "states": r.distinct + r2.distinct, "transitions": r.generated + r2.generated, "traces_validated_against_impl": n_parts + n_one,
        "evaluations": n_parts + n_one, "distinct_nontrivial": n_fp,
        "rule": "%d connection starts of MC_C17 (x with/without preface), one-shot; each cut at every byte position plus seeded k-partitions (%d partitions) through add_bytes; "
                "non-trivial = streams that carry a fingerprint" % (n_one, n_parts),
        "samples": samples or [{"note": "none drawn"}], "exhaustive": False,
    }, ["SHA-256 by Python hashlib on the string Akamai.tla yields", "the first SETTINGS frame on stream 0 carries at least one parameter", "HEADERS carry the four standard request pseudo-headers only"])


def replay(path, v):
    return run("quick", v)
