"""C05 — HTTP/1.x heads are reported faithfully and independently of the body.

B  MC_C05 (Http1.tla): TLC enumerates request/response heads (all 16 methods x targets x versions; status lines; every header
   list up to a bounded length over pools with case variants and duplicates; optional-whitespace variants; cookie lists and
   referer; Accept-Language lists with q-values; 98-100 headers) with the report Http1!Meaning assigns (fields, header list,
   cookies, referer, user agent / server, language, p0f observation and its text).
   Each head is sent with every body of a fixed set (empty, text with line breaks, header-looking lines + blank line, LF LF,
   all 256 byte values, gzip magic + 0xff bytes, a second request, UTF-8 text) through HttpProcessors::parse_request /
   parse_response: every report must equal Meaning, hence all bodies give the same report."""
import json, os
import vlib
from props import c10

PID = "C05"
BODIES = [b"", b"hello\r\nworld\r\n", b"X-Injected: 1\r\nHost: evil\r\n\r\nmore", b"\n\nline", bytes(range(256)), b"\x1f\x8b\x08\x00" + b"\xff" * 32,
          b"GET /second HTTP/1.1\r\nHost: second\r\n\r\n", "café 中文".encode(),
          # binary bytes around every kind of blank line inside the body, and bodies that begin with a line end
          b"\x89\xff\x00\n\n\xfe", b"\xff\xfe\r\n\r\n\xfd", b"\n\n\xff", b"\r\n\xff\xff", b"\n\xff", b"\xc3", b"\xff", b"\r\n", b"\xff\n\r\n\n\xfe: x\r\n\r\n"]
BODY_NAMES = ["empty", "text with CRLF", "header-looking lines", "LF LF", "bytes 00..ff", "gzip magic + ff", "second request", "UTF-8 text", "binary, LF LF, binary", "binary, CRLF CRLF, binary", "LF LF binary", "CRLF binary", "LF binary",
              "truncated UTF-8 lead byte", "ff", "CRLF", "binary with mixed line ends and a colon"]
WHAT = {
    "D05_list_case": "the optional / value-elided header lists are matched case-sensitively, so `host:` or `cache-control:` are printed with their value and unmarked",
    "D05_lang_q_ows": "a q-value written `; q=0.5` (with optional whitespace) is read as q=1",
    "D05_body_utf8": "the whole buffer, body included, must be valid UTF-8: a head followed by binary body bytes is not reported",
}


def project(kind, v):
    if kind == "req":
        return {"method": [v["method"]] if v["method"] is not None else [], "target": [v["uri"]] if v["uri"] is not None else [],
                "headers": [{"name": h["name"], "value": h["value"]} for h in v["headers"]], "cookies": v["cookies"],
                "referer": [v["referer"]] if v["referer"] is not None else [], "ua": [v["ua"]] if v["ua"] is not None else [],
                "lang": [v["lang"]] if v["lang"] is not None else [], "obs": v["obs"], "text": v["text"], "sigtext": v["sigtext"], "status": []}
    return {"method": [], "target": [], "headers": [{"name": h["name"], "value": h["value"]} for h in v["headers"]], "cookies": [], "referer": [], "ua": [],
            "lang": [], "obs": v["obs"], "text": v["text"], "sigtext": v["sigtext"], "status": [v["status"]] if v["status"] is not None else []}


def diff(e, got):
    # the signature the user is handed (Display of the observable request / response) must read like the p0f text of the observation
    return [k for k in ("method", "target", "status", "headers", "cookies", "referer", "ua", "lang", "obs", "text") if e[k] != got[k]] + (["sigtext"] if got["sigtext"] != e["text"] else [])


def run(tier, v):
    wd = vlib.workdir(PID)
    vlib.build_harness()
    K = set(vlib.known_devs(PID))
    fams = ["start", "hdrs", "ows", "cookie", "lang", "many", "dup", "long", "common"]
    n = n_heads = states = trans = 0
    n_trickle = [0]
    samples = []
    ref_none = {}
    for fam in fams:
        vec = os.path.join(wd, "vec-%s.ndjson" % fam)
        exp = {}
        got_ = []
        r = vlib.tlc("MC_C05", pid=PID, workers=8, tag_sink=lambda tag, o: got_.append(o), env={"VERIF_FAM": fam, "VERIF_MAXLEN": 3 if tier == "thorough" else 2}, timeout=3000, heap="10g")
        got_.sort(key=lambda o: (o["kind"], o["lines"]))          # TLC's workers print in no fixed order: the sampling below must not depend on it
        with open(vec, "w") as f:
            for i, o in enumerate(got_):
                exp[i] = o
                head = ("\r\n".join(o["lines"]) + "\r\n\r\n").encode()
                datas = [(head + b).hex() for b in BODIES]
                if tier == "thorough" or i % 3 == 0:
                    # the same head with bare LF line ends (which the parser accepts): same meaning, same independence of the body
                    head_lf = ("\n".join(o["lines"]) + "\n\n").encode()
                    datas += [(head_lf + b).hex() for b in BODIES]
                f.write(json.dumps({"id": i, "op": "parse", "kind": o["kind"], "datas": datas}) + "\n")
        states += r.distinct
        trans += r.generated
        out = os.path.join(wd, "obs-%s.ndjson" % fam)
        vlib.run_hv("http", vec, out)
        # ---- the same heads as connections through the OUTPUT layer (process_ipv4_packet: packet parser, flow table, parsers,
        # create_observable_package, matcher): what the caller is handed there -- the observable AND its rendered report -- must be the same
        cvec = os.path.join(wd, "conn-%s.ndjson" % fam)
        cmeta = []
        conns = []
        trickled = set()
        for i, e in exp.items():
            if tier != "thorough" and fam in ("hdrs", "lang", "ows") and i % 4:
                continue
            head = ("\r\n".join(e["lines"]) + "\r\n\r\n").encode() + BODIES[(i % 2) * (len(BODIES) - 1)]
            cip, sip, cp = (10, 5, 0, 1), (10, 5, 0, 2), 30000 + (i % 30000)
            syn = c10.frame(cip, sip, cp, 80, 100, 0, 0x02, ipid=1)
            data = c10.frame(cip, sip, cp, 80, 101, 1, 0x18, head, ipid=2) if e["kind"] == "req" else c10.frame(sip, cip, 80, cp, 1, 101, 0x18, head, ipid=2)
            conns.append([syn.hex(), data.hex()])
            cmeta.append(i)
            # a long head that trickles in, every octet a segment of its own (a slow or adversarial sender): same report
            hb = ("\r\n".join(e["lines"]) + "\r\n\r\n").encode()
            if 2100 < len(hb) < 6000 and n_trickle[0] < (6 if tier == "thorough" else 2) and e["kind"] in ("req", "resp"):
                n_trickle[0] += 1
                cp2 = 20000 + n_trickle[0]
                segs = [c10.frame(cip, sip, cp2, 80, 100, 0, 0x02, ipid=1).hex()]
                for k_ in range(len(hb)):
                    segs.append((c10.frame(cip, sip, cp2, 80, 101 + k_, 1, 0x18, hb[k_:k_ + 1], ipid=2 + k_ % 60000) if e["kind"] == "req" else c10.frame(sip, cip, 80, cp2, 1 + k_, 101, 0x18, hb[k_:k_ + 1], ipid=2 + k_ % 60000)).hex())
                conns.append(segs)
                cmeta.append(i)
                trickled.add(len(conns) - 1)
        vlib.write_ndjson(cvec, [{"id": 0, "op": "conns", "conns": conns}])
        cout = os.path.join(wd, "connobs-%s.ndjson" % fam)
        vlib.run_hv("http", cvec, cout)
        for ci_, (rows, i) in enumerate(zip(next(vlib.read_ndjson(cout))["out"], cmeta)):
            e = exp[i]
            n += 1
            last = rows[-1]
            ctx = {"family": fam, "kind": e["kind"], "head_lines": e["lines"][:12], "via": "process_ipv4_packet (one segment after the SYN)" if ci_ not in trickled else "process_ipv4_packet (the head in %d segments of one octet)" % (len(rows) - 1)}
            if last["r"] == "panic":
                v.violation(dict(ctx, observed="panic: " + last["e"]))
                continue
            rep = last.get("req" if e["kind"] == "req" else "resp") if last["r"] == "ok" else None
            if rep is None:
                # a head the parser-level run did not report either is judged there
                pl = ref_none.get((fam, i))
                if not pl:
                    v.violation(dict(ctx, observed="not reported (%s)" % last["r"], expected=e["exp"]))
                continue
            got = project(e["kind"], rep["v"])
            d = diff(e["exp"], got)
            fields = dict(x.strip().split(":", 1) for x in rep["line"].split("\n")[1:] if ":" in x)
            if not d and fields.get("Sig", "").strip() != e["exp"]["text"]:
                d = ["report line `Sig:`"]
            if d:
                alts_ok = any(not diff(a["exp"], got) and set(a["devs"]) <= K for a in e["alts"])
                if alts_ok:
                    continue
                v.violation(dict(ctx, differing_fields=d, expected={k: e["exp"].get(k, e["exp"].get("text")) for k in d}, observed={k: got.get(k, fields.get("Sig")) for k in d}))
        for o in vlib.read_ndjson(out):
            e = exp[o["id"]]
            n_heads += 1
            for bi, res in enumerate(o["out"]):
                n += 1
                lf = bi >= len(BODIES)
                bi = bi % len(BODIES)
                ctx = {"family": fam, "kind": e["kind"], "head_lines": e["lines"], "line_ends": "LF" if lf else "CRLF", "body": BODY_NAMES[bi]}
                if res["r"] == "panic":
                    v.violation(dict(ctx, observed="panic: " + res["e"]))
                    continue
                if res["r"] == "none":
                    try:
                        BODIES[bi].decode("utf-8")
                        valid = True
                    except UnicodeDecodeError:
                        valid = False
                    if not valid and "D05_body_utf8" in K:
                        v.known_hit("D05_body_utf8", WHAT["D05_body_utf8"])
                    else:
                        v.violation(dict(ctx, observed="not reported", expected=e["exp"]))
                    continue
                got = project(e["kind"], res["v"])
                d = diff(e["exp"], got)
                if not d:
                    continue
                hit = None
                for a in sorted(e["alts"], key=lambda a: len(a["devs"])):
                    if not diff(a["exp"], got):
                        hit = a["devs"]
                        break
                if hit and set(hit) <= K:
                    for dv in hit:
                        v.known_hit(dv, WHAT[dv])
                    continue
                v.violation(dict(ctx, differing_fields=d, expected={k: e["exp"].get(k, e["exp"].get("text") if k == "sigtext" else None) for k in d}, observed={k: got.get(k) for k in d}, matches_deviations=hit))
            if len(samples) < 3 and n_heads % 151 == 1:
                samples.append({"head_lines": e["lines"][:6], "p0f_observation": e["exp"]["text"], "bodies": BODY_NAMES})
    return v.finish("model_checking", {
        "states": states, "transitions": trans, "traces_validated_against_impl": n,
        "evaluations": n, "distinct_nontrivial": n_heads,
        "rule": "%d heads of MC_C05 (families start/hdrs/ows/cookie/lang/many/dup/long; header lists up to length %d) x %d bodies; non-trivial = distinct heads" % (n_heads, 3 if tier == "thorough" else 2, len(BODIES)),
        "samples": samples or [{"note": "none drawn"}], "exhaustive": True,
    }, ["heads are ASCII with CRLF line ends (every third head in quick, all in thorough, also with bare LF line ends); bodies carry the binary / UTF-8 dimension", "position, timing and metadata fields are not compared",
        "Cookie / Referer are not duplicated within one head", "the language table is restricted to en/fr/de/es in the specification"])


def replay(path, v):
    return run("quick", v)
