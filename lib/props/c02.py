"""C02 — best match equals the optimum of a full database scan (the index is transparent).

A  MC_C02: on the model of the index, candidate lookup = full scan for every database of <= 3 signatures over a
   vocabulary mixing concrete and wildcard IP version / payload class / HTTP version (and the model sees D02).
B  the same databases as p0f text -> Database::from_str -> find_best_match for every observation;
   the bundled database x instances and perturbations of every bundled signature (MC_C12's generator).
C  TV_C02: each recorded (distances of all entries, reported entry, reported quality) is judged by TLC:
   reported = first entry with the smallest distance, quality = the quality of that distance, none iff none accepts."""
import json, os
import vlib

PID = "C02"


def table_db(wd):
    """The analyzers look an observation up in the table of ITS kind: a SYN in [tcp:request], a SYN+ACK in [tcp:response], a request in
    [http:request], a response in [http:response] -- IPv4 and IPv6, sequential and parallel front ends and the unified analyzer.
    A database is built in which every observation of the trace is a signature of BOTH tables of its protocol, under a label that
    names the table; the label reported must name the right one (TcpExtract!TableOf / Http1: kind)."""
    from props import c10
    a4, b4 = (10, 5, 0, 1), (10, 5, 0, 2)
    a6, b6 = bytes([0x20, 1, 0xd, 0xb8] + [0] * 11 + [1]), bytes([0x20, 1, 0xd, 0xb8] + [0] * 11 + [2])
    so = b"\x02\x04\x05\xb4\x04\x02\x08\x0a\x00\x00\x10\x00\x00\x00\x00\x00\x01\x03\x03\x07"
    R = b"GET /t HTTP/1.1\r\nHost: t.example\r\nUser-Agent: tablesel/1.0\r\n\r\n"
    S = b"HTTP/1.1 200 OK\r\nServer: tablesel-srv\r\n\r\nok"
    frames = [c10.frame(a4, b4, 43000, 80, 100, 0, 0x02, opts=so, ipid=11), c10.frame(b4, a4, 80, 43000, 500, 101, 0x12, opts=so, ipid=12, ttl=128),
              c10.frame(a4, b4, 43000, 80, 101, 501, 0x18, R, ipid=13), c10.frame(b4, a4, 80, 43000, 501, 101 + len(R), 0x18, S, ipid=14, ttl=128),
              c10.frame6(a6, b6, 43001, 80, 100, 0, 0x02, opts=so), c10.frame6(b6, a6, 80, 43001, 500, 101, 0x12, opts=so, hlim=128),
              c10.frame6(a6, b6, 43001, 80, 101, 501, 0x18, R), c10.frame6(b6, a6, 80, 43001, 501, 101 + len(R), 0x18, S, hlim=128)]
    # a request without any User-Agent and a response without Server: signatures that do not demand these fields are looked up like all others
    Rn = b"GET /t-anon HTTP/1.1\r\nHost: t.example\r\nAccept: */*\r\n\r\n"
    Sn = b"HTTP/1.1 200 OK\r\nContent-Type: text/plain\r\n\r\nok"
    frames += [c10.frame(a4, b4, 43002, 80, 100, 0, 0x02, opts=so, ipid=15), c10.frame(b4, a4, 80, 43002, 500, 101, 0x12, opts=so, ipid=16, ttl=128),
               c10.frame(a4, b4, 43002, 80, 101, 501, 0x18, Rn, ipid=17), c10.frame(b4, a4, 80, 43002, 501, 101 + len(Rn), 0x18, Sn, ipid=18, ttl=128)]
    hexes = [f.hex() for f in frames]
    # 1. what the analyzers observe (no matcher)
    req = os.path.join(wd, "tsel0.req")
    vlib.write_ndjson(req, [{"id": "t", "crate": "tcp", "frames": hexes, "matcher": False, "cfg": {}}, {"id": "h", "crate": "http", "frames": hexes, "matcher": False, "cfg": {}}])
    out = os.path.join(wd, "tsel0.out")
    vlib.run_hv("ana", req, out, env={"HV_PCAP_DIR": os.path.join(wd, "pcap")})
    tcp_texts, http_texts = set(), set()
    for o in vlib.read_ndjson(out):
        for r_ in o.get("results", []):
            if o["id"] == "t":
                for k in ("syn", "syn_ack"):
                    if r_.get(k):
                        t = r_[k]["text"].split(":")
                        t[1] = t[1].split("+")[0]                  # the signature names the initial TTL
                        tcp_texts.add(":".join(t))
            else:
                for k in ("req", "resp"):
                    if r_.get(k):
                        http_texts.add(r_[k]["sig"]["text"])
    if len(tcp_texts) < 4 or len(http_texts) < 4:
        raise vlib.ToolError("table selection: expected 4 TCP and 4 HTTP observations, got %d / %d" % (len(tcp_texts), len(http_texts)))
    db = ["classes = win,unix,other", "[mtu]", "label = Ethernet", "sig = 1500"]
    for sec, lab, texts in (("tcp:request", "s:unix:TcpRequestTable:x", tcp_texts), ("tcp:response", "s:unix:TcpResponseTable:x", tcp_texts),
                            ("http:request", "s:!:HttpRequestTable:x", http_texts), ("http:response", "s:!:HttpResponseTable:x", http_texts)):
        db += ["[%s]" % sec, "label = " + lab] + ["sig = " + t for t in sorted(texts)]
    dbtext = "\n".join(db) + "\n"
    return frames, hexes, dbtext


def table_selection(wd, v):
    frames, hexes, dbtext = table_db(wd)
    # 2. with that database, through every front end
    lines = []
    for crate in ("tcp", "tcp_par", "http", "http_par", "uni"):
        lines.append({"id": crate, "crate": crate, "frames": hexes, "matcher": True, "cfg": {}, "db": dbtext, "parallel": {"workers": 2, "queue": 64, "batch": 4, "timeout_ms": 5}})
    req = os.path.join(wd, "tsel1.req")
    vlib.write_ndjson(req, lines)
    out = os.path.join(wd, "tsel1.out")
    vlib.run_hv("ana", req, out, env={"HV_PCAP_DIR": os.path.join(wd, "pcap")})
    want = {"syn": "TcpRequestTable", "syn_ack": "TcpResponseTable", "req": "HttpRequestTable", "resp": "HttpResponseTable"}
    for o in vlib.read_ndjson(out):
        if "db_error" in o or "panic" in o:
            raise vlib.ToolError("table selection: %s" % (o.get("db_error") or o.get("panic")))
        seen = {}
        for r_ in o.get("results", []):
            for k, w in want.items():
                x = r_.get(k)
                if not x:
                    continue
                lab = x.get("os") or x.get("browser") or x.get("server")
                name = lab["name"] if isinstance(lab, dict) else None
                fam = "v6" if ":" in x["src"].split("|")[0] else "v4"
                seen[(k, fam)] = name
                if name != w:
                    v.violation({"part": "table selection", "front_end": o["id"], "kind": k, "address_family": fam, "source": x["src"], "expected_label": w, "reported_label": name,
                                 "database": dbtext})
        proto = ("syn", "syn_ack") if o["id"].startswith("tcp") else ("req", "resp") if o["id"].startswith("http") else tuple(want)
        missing = [(k, fam) for k in proto for fam in ("v4", "v6") if (k, fam) not in seen]
        if missing:
            v.violation({"part": "table selection", "front_end": o["id"], "observed": "no result for %s" % missing, "database": dbtext})


def run(tier, v):
    wd = vlib.workdir(PID)
    vlib.build_harness()
    K = set(vlib.known_devs(PID))
    stride = 61 if tier == "thorough" else 503
    vec = os.path.join(wd, "vectors.ndjson")
    meta = {}
    stat = {}
    with open(vec, "w") as f:
        def sink(tag, o):
            if tag == "STAT":
                stat.update(o)
                return
            i = len(meta)
            meta[i] = {"http": o["kind"] == "http", "sver": o["sver"], "obs": o["obs"], "db": o["db"], "table": o["table"]}
            f.write(json.dumps({"op": "match", "id": i, "db": o["db"], "table": o["table"], "obs": o["obs"]}) + "\n")
        r1 = vlib.tlc("MC_C02", pid=PID, workers=16 if tier == "thorough" else 8, tag_sink=sink,
                      env={"VERIF_STRIDE": stride, "VERIF_OFFSET": vlib.seed()}, timeout=3000)
        if r1.inv_violated:
            raise vlib.ToolError("Match.tla: the index model is not transparent (%s)" % r1.inv_violated)
        n_gen = len(meta)
        # bundled database: observations from MC_C12's instance/perturbation generator
        sigs = os.path.join(wd, "sigs.ndjson")
        req = os.path.join(wd, "req.ndjson")
        vlib.write_ndjson(req, [{"op": "db_sigs", "id": 0}])
        vlib.run_hv("db", req, sigs)
        db = next(vlib.read_ndjson(sigs))
        per_table = {"tcp_request": [], "tcp_response": [], "http_request": [], "http_response": []}
        ntr = len(db["tcp_request"])
        nhr = len(db["http_request"])
        ntall = ntr + len(db["tcp_response"])

        def sink2(tag, o):
            if o["kind"] == "tcp":
                if o["i"] > ntall:
                    return
                t = "tcp_request" if o["i"] <= ntr else "tcp_response"
            else:
                t = "http_request" if o["i"] <= nhr else "http_response"
            per_table[t].extend(o["obs"])
        r0 = vlib.tlc("MC_C12", pid=PID, workers=8, tag_sink=sink2, env={"SIGS": sigs}, timeout=1800)
        for t, obs in per_table.items():
            # also look every observation up in the *other* direction's table (response obs against request sigs etc.)
            uniq = []
            seen = set()
            for o in obs:
                k = json.dumps(o, sort_keys=True)
                if k not in seen:
                    seen.add(k)
                    uniq.append(o)
            for chunk in range(0, len(uniq), 200):
                i = len(meta)
                part = uniq[chunk:chunk + 200]
                meta[i] = {"http": t.startswith("http"), "sver": [e["sig"]["ver"] for e in db[t]], "obs": part, "db": None, "table": t}
                f.write(json.dumps({"op": "match", "id": i, "db": None, "table": t, "obs": part}) + "\n")
        # databases larger than any index type one might pick by mistake: 65 540 labels in one section, and one label with 65 540
        # signatures; the observation conforms to exactly one signature, which stands behind position 65 536
        NBIG = 65540
        sigtext = lambda j: "sig = 4:64:0:%d:mss*4,%d:mss,nop,ws:df,id+:0" % (j % 65000 + 1, j // 65000)
        big_obs = lambda j: {"ver": "4", "pclass": "0", "olayout": [{"k": "mss", "n": 0}, {"k": "nop", "n": 0}, {"k": "ws", "n": 0}], "mss": j % 65000 + 1,
                             "ittl": {"k": "dist", "a": 57, "b": 7}, "olen": 0, "wsize": {"k": "mss", "n": 4}, "wscale": j // 65000, "quirks": ["df", "id+"]}
        many_labels = "[tcp:request]\n" + "".join("label = s:unix:Os%d:f\n%s\n" % (j, sigtext(j)) for j in range(1, NBIG + 1))
        one_label = "[tcp:response]\nlabel = s:unix:Big:f\n" + "".join(sigtext(j) + "\n" for j in range(1, NBIG + 1))
        for dbt, table in ((many_labels, "tcp_request"), (one_label, "tcp_response")):
            i = len(meta)
            obs_ = [big_obs(65538), big_obs(NBIG), big_obs(7), big_obs(65536)]
            meta[i] = {"http": False, "sver": ["4"] * NBIG, "obs": obs_, "db": "<generated: %d signatures in [%s]>" % (NBIG, table), "table": table}
            f.write(json.dumps({"op": "match", "id": i, "db": dbt, "table": table, "obs": obs_}) + "\n")
    out = os.path.join(wd, "observed.ndjson")
    vlib.run_hv("db", vec, out)
    trace = os.path.join(wd, "trace.ndjson")
    n_ev = n_rep = n_multi = 0
    samples = []
    with open(trace, "w") as f:
        for o in vlib.read_ndjson(out):
            m = meta[o["id"]]
            if "panic" in o:
                v.violation({"db": m["db"], "table": m["table"], "observed": "panic: " + o["panic"]})
                continue
            for k, r in enumerate(o["res"]):
                n_ev += 1
                n_rep += r["rep"] > 0
                n_multi += sum(1 for d in r["dists"] if d >= 0) > 1
                if len(r["dists"]) > 5000:
                    # very large tables: run-length encoded (TV_C02!GoodRuns); qbest = the quality the harness computed for the first entry
                    # with the smallest distance of the runs
                    runs = []
                    for d in r["dists"]:
                        if runs and runs[-1][0] == d:
                            runs[-1][1] += 1
                        else:
                            runs.append([d, 1])
                    acc = [d for d in r["dists"] if d >= 0]
                    qbest = r["qs"][r["dists"].index(min(acc))] if acc else -1
                    f.write(json.dumps({"id": o["id"], "k": k, "runs": runs, "qbest": qbest, "rep": r["rep"], "rq": r["rq"]}) + "\n")
                    continue
                f.write(json.dumps({"id": o["id"], "k": k, "http": m["http"], "dists": r["dists"], "qs": r["qs"], "rep": r["rep"],
                                    "rq": r["rq"], "sver": m["sver"], "over": m["obs"][k]["ver"]}) + "\n")
                if len(samples) < 2 and r["rep"] > 0 and sum(1 for d in r["dists"] if d >= 0) > 1:
                    samples.append({"database": m["db"] or "<bundled p0f.fp> " + m["table"], "observation": m["obs"][k], "dists": r["dists"][:12], "reported_entry": r["rep"], "quality_x100": r["rq"]})
    # ---- through the crates' own matcher wrappers: real messages (heads generated by MC_C05: repeated headers, every subset of the
    # common headers, start lines) parsed by the HTTP crate and looked up with SignatureMatcher::matching_by_http_request / _response
    # in the bundled database; the answer must be what a full scan of the table selects FOR THE OBSERVATION THAT IS REPORTED
    wreq = os.path.join(wd, "wrapper.req")
    wmeta = []
    with open(wreq, "w") as f:
        for fam in ("dup", "common", "start", "cookie"):
            heads = []
            vlib.tlc("MC_C05", pid=PID, workers=8, tag_sink=lambda tag, o: heads.append(o), env={"VERIF_FAM": fam, "VERIF_MAXLEN": 2}, timeout=1800, heap="8g", coverage=False)
            heads.sort(key=lambda h: (h["kind"], h["lines"]))
            if tier != "thorough":
                heads = heads[:: max(1, len(heads) // 250)]
            for kind in ("req", "resp"):
                datas = [("\r\n".join(h["lines"]) + "\r\n\r\n").encode().hex() for h in heads if h["kind"] == kind]
                if datas:
                    f.write(json.dumps({"id": len(wmeta), "op": "match_w", "kind": kind, "datas": datas}) + "\n")
                    wmeta.append(("http_request" if kind == "req" else "http_response", [h["lines"] for h in heads if h["kind"] == kind]))
        # responses with runs of repeated lines (several Set-Cookie lines ...), with and without the headers the bundled signatures list
        base_hdrs = ["Server: Apache/2.2", "Date: Mon, 01 Jan 2024 00:00:00 GMT", "Content-Type: text/html", "Content-Length: 5", "Connection: close", "Accept-Ranges: bytes", "Keep-Alive: timeout=5"]
        reps = []
        for n_base in (2, 4, 5, 7):
            for rep_name in ("Set-Cookie", "X-Trace", "Vary"):
                for n_rep in (2, 3, 6):
                    for at in (0, n_base):
                        hs = base_hdrs[:n_base]
                        lines_ = ["HTTP/1.1 200 OK"] + hs[:at] + ["%s: v%d" % (rep_name, j) for j in range(n_rep)] + hs[at:]
                        reps.append(lines_)
        f.write(json.dumps({"id": len(wmeta), "op": "match_w", "kind": "resp", "datas": [("\r\n".join(l_) + "\r\n\r\nhello").encode().hex() for l_ in reps]}) + "\n")
        wmeta.append(("http_response", reps))
    wout = os.path.join(wd, "wrapper.out")
    vlib.run_hv("http", wreq, wout)
    n_wrap = 0
    with open(trace, "a") as f:
        for o in vlib.read_ndjson(wout):
            t, heads_ = wmeta[o["id"]]
            i = len(meta)
            meta[i] = {"http": True, "sver": [e["sig"]["ver"] for e in db[t]], "obs": [], "db": None, "table": t + " (through SignatureMatcher)"}
            for k, res in enumerate(o["out"]):
                if res["r"] == "panic":
                    v.violation({"table": t, "head_lines": heads_[k][:10], "observed": "panic: " + res["e"]})
                if res["r"] != "some":
                    meta[i]["obs"].append(None)
                    continue
                r = res["v"]
                meta[i]["obs"].append({"head_lines": heads_[k][:12], "reported_observation": r["obs"]})
                n_wrap += 1
                n_ev += 1
                n_rep += r["rep"] > 0
                n_multi += sum(1 for d in r["dists"] if d >= 0) > 1
                f.write(json.dumps({"id": i, "k": len(meta[i]["obs"]) - 1, "http": True, "dists": r["dists"], "qs": r["qs"], "rep": r["rep"], "rq": r["rq"], "sver": meta[i]["sver"], "over": r["obs"]["ver"]}) + "\n")
    r2 = vlib.tlc("TV_C02", pid=PID, workers=8, env={"TRACE": trace}, timeout=3000, heap="12g")
    table_selection(wd, v)

    if tier == "thorough":
        def mut(rows):
            k = next(i for i, r_ in enumerate(rows) if r_["rep"] > 0 and sum(1 for d in r_["dists"] if d >= 0) > 1)
            r_ = dict(rows[k])
            others = [i + 1 for i, d in enumerate(r_["dists"]) if d >= 0 and i + 1 != r_["rep"]]
            r_["rep"] = others[-1]
            return rows[:20] + [r_], "the reported entry of one lookup is replaced by another accepting entry"
        v.binding.append(vlib.binding_demo("TV_C02", trace, mut, PID, workers=4, timeout=900, heap="6g"))
    for b in r2.lines.get("BAD", []):
        m = meta[b["id"]]
        v.violation({"database": m["db"] or "<bundled p0f.fp>", "table": m["table"], "observation": m["obs"][b["k"]],
                     "distances_of_all_entries": b["dists"], "full_scan_selects_entry": b["want"], "reported_entry": b["rep"], "reported_quality_x100": b["rq"]})
    for kk in r2.lines.get("KNOWN", []):
        if kk["dev"] in K:
            v.known_hit(kk["dev"], "an HTTP signature with version `*` is indexed under 1.0/1.1 only: an HTTP/2 or HTTP/3 observation that it accepts is not matched")
        else:
            m = meta[kk["id"]]
            v.violation({"database": m["db"] or "<bundled p0f.fp>", "table": m["table"], "observation": m["obs"][kk["k"]], "matches_deviation": kk["dev"]})
    return v.finish("model_checking", {
        "states": r1.distinct + r2.distinct, "transitions": r1.generated + r2.generated,
        "traces_validated_against_impl": n_ev,
        "evaluations": n_ev, "distinct_nontrivial": n_multi,
        "rule": "generated: every %d-th of %d TCP databases and all %d HTTP databases of <= 3 signatures (3 label groupings, request/response tables) x all observations of MC_C02; "
                "bundled p0f.fp x instances and perturbations of every bundled signature; %d lookups, %d with a reported match; non-trivial = lookups where more than one entry accepts the observation"
                % (stat.get("stride", 0), stat.get("ntcp", 0), stat.get("nhttp", 0), n_ev, n_rep),
        "samples": samples, "exhaustive": False, "generated_databases": n_gen,
    }, ["distances are the implementation's own calculate_distance (C12 judges them); the quality expected for the winning distance is the protocol's documented scale (TcpMatchQuality / HttpMatchQuality::distance_to_score, whose shape C12 judges)",
        "reported entry located by pointer identity of the returned &Signature within FingerprintCollection.entries"])


def replay(path, v):
    return run("quick", v)
