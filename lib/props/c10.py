"""C10 — parallel mode is observationally equivalent to sequential mode.

A  MC_Pool (Pool.tla): with routing a function of the connection and queues that never overflow, every interleaving of the
   dispatcher with 2-3 batching workers analyses every packet with exactly the state a sequential analyzer would have
   (SequentialEquivalence), and terminates; routing the two directions independently violates it (the model sees the
   historical HTTP defect).
C  real traces of complete TCP / TLS / HTTP connections between distinct endpoints, interleaved, are run through the sequential
   analyzers and through worker pools with 1..16 workers, batch sizes 1-4 and seeded schedule perturbation (hook H2, frozen
   clock H1); TLC checks for every run that each connection's delivered results are exactly its sequential results, in order
   (TV_C10)."""
import hashlib, json, os, random
import vlib

PID = "C10"
M32 = 1 << 32


def frame(src, dst, sport, dport, seq, ack, flags, payload=b"", opts=b"", ipid=1, ttl=64, fragw=0x4000):
    doff = 5 + len(opts) // 4
    tcp = bytes([sport >> 8, sport & 255, dport >> 8, dport & 255]) + (seq % M32).to_bytes(4, "big") + (ack % M32).to_bytes(4, "big") + bytes([doff << 4, flags, 0xff, 0xff, 0, 0, 0, 0]) + opts + payload
    total = 20 + len(tcp)
    ip = bytes([0x45, 0, total >> 8, total & 255, ipid >> 8, ipid & 255, fragw >> 8, fragw & 255, ttl, 6, 0, 0]) + bytes(src) + bytes(dst)
    return bytes([2, 0, 0, 0, 0, 2, 2, 0, 0, 0, 0, 1, 8, 0]) + ip + tcp


def frame6(src, dst, sport, dport, seq, ack, flags, payload=b"", opts=b"", hlim=64, flow=0):
    """Ethernet / IPv6 / TCP frame; src and dst are 16-byte sequences"""
    doff = 5 + len(opts) // 4
    tcp = bytes([sport >> 8, sport & 255, dport >> 8, dport & 255]) + (seq % M32).to_bytes(4, "big") + (ack % M32).to_bytes(4, "big") + bytes([doff << 4, flags, 0xff, 0xff, 0, 0, 0, 0]) + opts + payload
    ip = bytes([0x60 | ((flow >> 16) & 15), (flow >> 8) & 255, flow & 255]) + bytes([0])[:0] + bytes([len(tcp) >> 8, len(tcp) & 255, 6, hlim]) + bytes(src) + bytes(dst)
    ip = bytes([0x60, (flow >> 16) & 15, (flow >> 8) & 255, flow & 255]) + bytes([len(tcp) >> 8, len(tcp) & 255, 6, hlim]) + bytes(src) + bytes(dst)
    return bytes([2, 0, 0, 0, 0, 2, 2, 0, 0, 0, 0, 1, 0x86, 0xdd]) + ip + tcp


def digest(x):
    return hashlib.sha1(json.dumps(x, sort_keys=True).encode()).hexdigest()[:16]


def hello(sni):
    host = sni.encode()
    ext_sni = b"\x00\x00" + (len(host) + 5).to_bytes(2, "big") + (len(host) + 3).to_bytes(2, "big") + b"\x00" + len(host).to_bytes(2, "big") + host
    ext_sv = b"\x00\x2b\x00\x03\x02\x03\x04"
    ext_alpn = b"\x00\x10\x00\x05\x00\x03\x02h2"
    exts = ext_sni + ext_sv + ext_alpn
    body = b"\x03\x03" + bytes(range(32)) + b"\x00" + b"\x00\x06\x13\x01\x13\x02\xc0\x2b" + b"\x01\x00" + len(exts).to_bytes(2, "big") + exts
    hs = b"\x01" + len(body).to_bytes(3, "big") + body
    return b"\x16\x03\x01" + len(hs).to_bytes(2, "big") + hs


def relink(f, link):
    """the same IP packet under another capture framing: Ethernet (as built), raw IP, or the 4-byte loopback header the packet parser knows (1e 00 00 00)"""
    if link == "raw":
        return f[14:]
    if link == "null":
        return b"\x1e\x00\x00\x00" + f[14:]
    return f


def build_traces(rng, nconn, link="eth", nrich=0):
    """per crate: list of (conn id, frame bytes) in trace order, every frame unique"""
    traces = {"tcp": [], "http": [], "tls": []}
    ipid = [0]

    def nid():
        ipid[0] += 1
        return ipid[0]
    conns = []
    for c in range(nconn):
        cip, sip = (10, 1, c // 200, 1 + c % 200), (10, 2, 0, 1 + c % 3)
        cp, sp = 20000 + c, 80
        # endpoint shapes: client address below / above the server's, both ends on one address (loopback, hairpin), equal ports
        shape = c % 4
        if shape == 1:
            cip = (10, 3, c // 200, 1 + c % 200)
        elif shape == 2:
            cip = sip = (127, 0, c // 200, 1 + c % 200)
        elif shape == 3:
            cp = 80
        ic, is_ = rng.randrange(M32), rng.randrange(M32)
        # the IPv4 fragment word of the data segments: every fifth connection sends some of them without DF, as a first
        # fragment (MF set, offset 0: the TCP header is there and the segment is analysed like any other) or with the reserved bit
        fw = (lambda k: (0x0000, 0x2000, 0x4000, 0x8000)[k % 4]) if c % 5 == 4 else (lambda k: 0x4000)
        ts = lambda v, e: b"\x01\x01\x08\x0a" + v.to_bytes(4, "big") + e.to_bytes(4, "big")
        synopts = b"\x02\x04\x05\xb4\x04\x02\x08\x0a" + (1000 + c).to_bytes(4, "big") + b"\x00\x00\x00\x00\x01\x03\x03\x07"
        tcpc = [frame(cip, sip, cp, sp, ic, 0, 0x02, opts=synopts, ipid=nid()),
                frame(sip, cip, sp, cp, is_, ic + 1, 0x12, opts=synopts, ipid=nid(), ttl=128),
                frame(cip, sip, cp, sp, ic + 1, is_ + 1, 0x10, opts=ts(1100 + c, 5), ipid=nid())]
        R = ("GET /c%d HTTP/1.1\r\nHost: h%d.example\r\nUser-Agent: agent-%d\r\nAccept: */*\r\n\r\n" % (c, c, c)).encode()
        S = ("HTTP/1.1 200 OK\r\nServer: srv-%d\r\nContent-Type: text/plain\r\n\r\nbody %d" % (c, c)).encode()
        cut = rng.randrange(5, len(R) - 5)
        httpc = [frame(cip, sip, cp, sp, ic, 0, 0x02, ipid=nid()), frame(sip, cip, sp, cp, is_, ic + 1, 0x12, ipid=nid()),
                 frame(cip, sip, cp, sp, ic + 1, is_ + 1, 0x18, R[:cut], ipid=nid(), fragw=fw(0)), frame(cip, sip, cp, sp, ic + 1 + cut, is_ + 1, 0x18, R[cut:], ipid=nid(), fragw=fw(1)),
                 frame(sip, cip, sp, cp, is_ + 1, ic + 1 + len(R), 0x18, S, ipid=nid(), fragw=fw(3))]
        H = hello("host%d.example" % c)
        c1, c2 = sorted(rng.sample(range(5, len(H)), 2))
        tp = 443 if shape == 3 else cp
        tlsc = [frame(cip, sip, tp, 443, ic + 1, is_ + 1, 0x18, H[:c1], ipid=nid(), fragw=fw(2)), frame(cip, sip, tp, 443, ic + 1 + c1, is_ + 1, 0x18, H[c1:c2], ipid=nid(), fragw=fw(1)),
                frame(cip, sip, tp, 443, ic + 1 + c2, is_ + 1, 0x18, H[c2:], ipid=nid(), fragw=fw(0))]
        conns.append({"tcp": tcpc, "http": httpc, "tls": tlsc})
    # connections with independently drawn features (address family and form, ports, TTL, TOS, fragment word, IP options, MAC
    # addresses, SYN option layouts, timestamps on data segments, sequence numbers at the wrap, message shapes, segmentation)
    from props import traffic
    for c in range(nconn, nconn + nrich):
        conns.append({kind: traffic.connection(rng, 300 + c, kind, nid)["frames"] for kind in ("tcp", "http", "tls")})
    nconn += nrich
    if link == "raw" and nrich:
        # one fixed connection of the recorded finding's input class (a client whose address begins 86 dd): the KNOWN-FINDING line is
        # printed on every run, not only when the seeded styles happen to draw such an address
        la, lb = (134, 221, 69, 54), (10, 2, 0, 2)
        Rl = b"GET /lookalike HTTP/1.1\r\nHost: l.example\r\nUser-Agent: lookalike/1.0\r\n\r\n"
        so = traffic.SYNOPTS[0](4242)
        conns.append({"tcp": [traffic.pkt(4, la, lb, 50310, 80, 100, 0, 0x02, tcpopts=so, ipid=nid()), traffic.pkt(4, lb, la, 80, 50310, 900, 101, 0x12, tcpopts=so, ipid=nid())],
                      # the option-less SYN is 40 octets long: too short to pass for Ethernet + IPv6, so the parser reads it as raw IP (flow opened),
                      # while the hash, which decides on octets 12-13 alone, places it by a hash of the whole frame
                      "http": [traffic.pkt(4, la, lb, 50310, 80, 100, 0, 0x02, ipid=nid()), traffic.pkt(4, lb, la, 80, 50310, 900, 101, 0x12, tcpopts=so, ipid=nid()),
                               traffic.pkt(4, la, lb, 50310, 80, 101, 901, 0x18, Rl, ipid=nid()), traffic.pkt(4, lb, la, 80, 50310, 901, 101 + len(Rl), 0x18, b"HTTP/1.1 200 OK\r\nServer: lookalike-srv\r\n\r\nok", ipid=nid())],
                      "tls": [traffic.pkt(4, la, lb, 50311, 443, 1, 1, 0x18, hello("lookalike.example")[:50], ipid=nid()), traffic.pkt(4, la, lb, 50311, 443, 51, 1, 0x18, hello("lookalike.example")[50:], ipid=nid())]})
        nconn += 1
    for crate in traces:
        ptr = [0] * nconn
        order = []
        for c in range(nconn):
            order += [c] * len(conns[c][crate])
        rng.shuffle(order)
        for c in order:
            traces[crate].append((c, relink(conns[c][crate][ptr[c]], link)))
            ptr[c] += 1
        # frames that belong to no connection (UDP, ICMP, later fragments, truncated headers, ARP, ...) in between
        if nrich:
            for f in traffic.noise(rng, nid, max(4, len(order) // 6)) + traffic.unreadable(rng, nid, 6):
                traces[crate].insert(rng.randrange(len(traces[crate]) + 1), (-1, relink(f, link) if len(f) > 14 else f))
    return traces


def conn_of_result(crate, r):
    """connection (or for tcp: sending host) a pool result belongs to, and its digest"""
    if crate == "tcp":
        for k in ("syn", "syn_ack", "mtu", "client_uptime", "server_uptime"):
            if r.get(k):
                return r[k]["src"].split("|")[0], digest(r)
        return None, None
    if crate == "http":
        if r.get("req"):
            return frozenset([r["req"]["src"], r["req"]["dst"]]), digest({"req": r["req"]["sig"]})
        if r.get("resp"):
            return frozenset([r["resp"]["src"], r["resp"]["dst"]]), digest({"resp": r["resp"]["sig"]})
        return None, None
    return frozenset([r["src"], r["dst"]]), digest(r["sig"])


def run(tier, v):
    wd = vlib.workdir(PID)
    vlib.build_harness()
    rng = random.Random(vlib.seed())
    statesA = transA = 0
    for s in ["c10", "c10_b1"] + (["c10_3w"] if tier == "thorough" else []):
        r = vlib.tlc("MC_Pool", pid=PID, workers=8, env={"VERIF_SCEN": s}, timeout=1800)
        if r.inv_violated:
            raise vlib.ToolError("Pool.tla violates %s in scenario %s" % (r.inv_violated, s))
        # no shutdown in these scenarios; with batch size 1 a batch is never extended
        vlib.require_no_zero_actions(r, ignore=("Shutdown", "WGone") + (("WFill",) if s == "c10_b1" else ()))
        statesA += r.distinct
        transA += r.generated
    r = vlib.tlc("MC_Pool", pid=PID, workers=8, env={"VERIF_SCEN": "c10_directed"}, timeout=1800)
    if r.inv_violated != "SequentialEquivalence":
        raise vlib.ToolError("anti-vacuity: the mis-routed pool model should violate SequentialEquivalence")
    n_traces = 6 if tier == "thorough" else 3
    configs = [(nw, bs) for nw in (range(1, 17) if tier == "thorough" else (1, 2, 3, 5, 8, 16)) for bs in ((1, 2, 4) if tier == "thorough" else (1, 4))]
    seq_lines, pool_lines, meta = [], [], []
    link_of = {}
    for t in range(n_traces):
        traces = build_traces(rng, 6 + 3 * t, ("eth", "raw", "null")[t % 3], nrich=6 + 2 * t)     # one capture framing per trace
        for crate, tr in traces.items():
            frames = [f.hex() for _, f in tr]
            sid = len(seq_lines)
            link_of[sid] = ("eth", "raw", "null")[t % 3]
            if crate == "tcp":
                seq_lines.append({"id": sid, "mode": "tcp", "req": {"id": sid, "op": "frames", "frames": frames, "clock": [1700000000000] * len(frames)}})
            elif crate == "http":
                seq_lines.append({"id": sid, "mode": "http", "ipoff": {"eth": 14, "raw": 0, "null": 4}[("eth", "raw", "null")[t % 3]], "req": {"id": sid, "op": "packets", "frames": frames}})
            else:
                seq_lines.append({"id": sid, "mode": "tls", "req": {"id": sid, "op": "packets", "frames": frames}})
            for (nw, bs) in configs:
                pid_ = len(pool_lines)
                pool_lines.append({"id": pid_, "crate": crate, "workers": nw, "queue": 4096, "batch": bs, "timeout_ms": 5, "dispatchers": [frames],
                                   "perturb": vlib.seed() * 7919 + pid_ + 1, "matcher": crate == "tcp"})
                meta.append({"seq": sid, "crate": crate, "nw": nw, "batch": bs, "conns": [c for c, _ in tr]})
            # tight capacity: max_connections is documented as PER WORKER, so a pool whose per-worker capacity covers every connection of
            # the trace (two tracker entries per connection for the TCP pool) loses nothing, however the flows are spread over the workers
            ncon = len({c for c, _ in tr})
            for nw in ((2, 4, 8) if tier != "thorough" else (2, 3, 4, 5, 8, 16)):
                pid_ = len(pool_lines)
                pool_lines.append({"id": pid_, "crate": crate, "workers": nw, "queue": 4096, "batch": 4, "timeout_ms": 5, "dispatchers": [frames], "cap": ncon * (2 if crate == "tcp" else 1),
                                   "perturb": 0, "matcher": crate == "tcp"})
                meta.append({"seq": sid, "crate": crate, "nw": nw, "batch": 4, "tight_capacity": True, "conns": [c for c, _ in tr]})
            # a slow source: the workers run into their idle timeout (5 ms) between any two packets, with full and partial batches
            for (nw, bs) in (((1, 4), (3, 32)) if tier != "thorough" else ((1, 1), (1, 4), (3, 32), (8, 2))):
                pid_ = len(pool_lines)
                pool_lines.append({"id": pid_, "crate": crate, "workers": nw, "queue": 4096, "batch": bs, "timeout_ms": 5, "gap_us": 9000, "dispatchers": [frames],
                                   "perturb": 0, "matcher": crate == "tcp"})
                meta.append({"seq": sid, "crate": crate, "nw": nw, "batch": bs, "slow_source": True, "conns": [c for c, _ in tr]})
    # ---- sequential runs
    seq_res = {}
    for mode in ("tcp", "http", "tls"):
        req = os.path.join(wd, "seq-%s.req" % mode)
        vlib.write_ndjson(req, [l["req"] for l in seq_lines if l["mode"] == mode])
        out = os.path.join(wd, "seq-%s.out" % mode)
        vlib.run_hv(mode, req, out)
        for o in vlib.read_ndjson(out):
            res = []
            for fr in o["out"]:
                if mode == "tcp":
                    if fr["r"] == "ok":
                        c, d = conn_of_result("tcp", fr["res"])
                        if c:
                            res.append({"conn": c, "digest": d})
                elif mode == "http":
                    if fr["r"] == "ok":
                        for k in ("req", "resp"):
                            if fr[k]:
                                res.append({"conn": None, "digest": digest({k: fr[k]})})
                else:
                    if fr["r"] == "some":
                        res.append({"conn": str(sorted([fr["out"]["src"], fr["out"]["dst"]])), "digest": digest(fr["out"]["sig"])})
            seq_res[o["id"]] = res
    # the sequential http path does not report endpoints: attribute by the frame's own endpoints
    # (re-read with endpoints derived from the frame bytes)
    for o in vlib.read_ndjson(os.path.join(wd, "seq-http.out")):
        sl = next(l for l in seq_lines if l["id"] == o["id"])
        frames, ipoff = sl["req"]["frames"], sl["ipoff"]
        res = []
        for fh, fr in zip(frames, o["out"]):
            if fr["r"] != "ok":
                continue
            if not (fr["req"] or fr["resp"]):
                continue
            if fr.get("src"):
                a, z = fr["src"], fr["dst"]                 # as the crate's own packet parser sees them (harness label)
            else:
                b = bytes(14 - ipoff) + bytes.fromhex(fh)       # align the IP header at offset 14 whatever the framing
                a = "%d.%d.%d.%d|%d" % (b[26], b[27], b[28], b[29], (b[34] << 8) | b[35])
                z = "%d.%d.%d.%d|%d" % (b[30], b[31], b[32], b[33], (b[36] << 8) | b[37])
            for k in ("req", "resp"):
                if fr[k]:
                    res.append({"conn": str(sorted([a, z])), "digest": digest({k: fr[k]})})
        seq_res[o["id"]] = res
    # ---- pool runs
    preq = os.path.join(wd, "pool.req")
    vlib.write_ndjson(preq, pool_lines)
    pout = os.path.join(wd, "pool.out")
    vlib.run_hv_split("pool", preq, pout, parts=6, timeout=3000)
    trace = os.path.join(wd, "trace.ndjson")
    n_runs = n_results = 0
    rows = {}
    with open(trace, "w") as f:
        for o in vlib.read_ndjson(pout):
            m = meta[o["id"]]
            if "panic" in o:
                v.violation({"run": m, "observed": "panic: " + o["panic"]})
                continue
            if o.get("skipped"):
                continue
            if o["timed_out"] and any(w["q"] for w in o["stats"]["workers"]):
                v.violation({"run": m, "observed": "packets that were reported queued are still in a queue after 30 s: a worker of the pool no longer takes packets"})
                continue
            # (timed out with empty queues: queued packets vanished; their results are missing in the comparison below)
            # the queues (4096) are far longer than any trace here, so a dropped dispatch is not an overflow: it is a packet the
            # pool refuses to route, and its sequential results will be missing below
            m["refused"] = sum(1 for x in o["outcomes"][0] if x != "queued")
            par = []
            for r_ in o["results"]:
                c, d = conn_of_result(m["crate"], r_)
                if c is None:
                    continue
                par.append({"conn": c if isinstance(c, str) else str(sorted(c)), "digest": d})
            n_runs += 1
            n_results += len(par)
            rows[o["id"]] = (m, par)
            f.write(json.dumps({"id": o["id"], "seq": seq_res[m["seq"]], "par": par}) + "\n")
    # ---- the parallel FRONT END (with_config + init_pool + analyze_pcap): the path a user of parallel mode takes; analyze_pcap
    # returns when the capture has been dispatched, the results are collected until every worker has finished
    fe_lines = []
    for l in seq_lines:
        crate = l["mode"]
        for (nw, bs) in (((2, 8), (1, 32)) if tier != "thorough" else ((1, 1), (1, 32), (2, 8), (4, 4), (7, 16))):
            i = len(meta)
            fe_lines.append({"id": i, "crate": crate + "_par", "frames": l["req"]["frames"], "matcher": crate == "tcp", "cfg": {}, "cap": 1000,
                             "parallel": {"workers": nw, "queue": 4096, "batch": bs, "timeout_ms": 5}})
            meta.append({"seq": l["id"], "crate": crate, "nw": nw, "batch": bs, "front_end": True})
        # and the sequential front end (analyze_pcap without a pool) against the packet-level functions
        i = len(meta)
        fe_lines.append({"id": i, "crate": crate, "frames": l["req"]["frames"], "matcher": crate == "tcp", "cfg": {}, "cap": 1000})
        meta.append({"seq": l["id"], "crate": crate, "nw": 0, "batch": 0, "front_end": True})
    freq = os.path.join(wd, "fe.req")
    vlib.write_ndjson(freq, fe_lines)
    fout = os.path.join(wd, "fe.out")
    vlib.run_hv_split("ana", freq, fout, parts=6, timeout=3000, env={"HV_PCAP_DIR": os.path.join(wd, "pcap")})
    with open(trace, "a") as f:
        for o in vlib.read_ndjson(fout):
            m = meta[o["id"]]
            if "panic" in o:
                v.violation({"run": m, "observed": "panic: " + o["panic"]})
                continue
            if o.get("skipped"):
                continue
            if o.get("hung"):
                v.violation({"run": m, "observed": "the parallel front end does not finish: 10 s after analyze_pcap returned and the last result arrived, the result channel is still open (a worker has not left)"})
                continue
            par = []
            for r_ in o["results"]:
                c, d = conn_of_result(m["crate"], r_)
                if c is None:
                    continue
                par.append({"conn": c if isinstance(c, str) else str(sorted(c)), "digest": d})
            n_runs += 1
            n_results += len(par)
            rows[o["id"]] = (m, par)
            f.write(json.dumps({"id": o["id"], "seq": seq_res[m["seq"]], "par": par}) + "\n")
    r2 = vlib.tlc("TV_C10", pid=PID, workers=8, env={"TRACE": trace}, timeout=1800, heap="10g")

    if tier == "thorough":
        def mut(rows):
            k = next(i for i, r_ in enumerate(rows) if len(r_["par"]) > 1)
            r_ = dict(rows[k])
            r_["par"] = r_["par"][1:]
            return rows[:10] + [r_], "one result delivered by the pool is removed"
        v.binding.append(vlib.binding_demo("TV_C10", trace, mut, PID, workers=4, timeout=900, heap="4g"))
    K = set(vlib.known_devs(PID))
    LOOK = ("8.0.", "134.221.", "2001:db8:800:", "2001:db8:86dd:")
    for b in r2.lines.get("BAD", []):
        m, par = rows[b["id"]]
        # recorded finding: in a capture WITHOUT link-layer header, a frame whose octets 12-13 read 08 00 / 86 dd (they are the first
        # octets of the IPv4 source address, or octets 4-5 of the IPv6 one) is taken for an Ethernet frame by the packet parsers and by
        # the dispatch hashes alike -- each reads garbage in its own way.  Only connections with such an address, only raw framing.
        def lookalike(c):
            return any(a.strip("'[] ").startswith(LOOK) for a in c.replace("|", ",").split(","))
        if link_of.get(m["seq"]) == "raw" and all(lookalike(c) for c in b["conns"]) and "D10_raw_ethertype_lookalike" in K:
            v.known_hit("D10_raw_ethertype_lookalike", "raw-IP capture, sender address beginning 08 00 / 86 dd at frame offset 12 (e.g. 8.0.x.y, 134.221.x.y): the frame is taken for Ethernet by the packet parser and by the dispatch hash, sequential and pool results both wrong and different")
            continue
        v.violation({"crate": m["crate"], "path": "parallel front end (with_config + init_pool + analyze_pcap)" if m.get("front_end") else "WorkerPool", "workers": m["nw"], "batch": m["batch"], "connections_that_differ": b["conns"], "sequential_results": b["nseq"], "pool_results": b["npar"],
                     "sequential": [x for x in seq_res[m["seq"]] if x["conn"] in b["conns"]][:10], "pool": [x for x in par if x["conn"] in b["conns"]][:10]})
    return v.finish("model_checking", {
        "states": statesA + r2.distinct, "transitions": transA + r2.generated, "traces_validated_against_impl": n_runs,
        "evaluations": n_results, "distinct_nontrivial": n_runs,
        "rule": "%d interleaved traces x 3 crates x %d (workers, batch) configurations, each pool run perturbed with its own seed and compared with the sequential analyzer; non-trivial = pool runs" % (n_traces, len(configs)),
        "samples": [{"config": {k: rows[i][0][k] for k in ("crate", "nw", "batch")}, "results": rows[i][1][:3]} for i in list(rows)[:2]],
        "exhaustive": False, "pool_model_states": statesA,
    }, ["queues are larger than the trace, one dispatcher (trace order); WorkerPool runs: no shutdown before all results are in; front-end runs: whatever analyze_pcap does", "clock frozen through hook H1; schedule widened through hook H2",
        "TCP results are attributed to the sending host, HTTP/TLS results to the connection's endpoint pair"])


def replay(path, v):
    return run("quick", v)
