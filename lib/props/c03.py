"""C03 — TCP handshake packets are rendered into the p0f signature their headers define.

B  MC_C03 (TcpExtract.tla over Frames.tla): TLC enumerates header classes (all 256 flag bytes x DF x ID x ECN x reserved bit x
   flow label x seq/ack/urgent zero-ness), all TTLs x version x payload x framing x IHL, and every option sequence of bounded
   length in every padding style, renders each to wire bytes and assigns role, observation, MTU and link label; the real
   parse_packet + process_ipv{4,6}_packet (bundled database as matcher) must report exactly that.  Quirks compare as sets.
C  TV_C03W: detect_win_multiplicator over all 65536 windows for each (mss, header term, timestamps, version) as a lossless
   table; TLC checks every window against TcpExtract!WinClass."""
import json, os
import vlib

PID = "C03"
WHAT = {
    "D03_eol_continues": "the option walk does not stop at the end-of-options marker: padding bytes are rendered as further eol+n / nop entries (pinned by the TCP golden snapshot)",
    "D03_mtu_headers": "link MTU is computed as MSS + IP header + TCP option bytes (or 20) instead of MSS + minimal headers (pinned by the golden snapshot, raw_mtu 1504)",
    "D03_nonhandshake_as_synack": "every valid segment that is not a bare SYN is rendered as a server (SYN+ACK) signature (pinned by the golden snapshot)",
}


def observed_role(o):
    if o["r"] != "ok":
        return "none"
    if o["res"]["syn"]:
        return "syn"
    if o["res"]["syn_ack"]:
        return "synack"
    return "none"


def matches(e, w2, o):
    role = observed_role(o)
    if role != e["role"]:
        return False
    if role == "none":
        return True
    got = o["res"]["syn" if role == "syn" else "syn_ack"]["obs"]
    want = e["obs"][0]
    for f in ("ver", "ittl", "olen", "mss", "wscale", "olayout", "pclass"):
        if got[f] != want[f]:
            return False
    if set(got["quirks"]) != set(want["quirks"]):
        return False
    if got["wsize"] != want["wsize"] and not (w2 and got["wsize"] == w2[0]):
        return False
    m = o["res"]["mtu"]
    if (m["mtu"] if m else -1) != e["mtu"]:
        return False
    if ([m["link"]] if m and m["link"] is not None else []) != e["link"]:
        return False
    return True


def run(tier, v):
    wd = vlib.workdir(PID)
    vlib.build_harness()
    K = set(vlib.known_devs(PID))
    sigs = os.path.join(wd, "sigs.ndjson")
    req = os.path.join(wd, "req.ndjson")
    vlib.write_ndjson(req, [{"op": "db_sigs", "id": 0}])
    vlib.run_hv("db", req, sigs)
    fams = [("hdr4", 1 if tier == "thorough" else 13), ("hdr6", 1 if tier == "thorough" else 7), ("ttl", 1 if tier == "thorough" else 5),
            ("opt", 1 if tier == "thorough" else 1), ("fopt", 1), ("kind", 1), ("mtu", 1), ("mtu-custom", 1)]
    # a database whose [mtu] lists are in no particular order, with a value listed under two labels (the first one wins), the
    # extreme values and neighbours
    custom_db = "\n".join(["classes = win,unix,other", "[mtu]", "label = Ethernet or modem", "sig = 1500", "sig = 1492", "sig = 576", "sig = 1501",
                           "label = DSL", "sig = 1492", "sig = 1454", "sig = 1453", "sig = 1456", "label = odd", "sig = 65535", "sig = 100", "sig = 9000", "sig = 1280", "sig = 68",
                           "label = single", "sig = 1400", "[tcp:request]", "label = s:unix:Any:x", "sig = *:64:0:*:*,*:mss,sok,ts,nop,ws::0"]) + "\n"
    csigs = os.path.join(wd, "sigs-custom.ndjson")
    vlib.write_ndjson(req, [{"op": "db_sigs", "id": 0, "db": custom_db}])
    vlib.run_hv("db", req, csigs)
    maxopts = 4 if tier == "thorough" else 3
    n_cases = n_nontrivial = 0
    texts = {}
    states = trans = 0
    samples = []
    for fam, stride in fams:
        vec = os.path.join(wd, "vec-%s.ndjson" % fam)
        exp = {}
        with open(vec, "w") as f:
            def sink(tag, o):
                if tag != "REPLAY":
                    return
                i = len(exp)
                exp[i] = o
                f.write(json.dumps(dict({"id": i, "op": "frames", "frames": [o["frame"]]}, **({"db": custom_db} if fam == "mtu-custom" else {}))) + "\n")
            r = vlib.tlc("MC_C03", pid=PID, workers=16 if tier == "thorough" else 8, tag_sink=sink, timeout=3000, heap="10g",
                         env={"SIGS": csigs if fam == "mtu-custom" else sigs, "VERIF_FAM": fam.split("-")[0], "VERIF_STRIDE": stride, "VERIF_OFFSET": vlib.seed(), "VERIF_MAXOPTS": maxopts})
        if r.inv_violated:
            raise vlib.ToolError("TcpExtract.tla violates one of its own laws in family %s" % fam)
        states += r.distinct
        trans += r.generated
        out = os.path.join(wd, "obs-%s.ndjson" % fam)
        vlib.run_hv("tcp", vec, out)
        seen = 0
        for o in vlib.read_ndjson(out):
            seen += 1
            e = exp[o["id"]]
            got = o["out"][0]
            n_cases += 1
            n_nontrivial += e["exp"]["role"] != "none"
            if got["r"] == "panic":
                v.violation({"family": fam, "k": e["k"], "frame": vlib_hex(e["frame"]), "observed": "panic: " + got["e"], "expected": e["exp"]})
                continue
            if got["r"] == "ok":
                for role_ in ("syn", "syn_ack"):
                    x = got["res"].get(role_)
                    if x:
                        key = (json.dumps(x["obs"], sort_keys=True), x["text"], x["sigtext"])
                        if key not in texts:
                            texts[key] = {"id": len(texts), "obs": x["obs"], "text": x["text"], "sigtext": x["sigtext"], "frame": vlib_hex(e["frame"])}
            if matches(e["exp"], e["exp"]["wsize2"], got):
                if len(samples) < 3 and e["exp"]["role"] != "none" and n_cases % 997 == 1:
                    samples.append({"family": fam, "frame": vlib_hex(e["frame"]), "role": e["exp"]["role"], "observation": e["exp"]["obs"][0]})
                continue
            hit = None
            for a in sorted(e["alts"], key=lambda a: len(a["devs"])):
                if matches(a["exp"], a["exp"]["wsize2"], got):
                    hit = a["devs"]
                    break
            if hit and set(hit) <= K:
                for d in hit:
                    v.known_hit(d, WHAT[d])
                continue
            v.violation({"family": fam, "k": e["k"], "frame": vlib_hex(e["frame"]), "expected": e["exp"], "observed": got, "matches_deviations": hit})
        if seen != len(exp):
            raise vlib.ToolError("harness answered %d of %d vectors (%s)" % (seen, len(exp), fam))
        if fam == "ttl":
            # the same frames through the unified analyzer (HuginnNet::analyze_tcp, every protocol enabled): for every segment its TCP
            # observation, rendered signature and MTU are those of the TCP analyzer (judged above) -- whatever the payload looks like
            ureq, uout = os.path.join(wd, "uni.req"), os.path.join(wd, "uni.out")
            ids = sorted(exp)
            vlib.write_ndjson(ureq, [{"id": 0, "crate": "uni_direct", "frames": [bytes(exp[i]["frame"]).hex() for i in ids], "matcher": True, "cfg": {}}])
            vlib.run_hv("ana", ureq, uout, env={"HV_PCAP_DIR": os.path.join(wd, "pcap")})
            tcp_by_id = {o["id"]: o["out"][0] for o in vlib.read_ndjson(out)}
            for o in vlib.read_ndjson(uout):
                if "panic" in o:
                    v.violation({"family": fam, "entry": "unified analyzer", "observed": "panic: " + o["panic"]})
                    continue
                for i, u in zip(ids, o["results"]):
                    t = tcp_by_id[i]
                    if t["r"] != "ok":
                        continue
                    n_cases += 1
                    proj = lambda x: {k: (None if x.get(k) is None else {f: x[k].get(f) for f in (("obs", "text") if k != "mtu" else ("mtu", "link"))}) for k in ("syn", "syn_ack", "mtu")}
                    if proj(u) != proj(t["res"]):
                        v.violation({"family": fam, "k": exp[i]["k"], "frame": vlib_hex(exp[i]["frame"]), "entry": "unified analyzer (HuginnNet::analyze_tcp)",
                                     "tcp_analyzer_reports": proj(t["res"]), "unified_analyzer_reports": proj(u)})
    if not samples:
        samples.append({"note": "no sample drawn"})
    # ---- the rendered signature: every distinct (observation, text) pair seen above, judged by TLC against P0fVocab!PrintTcpSig
    ttrace = os.path.join(wd, "text.trace.ndjson")
    vlib.write_ndjson(ttrace, [{"id": t["id"], "obs": t["obs"], "text": t["text"], "sigtext": t["sigtext"]} for t in texts.values()])
    rT = vlib.tlc("TV_C03T", pid=PID, workers=8, env={"TRACE": ttrace}, timeout=1800, heap="8g")
    byid = {t["id"]: t for t in texts.values()}
    for b in rT.lines.get("BAD", []):
        t = byid[b["id"]]
        v.violation({"part": "rendered signature", "frame": t["frame"], "observation": t["obs"], "p0f_text_of_the_observation": b["want"],
                     "display_of_the_matching_observation": b["text"], "display_of_the_signature_handed_to_the_user": b["sigtext"]})
    states += rT.distinct
    trans += rT.generated
    # ---- window classification over all 65536 windows
    msss = [0, 99, 100, 536, 1220, 1400, 1440, 1448, 1460, 8960, 65495, 65496, 65521, 65535] if tier == "thorough" else [0, 99, 100, 1448, 1460, 65535]
    cases = [{"mss": m, "th": th, "ts": ts, "ver": ver} for m in msss for th in (0, 5, 40, 60) for ts in (False, True) for ver in (4, 6)]
    wreq = os.path.join(wd, "win.req")
    vlib.write_ndjson(wreq, [{"id": 0, "op": "win_table", "cases": cases}])
    wout = os.path.join(wd, "win.out")
    vlib.run_hv("tcp", wreq, wout)
    trace = os.path.join(wd, "win.trace.ndjson")
    nwin = 0
    with open(trace, "w") as f:
        for o in vlib.read_ndjson(wout):
            for row in o["rows"]:
                if "panic" in row:
                    v.violation({"part": "window table", "case": row["c"], "observed": "panic: " + row["panic"]})
                    continue
                exc = row["exc"]
                nwin += 65536
                f.write(json.dumps({"c": row["c"], "exc": exc}) + "\n")
    r2 = vlib.tlc("TV_C03W", pid=PID, workers=16 if tier == "thorough" else 8, env={"TRACE": trace}, timeout=3000, heap="10g")
    for b in r2.lines.get("BAD", []):
        v.violation({"part": "window table", "entry": b})
    return v.finish("model_checking", {
        "states": states + r2.distinct, "transitions": trans + r2.generated,
        "traces_validated_against_impl": n_cases + len(cases),
        "evaluations": n_cases + nwin, "distinct_nontrivial": n_nontrivial,
        "rule": "headers: families hdr4/hdr6/ttl/opt/fopt (every flag byte x every pool option)/kind (every unknown option kind, SACK sizes, MSS and scale boundaries) of MC_C03 with strides %s and option sequences of length <= %d (every padding style, SYN and SYN+ACK); "
                "non-trivial = headers for which a signature must be reported; windows: all 65536 windows x %d (mss, header term, timestamp, version) cases through detect_win_multiplicator"
                % (dict(fams), maxopts, len(cases)),
        "samples": samples, "exhaustive": tier == "thorough",
    }, ["quirks are compared as sets (order and duplicates are judged in C13)",
        "window classification priority and candidate divisors are CodeDerived (TcpExtract!WinClass); the 'total header' term of the last MTU candidate is accepted in words or bytes",
        "IPv6 extension headers and IPv4 fragments are outside the quantifier", "Frames!Wire renders headers to bytes; checksums are zero (not validated by the analyzer)"])


def vlib_hex(bs):
    return "".join("%02x" % b for b in bs)


def replay(path, v):
    return run("quick", v)
