"""C14 — packet filters decide exactly the documented boolean function.

Engine A+B: TLC (MC_C14 over Filter.tla) checks the documented laws on the definition for
every configuration x endpoint of the bounded vocabulary and prints, per configuration,
the admit bit of every endpoint; the harness builds the same configuration through the
public builders of the tcp / http / tls crates and reports should_process on the same
universe.  Expected bits are TLC's; a difference is a violation unless it is exactly what a
listed deviation predicts."""
import json, os
import vlib

PID = "C14"
CRATES = ("tcp", "http", "tls")
VIA = 10000000


def run(tier, v):
    wd = vlib.workdir(PID)
    vlib.build_harness()
    K = set(vlib.known_devs(PID))
    tot = {"states": 0, "trans": 0, "vectors": 0, "evaluations": 0, "nontrivial": 0, "wall": 0.0}
    samples = []
    universes = {}
    for fam in ("base", "order"):
        vec_path = os.path.join(wd, "vectors-%s.ndjson" % fam)
        exp = {}
        stat = {}
        with open(vec_path, "w") as f:
            def sink(tag, obj):
                if tag == "STAT":
                    stat.update(obj)
                    f.write(json.dumps({"addrs": obj["addrs"], "ports": obj["ports"]}) + "\n")
                elif tag == "REPLAY":
                    exp[obj["id"]] = (obj["exp"], obj["alt"], obj["cfg"])
                    f.write(json.dumps({"id": obj["id"], "cfg": obj["cfg"]}) + "\n")
                    # the same configuration reached by other builder sequences (the side chosen after the other one had been chosen;
                    # starting from Default instead of new()): what a filter admits depends on what it finally says, not on how it was built
                    if any(x and x[0]["cs"] != x[0]["cd"] for x in (obj["cfg"]["ip"], obj["cfg"]["sub"])) or (obj["id"] % 5 == 0 and (obj["cfg"]["ip"] or obj["cfg"]["sub"])):
                        for via in (1, 2):
                            vid = obj["id"] + VIA * via
                            exp[vid] = (obj["exp"], obj["alt"], dict(obj["cfg"], via=via))
                            f.write(json.dumps({"id": vid, "cfg": dict(obj["cfg"], via=via)}) + "\n")
            # STAT is printed while evaluating ASSUME, i.e. before any REPLAY line
            r = vlib.tlc("MC_C14", pid=PID, workers=16 if tier == "thorough" else 8, tag_sink=sink,
                         env={"VERIF_TIER": tier, "VERIF_FAM": fam}, timeout=3000)
        if r.inv_violated:
            # the *definition* breaks one of its own laws: specification error, not a verdict on the code
            raise vlib.ToolError("Filter.tla violates its laws: %s" % r.inv_violated)
        if len([i for i in exp if i < VIA]) != stat["ncfg"]:
            raise vlib.ToolError("expected %d vectors, TLC printed %d" % (stat["ncfg"], len(exp)))
        out_path = os.path.join(wd, "observed-%s.ndjson" % fam)
        vlib.run_hv("filter", vec_path, out_path)
        nep = stat["nep"]
        universes[fam] = {"configurations": stat["ncfg"], "endpoints": nep}
        tot["states"] += r.distinct
        tot["trans"] += r.generated
        tot["vectors"] += len(exp)
        tot["wall"] += r.wall
        seen = 0
        for o in vlib.read_ndjson(out_path):
            seen += 1
            e, alt, cfg = exp[o["id"]]
            es = "".join(str(b) for b in e)
            if "0" in es and "1" in es:
                tot["nontrivial"] += 1
            if "panic" in o:
                v.violation({"cfg": cfg, "observed": "panic: " + o["panic"], "expected_bits": es})
                continue
            for c in CRATES:
                got = o["res"][c]
                tot["evaluations"] += nep
                if got == es:
                    continue
                hit = None
                for a in alt:
                    if got == "".join(str(b) for b in a["exp"]):
                        hit = a["d"]
                if hit and hit in K:
                    v.known_hit(hit, "PortFilter::{source,destination}_range(0..0) stores (0,0) and admits port 0 (crate %s)" % c)
                    continue
                idx = next(i for i in range(nep) if got[i] != es[i])
                v.violation({"crate": c, "family": fam, "cfg": cfg, "universe": {"addrs": stat["addrs"], "ports": stat["ports"]},
                             "first_differing_endpoint_index": idx, "expected": es[idx], "observed": got[idx],
                             "expected_bits": es, "observed_bits": got,
                             "matches_deviation": hit})
            if len(samples) < 3 and "0" in es and "1" in es:
                samples.append({"cfg": cfg, "admit_bits_prefix": es[:64]})
        if seen != len(exp):
            raise vlib.ToolError("harness answered %d of %d vectors" % (seen, len(exp)))
    return v.finish("model_checking", {
        "states": tot["states"], "transitions": tot["trans"],
        "traces_validated_against_impl": tot["vectors"] * len(CRATES),
        "evaluations": tot["evaluations"], "distinct_nontrivial": tot["nontrivial"],
        "rule": "every configuration of MC_C14's vocabularies (base: port x address x subnet sub-filters incl. 'none', x allow/deny; order: lists with nested, overlapping "
                "and repeated elements in both orders) against every endpoint 4-tuple of the family's universe %s; non-trivial = configurations that admit some endpoints and reject others"
                % universes,
        "samples": samples, "exhaustive": True,
        "laws_checked_by_tlc": ["LawNoFilter", "LawDenyIsNegation", "LawAllowConjunction", "LawCidrExtremes"],
        "tlc_wall_s": round(tot["wall"], 1),
    }, ["TLC's evaluation of Filter.tla is the oracle", "endpoint universe and filter vocabulary are bounded (see MC_C14.tla)",
        "the unified crate re-exports huginn_net_tcp::FilterConfig (same type)"])


def replay(path, v):
    return run("quick", v)
