"""C01 — analysis is total: no input can crash, hang or poison an analyzer.

Input space: (a) MC_C01 (Totality.tla): every (kind, length byte, position) encoding of a TCP option in option areas of every
size, IPv4 and IPv6, SYN and SYN+ACK (all framings in thorough); (b) every truncation, every single-bit flip and byte
overwrites {00,01,7f,80,ff} at every offset of seeds rendered by the other specifications' Wire operators (SYN / SYN+ACK with
options, ClientHello, HTTP/1 request and response, HTTP/2 connection start) and of frames of the repository's captures;
(c) database text: every line of p0f.fp with one token deleted, duplicated or replaced by an out-of-range number, garbled
section headers, signatures before labels.
Entry points: unified analyze_tcp, TCP / HTTP / TLS packet paths, raw filter, dispatch hashes, incremental ClientHello reader,
HTTP/2 fingerprint extractor (incremental and one-shot), HttpProcessors::parse_request / parse_response,
parse_tls_client_hello, Database::from_str, worker pools.  Every call runs under catch_unwind with a 5 s watchdog; every 50
inputs a well-formed probe (new connection) must give on the used instance what it gives on a fresh one."""
import json, os, random, struct, subprocess
import vlib
from props import c10, c08

PID = "C01"
WHAT = {"D01_wscale_no_payload": "a TCP window-scale option with length byte 2 (no payload) or cut off by the end of the option area panics the TCP analyzer (index out of bounds in the option walk)"}


def mutations(seed, rng, tier, full=False, window=None):
    """byte-level mutations of one seed; `window` limits the mutated offsets to the first bytes (headers) of long seeds"""
    out = []
    n = len(seed)
    if window and n > window:
        head = mutations(seed[:window], rng, tier, full)
        return [m + seed[window:] if len(m) == window else m for m in head] + [seed[:k] for k in range(window, n, 61)]
    if full:                                 # every value of every byte (length, count, flag and type fields included)
        for off in range(n):
            for val in range(256):
                if seed[off] != val:
                    m = bytearray(seed)
                    m[off] = val
                    out.append(bytes(m))
    for k in range(n):                       # truncations
        out.append(seed[:k])
    step = 1 if tier == "thorough" or n < 200 else 3
    for off in range(0, n, step):
        for bit in range(8):                 # single-bit flips
            m = bytearray(seed)
            m[off] ^= 1 << bit
            out.append(bytes(m))
        for val in (0x00, 0x01, 0x7f, 0x80, 0xff):
            if seed[off] != val:
                m = bytearray(seed)
                m[off] = val
                out.append(bytes(m))
    if tier == "thorough":
        for _ in range(3000):                # pairwise overwrites in the first 80 bytes
            m = bytearray(seed)
            for _ in range(2):
                m[rng.randrange(min(80, n))] = rng.choice((0, 1, 0x7f, 0x80, 0xff, rng.randrange(256)))
            out.append(bytes(m))
    return out


SPECIAL_NUMBERS = ["NaN", "nan", "inf", "-inf", "infinity", "1e40", "1e-40", "-1", "-0", "+1", "0", "00", "1.", ".5", ".", "", "0x10", "1,0", "4294967295", "4294967296",
                   "65535", "65536", "18446744073709551616", "999999999999999999999999", "0.0000000000000000000000001", "1e", "e1", " 1", "1 "]


def number_mutations(seed):
    """text-level: every number in an HTTP head replaced by every special spelling (quality values, lengths, versions, status)"""
    import re
    out = []
    txt = seed.decode("latin-1")
    for m in re.finditer(r"\d+(?:\.\d+)?", txt):
        for sp in SPECIAL_NUMBERS:
            out.append((txt[:m.start()] + sp + txt[m.end():]).encode("latin-1"))
    return out


def pcap_frames(path, limit):
    fr = []
    try:
        b = open(path, "rb").read()
    except OSError:
        return fr
    if len(b) < 24:
        return fr
    le = b[:4] in (b"\xd4\xc3\xb2\xa1", b"\x4d\x3c\xb2\xa1")
    fmt = "<IIII" if le else ">IIII"
    p = 24
    while p + 16 <= len(b) and len(fr) < limit:
        _, _, incl, _ = struct.unpack(fmt, b[p:p + 16])
        p += 16
        fr.append(b[p:p + incl])
        p += incl
    return fr


def db_mutations(rng, tier):
    text = open(os.path.join(vlib.REPO, "huginn-net-db", "config", "p0f.fp"), encoding="utf-8").read()
    lines = text.splitlines()
    idx = [i for i, l in enumerate(lines) if l.strip() and not l.strip().startswith(";")]
    out = []
    picks = idx if tier == "thorough" else rng.sample(idx, 120)
    for i in picks:
        l = lines[i]
        toks = [t for t in l.replace(",", " , ").replace(":", " : ").split(" ") if t]
        for kind in ("del", "dup", "big"):
            if len(toks) < 2:
                continue
            k = rng.randrange(len(toks))
            t2 = list(toks)
            if kind == "del":
                del t2[k]
            elif kind == "dup":
                t2.insert(k, t2[k])
            else:
                t2[k] = rng.choice(("256", "65536", "99999999999", "-1", "18446744073709551616"))
            nl = " ".join(t2).replace(" , ", ",").replace(" : ", ":")
            # keep the mutated line in a small database so that each input is cheap
            ctx = [lines[j] for j in idx if j < i and (lines[j].startswith("[") or lines[j].startswith("label"))][-2:]
            out.append("\n".join(ctx + [nl]) + "\n")
    out += ["[tcp:request\nlabel = s:unix:x:y\n", "[]\n", "sig = 4:64:0:*:*,0:mss::0\n", "[tcp:request]\nsig = 4:64:0:*:*,0:mss::0\n", "label = x\n", "[mtu]\nsig = 1500\n",
            "classes = \n", "ua_os = ,,,=\n", "\x00\x01\x02\n", "[http:request]\nlabel = s:!:a:\nsig = 1:" + "A," * 5000 + "B::\n", text[: len(text) // 2], text + text]
    return out


def run(tier, v):
    wd = vlib.workdir(PID)
    vlib.build_harness()
    K = set(vlib.known_devs(PID))
    rng = random.Random(vlib.seed())
    # ---- (a) option encodings from TLC
    optframes, h2shapes, tlsshapes = [], [], []
    tlsmeta = []
    sink = {"REPLAY": lambda o: optframes.append(bytes(o["f"])), "H2": lambda o: h2shapes.append(bytes(o["b"])), "TLS": lambda o: (tlsshapes.append(bytes(o["b"])), tlsmeta.append((bytes(o["b"]), o["field"], o["delta"])))}
    r = vlib.tlc("MC_C01", pid=PID, workers=8, tags=("REPLAY", "H2", "TLS"), tag_sink=lambda tag, o: sink[tag](o), env={"VERIF_TIER": tier}, timeout=3000, heap="10g", coverage=False)
    if not (optframes and h2shapes and tlsshapes):
        raise vlib.ToolError("MC_C01 produced no inputs for one family")
    # well-formed option sequences with boundary values (MSS 0, scale 14/15/255, repeated options, every unknown kind), so that
    # the arithmetic behind extraction AND signature matching is exercised on them
    sigs = os.path.join(wd, "sigs.ndjson")
    sreq = os.path.join(wd, "sigs.req")
    vlib.write_ndjson(sreq, [{"op": "db_sigs", "id": 0}])
    vlib.run_hv("db", sreq, sigs)
    for fam in ("opt", "kind"):
        vlib.tlc("MC_C03", pid=PID, workers=8, tag_sink=lambda tag, o: optframes.append(bytes(o["frame"])) if tag == "REPLAY" else None, timeout=3000, heap="10g", coverage=False,
                 env={"SIGS": sigs, "VERIF_FAM": fam, "VERIF_STRIDE": 1, "VERIF_OFFSET": 0, "VERIF_MAXOPTS": 3 if tier != "thorough" else 4})
    h2shapes = sorted(set(h2shapes))
    tlsshapes = sorted(set(tlsshapes))
    # ---- (b) seeds from the specifications' Wire operators and from the repository's captures
    seeds = {"frame": [], "hello": [], "h1req": [], "h1resp": [], "h2": []}
    tr = c10.build_traces(rng, 2)
    seeds["frame"] += [tr["tcp"][0][1], tr["tcp"][1][1], tr["http"][2][1], tr["tls"][0][1]]
    H = c10.hello("seed.example")
    seeds["hello"].append(H)
    seeds["frame"].append(c10.frame((10, 3, 0, 1), (10, 3, 0, 2), 40123, 443, 1, 1, 0x18, H, ipid=77))
    seeds["h1req"].append(b"GET /index.html HTTP/1.1\r\nHost: www.example.com\r\nUser-Agent: Mozilla/5.0\r\nAccept-Language: en-US,en;q=0.5\r\nCookie: a=1; b=2\r\n\r\nbody")
    seeds["h1req"].append(b"POST /p?x=1 HTTP/1.0\r\nHost: h\r\nAccept-Language: de;q=0.8, fr;q=0.7, es;q=0.25, en\r\nContent-Length: 4\r\nRange: bytes=0-5\r\n\r\nbody")
    seeds["h1resp"].append(b"HTTP/1.1 200 OK\r\nServer: Apache\r\nContent-Type: text/html\r\nContent-Length: 4\r\n\r\nbody")
    h2 = []
    vlib.tlc("MC_C17", pid=PID, workers=4, tag_sink=lambda tag, o: h2.append(bytes(o["bytes"])), timeout=1800, heap="10g", coverage=False)
    h2 = sorted(set(h2), key=len)
    seeds["h2"] += [h2[len(h2) // 2], h2[-1]]
    seeds["frame"].append(c10.frame((10, 3, 0, 1), (10, 3, 0, 2), 40124, 80, 1, 1, 0x18, h2[-1], ipid=78))
    pdir = os.path.join(vlib.REPO, "pcap")
    for name in sorted(os.listdir(pdir)) if os.path.isdir(pdir) else []:
        fr = pcap_frames(os.path.join(pdir, name), 60 if tier == "thorough" else 12)
        seeds["frame"] += fr[::3] if tier == "thorough" else fr[:3]
    inputs = {k: [] for k in ("frame", "hello", "h1req", "h1resp", "h2")}
    for kind, ss in seeds.items():
        for k, s in enumerate(ss):
            # every byte value at every offset: always for the parser-level seeds, for the spec-rendered frames in thorough
            full = (kind != "frame" and len(s) <= 600) or (tier == "thorough" and kind == "frame" and k < 6)
            # captured frames are long: mutate their headers (Ethernet + IP + TCP + options and the first payload bytes) only
            inputs[kind] += mutations(s, rng, tier, full, window=(160 if kind == "frame" and k >= 6 else None)) + [s]
    for s_ in seeds["h1req"]:
        inputs["h1req"] += number_mutations(s_)
    for s_ in seeds["h1resp"]:
        inputs["h1resp"] += number_mutations(s_)
    inputs["frame"] += optframes
    # the structured malformed spaces of Totality.tla: as parser input and as the payload of a segment of a tracked connection
    inputs["h2"] += h2shapes
    inputs["hello"] += tlsshapes
    step = 1 if tier == "thorough" else 4
    conns = []
    for i, b in enumerate(h2shapes[::step]):     # a tracked connection per shape: SYN, the shape from the client, the shape from the server
        cp = 1025 + (i % 60000)
        ca = (10, 3, 1 + i // 60000, 1)
        conns.append([c10.frame(ca, (10, 3, 0, 2), cp, 80, 100, 0, 0x02, opts=b"\x02\x04\x05\xb4", ipid=i & 0xffff), c10.frame(ca, (10, 3, 0, 2), cp, 80, 101, 1, 0x18, b, ipid=i & 0xffff),
                      c10.frame((10, 3, 0, 2), ca, 80, cp, 1, 101 + len(b), 0x18, b, ipid=i & 0xffff)])
    inputs["frame"] += [c10.frame((10, 3, 2, 1), (10, 3, 0, 2), 41000 + (i % 20000), 443, 1, 1, 0x18, b, ipid=i & 0xffff) for i, b in enumerate(tlsshapes)]
    # the shortest payloads there are: 1 to 6 octets beginning like a TLS record of every content type (and like nothing), as a zero-window
    # probe or a segment cut by the sender would carry them
    shorts = [bytes([t]) + bytes([3, 3, 0, 5, 1])[:n] for t in (0x14, 0x15, 0x16, 0x17, 0x18, 0x00, 0x80, 0xff) for n in range(0, 6)]
    inputs["hello"] += shorts
    inputs["frame"] += [c10.frame((10, 3, 4, 1), (10, 3, 0, 2), 43000 + i, 443, 1, 1, 0x18, b, ipid=i) for i, b in enumerate(shorts)]
    inputs["frame"] += [c10.frame6(bytes([0x20, 1, 0xd, 0xb8] + [0] * 11 + [4]), bytes([0x20, 1, 0xd, 0xb8] + [0] * 11 + [2]), 43100 + i, 443, 1, 1, 0x18, b) for i, b in enumerate(shorts)]
    for k in inputs:
        rng.shuffle(inputs[k])
    rng.shuffle(conns)
    # tracked connections whose segments carry ARBITRARY sequence numbers (retransmissions, wild values spread over the whole 32-bit
    # space, values around the wrap), none completing a message: whatever is buffered and however it is ordered, no call may fail
    for ci, (dport, payload) in enumerate(((80, b"GET /s HTTP/1.1\r\nX-Pad: "), (80, b"HTTP/1.1 200 OK\r\nX-Pad: "), (443, bytes([0x16, 3, 1, 0x40, 0, 1, 0, 0x3f, 0xfc])))):
        for spread in (1, 3, 7):
            ca = (10, 3, 7, 1 + ci * 3 + spread % 3)
            cp = 42000 + ci * 10 + spread
            seqs = [rng.choice([0, 0x55555555, 0xAAAAAAAA, 0xFFFFFF00, 0x7FFFFFF0, 0x80000010][:2 * spread]) + rng.randrange(0, 4000) for _ in range(72)]
            c = [c10.frame(ca, (10, 3, 0, 2), cp, dport, 100, 0, 0x02, opts=b"\x02\x04\x05\xb4", ipid=1)]
            for k, sq in enumerate(seqs):
                src, dst, sp, dp = (ca, (10, 3, 0, 2), cp, dport) if (ci != 1) else ((10, 3, 0, 2), ca, dport, cp)
                c.append(c10.frame(src, dst, sp, dp, sq, 1, 0x18, (payload if k == 0 else b"") + bytes([97 + k % 26]) * 40, ipid=2 + k))
            conns.append(c)
    rng.shuffle(conns)
    inputs["frame"] += [f for c in conns for f in c]          # kept in order within a connection
    # ---- probes (client 10.99.0.1 is re-addressed by the harness for every round)
    cip, sip = (10, 99, 0, 1), (10, 98, 0, 1)
    synopts = b"\x02\x04\x05\xb4\x04\x02\x08\x0a\x00\x00\x10\x00\x00\x00\x00\x00\x01\x03\x03\x07"
    R = b"GET /probe HTTP/1.1\r\nHost: probe.example\r\nUser-Agent: probe/1.0\r\n\r\n"
    S = b"HTTP/1.1 200 OK\r\nServer: probe-srv\r\n\r\nok"
    PH = c10.hello("probe.example")
    probe_conn = [c10.frame(cip, sip, 45000, 80, 100, 0, 0x02, opts=synopts, ipid=5), c10.frame(sip, cip, 80, 45000, 900, 101, 0x12, opts=synopts, ipid=6),
                  c10.frame(cip, sip, 45000, 80, 101, 901, 0x18, R, ipid=7), c10.frame(sip, cip, 80, 45000, 901, 101 + len(R), 0x18, S, ipid=8)]
    probe_tls = [c10.frame(cip, sip, 45001, 443, 101, 901, 0x18, PH[:30], ipid=9), c10.frame(cip, sip, 45001, 443, 131, 901, 0x18, PH[30:], ipid=10)]
    probes = {"tcp": probe_conn[:2], "http": probe_conn, "tls": probe_tls, "uni": probe_conn + [c10.frame(cip, sip, 45002, 443, 101, 901, 0x18, PH, ipid=11)],
              "reader": [PH[:30], PH[30:]], "extractor": [h2[0]], "hreq": [R], "hresp": [S], "hello": [PH], "akamai": [h2[0]], "filter": [probe_conn[0]], "hash": [probe_conn[0]]}
    lines = []
    chunk = 2000

    def add(entry, items):
        for c in range(0, len(items), chunk):
            lines.append({"id": len(lines), "entry": entry, "inputs": [x.hex() if entry != "db" else x for x in items[c:c + chunk]], "probe": [p.hex() for p in probes.get(entry, [])], "probe_every": 50})
    for entry in ("tcp", "http", "tls", "uni", "filter", "hash"):
        add(entry, inputs["frame"])
    add("reader", inputs["hello"])
    add("hello", inputs["hello"])
    add("extractor", inputs["h2"])
    add("akamai", inputs["h2"])
    add("hreq", inputs["h1req"] + inputs["h2"])
    add("hresp", inputs["h1resp"] + inputs["h2"])
    add("db", db_mutations(rng, tier))
    req = os.path.join(wd, "tot.req")
    out = os.path.join(wd, "tot.out")
    exe = vlib.build_harness()
    # the request lines are independent (each has its own instances): run them on several harness processes side by side
    parts = 12 if tier == "thorough" else 4
    procs = []
    for k in range(parts):
        pi = "%s.part%d" % (req, k)
        vlib.write_ndjson(pi, lines[k::parts])
        procs.append((pi, subprocess.Popen([exe, "tot"], stdin=open(pi, "rb"), stdout=open(pi + ".out", "wb"), stderr=subprocess.PIPE)))
    with open(out, "wb") as fo:
        for pi, p in procs:
            _, err = p.communicate(timeout=6000)
            if p.returncode not in (0, 3):
                raise vlib.ToolError("harness tot exited %d: %s" % (p.returncode, err.decode(errors="replace")[-2000:]))
            with open(pi + ".out", "rb") as f:
                fo.write(f.read())
            os.remove(pi)
            os.remove(pi + ".out")
    n_inputs = n_ok = n_err = 0
    trace = os.path.join(wd, "trace.ndjson")
    with open(trace, "w") as f:
        for o in vlib.read_ndjson(out):
            ln = lines[o["id"]]
            if "hang_at" in o:
                v.violation({"entry": ln["entry"], "input": ln["inputs"][o["hang_at"]], "observed": "no return within 5 s (watchdog)"})
                continue
            n_inputs += o["n"]
            n_ok += o["ok"]
            n_err += o["err"]
            f.write(json.dumps({"id": o["id"], "entry": o["entry"], "n": o["n"], "npanic": len(o["panics"]), "nprobe_bad": len(o["probe_bad"])}) + "\n")
            for pn in o["panics"]:
                inp = ln["inputs"][pn["i"]]
                if ln["entry"] in ("tcp", "uni") and "D01_wscale_no_payload" in K and "index out of bounds" in json.dumps(pn["e"]):
                    v.known_hit("D01_wscale_no_payload", WHAT["D01_wscale_no_payload"])
                    continue
                v.violation({"entry": ln["entry"], "input": inp, "observed": "panic: %s" % pn["e"]})
            for pb in o["probe_bad"]:
                v.violation({"entry": ln["entry"], "observed": "a well-formed probe gives a different result on the used instance", "after_input_index": pb["after_input"],
                             "inputs_before": ln["inputs"][max(0, pb["after_input"] - 50):pb["after_input"] + 1][:60], "fresh": pb["fresh"], "used": pb["used"]})
    # ---- not poisoned per connection either: a COMPLETE handshake record that is wrong inside (one inner length field off) must leave
    # nothing behind on its 4-tuple: a well-formed ClientHello that follows on the same 4-tuple is reported as on a fresh instance
    good = c10.hello("after.example")
    pair_lines = [{"id": 0, "op": "packets", "frames": [c10.frame((10, 4, 0, 1), (10, 4, 0, 2), 42000, 443, 1, 1, 0x18, good, ipid=1).hex()]}]
    pmeta = {}
    for k, (b, field, delta) in enumerate(sorted(set(tlsmeta))):
        if field in ("rec", "text") or delta == 0:
            continue                     # a wrong record length makes the record incomplete or leaves a tail: stream semantics, not an error
        cp = 42001 + k
        pair_lines.append({"id": k + 1, "op": "packets", "frames": [c10.frame((10, 4, 0, 1), (10, 4, 0, 2), cp, 443, 1, 1, 0x18, b, ipid=2).hex(),
                                                                     c10.frame((10, 4, 0, 1), (10, 4, 0, 2), cp, 443, 1 + len(b), 1, 0x18, good, ipid=3).hex()]})
        pmeta[k + 1] = (field, delta, b)
    preq2 = os.path.join(wd, "pair.req")
    vlib.write_ndjson(preq2, pair_lines)
    pout2 = os.path.join(wd, "pair.out")
    vlib.run_hv("tls", preq2, pout2)
    want_sig = None
    for o in vlib.read_ndjson(pout2):
        if o["id"] == 0:
            want_sig = o["out"][0]["out"]["sig"] if o["out"][0]["r"] == "some" else None
            if want_sig is None:
                raise vlib.ToolError("the reference ClientHello is not reported on a fresh instance")
            continue
        field, delta, b = pmeta[o["id"]]
        last = o["out"][-1]
        n_inputs += 2
        if last["r"] == "panic":
            v.violation({"entry": "tls (same 4-tuple)", "input": b.hex(), "observed": "panic: %s" % last.get("e")})
        elif last["r"] != "some" or last["out"]["sig"] != want_sig:
            v.violation({"entry": "tls (same 4-tuple)", "first_segment": b.hex(), "what_is_wrong_in_it": "length field `%s` off by %d" % (field, delta),
                         "observed": "the well-formed ClientHello that follows on the same 4-tuple is not reported as on a fresh instance (%s)" % last["r"]})
    # pools: dispatch a slice of the mutated frames followed by a probe connection; the probe's results must arrive (worker liveness)
    pool_lines = []
    sl = inputs["frame"][: (4000 if tier == "thorough" else 600)]
    for crate in ("tcp", "http", "tls"):
        for nw in (1, 3):
            pr = {"tcp": probe_conn[:2], "http": probe_conn, "tls": probe_tls}[crate]
            pool_lines.append({"id": len(pool_lines), "crate": crate, "workers": nw, "queue": 100000, "batch": 4, "timeout_ms": 5, "dispatchers": [[x.hex() for x in sl] + [p.hex() for p in pr]], "matcher": True})
    preq = os.path.join(wd, "pool.req")
    vlib.write_ndjson(preq, pool_lines)
    pout = os.path.join(wd, "pool.out")
    vlib.run_hv("pool", preq, pout, timeout=3000)
    for o in vlib.read_ndjson(pout):
        pl = pool_lines[o["id"]]
        if "panic" in o or o.get("timed_out"):
            v.violation({"entry": "pool " + pl["crate"], "workers": pl["workers"], "observed": o.get("panic", "workers did not drain their queues (a worker thread died or hangs)")})
            continue
        n_inputs += len(pl["dispatchers"][0])
        txt = json.dumps(o["results"])
        want = {"tcp": "10.99.0.1|45000", "http": "probe-srv", "tls": "probe.example"}[pl["crate"]]
        if want not in txt:
            v.violation({"entry": "pool " + pl["crate"], "workers": pl["workers"], "observed": "the probe connection dispatched after the mutated frames produced no result (worker dead or state poisoned)"})
    # ---- capture files through analyze_pcap of the four analyzers (each on a thread of its own, 5 s watchdog): every truncation of
    # a valid capture file (every octet count in thorough, every record boundary +-2 and a stride otherwise), every octet of the file
    # header and of the first two record headers overwritten (0, 255, top bit flipped), and the files MC_X04 generates (Capture.tla)
    from props import x04
    cframes = [bytes(f) for f in json.load(open(x04.frames_input(wd)))["eth"]]
    files = []
    for order, magic in (("<", 0xa1b2c3d4), (">", 0xa1b23c4d)):
        whole = x04.capture_bytes(cframes, order, magic)
        bounds, at = set(), 24
        for f_ in cframes:
            bounds |= {at + d for d in (-2, -1, 0, 1, 2, 8, 15, 16, 17)}
            at += 16 + len(f_)
        cuts = range(len(whole) + 1) if tier == "thorough" else sorted({n for n in bounds if 0 <= n <= len(whole)} | set(range(0, len(whole), 23)) | {len(whole) - 1})
        files += [whole[:n] for n in cuts]
        second = 24 + 16 + len(cframes[0])
        for off in list(range(24 + 16)) + list(range(second, second + 16)):
            for val in (0, 255, whole[off] ^ 0x80):
                if val != whole[off]:
                    files.append(whole[:off] + bytes([val]) + whole[off + 1:])
    xcases = []
    vlib.tlc("MC_X04", pid=PID, workers=8, env={"FRAMES": x04.frames_input(wd)}, timeout=900, coverage=False, tag_sink=lambda tag, o: xcases.append(bytes(o["file"])) if tag == "REPLAY" else None)
    files += sorted(set(xcases))
    cap_lines = [{"id": k, "crate": crate, "file": fb.hex(), "matcher": True, "cfg": {}, "frames": []} for k, (fb, crate) in enumerate((fb, c) for fb in files for c in ("tcp", "http", "tls", "uni"))]
    creq, cout = os.path.join(wd, "capture.req"), os.path.join(wd, "capture.out")
    vlib.write_ndjson(creq, cap_lines)
    vlib.run_hv_split("ana", creq, cout, parts=8, timeout=3000, env={"HV_PCAP_DIR": os.path.join(wd, "pcap")})
    for o in vlib.read_ndjson(cout):
        ln = cap_lines[o["id"]]
        if o.get("skipped"):
            continue
        n_inputs += 1
        n_ok += o.get("ok") is True
        n_err += o.get("ok") is False
        if "panic" in o:
            v.violation({"entry": "analyze_pcap (%s)" % ln["crate"], "capture_file": ln["file"], "observed": "panic: %s" % o["panic"]})
        elif o.get("hung"):
            v.violation({"entry": "analyze_pcap (%s)" % ln["crate"], "capture_file": ln["file"], "observed": "no return within 5 s (watchdog); %d results had arrived" % len(o["results"])})
    return v.finish("exploration", {
        "evaluations": n_inputs, "distinct_nontrivial": n_ok,
        "rule": "inputs: %d TCP option encodings, %d HTTP/2 frame shapes (type x flags x stream x length x first byte x declared-length error) and %d ClientHello length-field errors from MC_C01, all truncations / bit flips / byte overwrites (every value for parser-level seeds) of %d seeds, database text mutations, %d capture files (truncations, header corruptions, MC_X04); entry points tcp, http, tls, unified, filter, hash, reader, extractor, one-shot parsers, database loader, pools, analyze_pcap; "
                "a probe every 50 inputs; non-trivial = calls that returned a value (%d returned an error value)" % (len(optframes), len(h2shapes), len(tlsshapes), sum(len(s) for s in seeds.values()), len(files), n_err),
        "samples": [{"entry": "tcp", "input": inputs["frame"][0].hex()}, {"entry": "db", "input": lines[-1]["inputs"][0][:200]}],
        "states": r.distinct, "transitions": r.generated, "traces_validated_against_impl": len(lines),
    }, ["panics are caught with catch_unwind in the harness (built with overflow checks on); hangs by a 5 s watchdog", "probe connections use fresh endpoints for every round; their reported endpoints are masked in the comparison",
        "for the stream readers the probe runs after reset()"])


def replay(path, v):
    return run("quick", v)
