"""C06 — signature text round-trips and the database loads losslessly.

(a) MC_C06a: TLC enumerates signature values over the p0f vocabulary with their canonical text
    (P0fVocab.Print*); harness: Display(value) must equal the text, FromStr(text) must give the value back.
(b) every `sig` line of the bundled p0f.fp: Display(FromStr(line)) == line.
(c,d) MC_C06c: every database text of <= Depth lines as a behaviour of DbLoad.tla with the structure the
    specification assigns (or rejection); harness: Database::from_str on the same text.
(e) TV_C06: the bundled file's lines as a trace of DbLoad; the final state must equal the Database the code
    loads (323 signatures under their labels and sections, MTU groups, classes, ua rules)."""
import json, os, re
import vlib

PID = "C06"


def gen_values(tier, wd):
    stride = 1 if tier == "thorough" else 61
    vec = os.path.join(wd, "values.ndjson")
    exp = {}
    stat = {}
    with open(vec, "w") as f:
        def sink(tag, o):
            if tag == "STAT":
                stat.update(o)
                return
            i = len(exp)
            exp[i] = o
            f.write(json.dumps({"op": "http_sig" if o["fam"] == "http" else "tcp_sig", "id": i, "v": o["v"], "text": o["text"]}) + "\n")
        r = vlib.tlc("MC_C06a", pid=PID, workers=16 if tier == "thorough" else 8, tag_sink=sink,
                     env={"VERIF_STRIDE": stride, "VERIF_OFFSET": vlib.seed()}, timeout=3000)
    if r.inv_violated:
        raise vlib.ToolError("P0fVocab.Print is not injective on the enumerated vocabulary (%s)" % r.inv_violated)
    return vec, exp, stat, r


def gen_dbs(tier, wd):
    depth = 5 if tier == "thorough" else 4
    vec = os.path.join(wd, "dbs.ndjson")
    exp = {}
    with open(vec, "w") as f:
        def sink(tag, o):
            i = len(exp)
            exp[i] = o
            f.write(json.dumps({"op": "db_load", "id": i, "text": "\n".join(o["lines"]) + "\n"}) + "\n")
        r = vlib.tlc("MC_C06c", pid=PID, workers=16 if tier == "thorough" else 8, tag_sink=sink,
                     env={"VERIF_DEPTH": depth}, timeout=3000)
    if r.inv_violated:
        raise vlib.ToolError("DbLoad.tla violates its own invariants (%s)" % r.inv_violated)
    vlib.require_no_zero_actions(r)
    return vec, exp, r


def bundled_lines():
    """(section, key, value, raw) for every non-comment line of the bundled database (lexing only)."""
    path = os.path.join(vlib.REPO, "huginn-net-db", "config", "p0f.fp")
    sec = ""
    out = []
    for raw in open(path, encoding="utf-8"):
        line = raw.strip()
        if not line or line.startswith(";"):
            out.append({"kind": "comment", "raw": line})
            continue
        if line.startswith("classes") or line.startswith("ua_os"):
            key, val = [x.strip() for x in line.split("=", 1)]
            if key == "classes":
                out.append({"kind": "classes", "raw": line, "items": val.split(",")})
            else:
                items = []
                for it in val.split(","):
                    kv = [x.strip() for x in it.split("=", 1)]
                    br = len(kv) == 2 and kv[1].startswith("[") and kv[1].endswith("]")
                    items.append({"k": kv[0], "v": [kv[1][1:-1]] if br else kv[1:], "br": br})
                out.append({"kind": "ua_os", "raw": line, "items": items})
            continue
        if line.startswith("[") and line.endswith("]"):
            sec = line[1:-1]
            out.append({"kind": "section", "raw": line, "name": sec})
            continue
        key, val = [x.strip() for x in line.split("=", 1)]
        if key == "label":
            out.append({"kind": "label", "raw": line, "text": val, "sec": sec})
        elif key == "sig":
            out.append({"kind": "sig", "raw": line, "text": val, "ty": "any", "n": int(val) if val.isdigit() and len(val) < 9 else 0, "sec": sec})
        else:
            out.append({"kind": "sys", "raw": line})
    return out


def run(tier, v):
    wd = vlib.workdir(PID)
    vlib.build_harness()
    K = set(vlib.known_devs(PID))
    samples = []
    # ---- (a) values
    vec, exp, stat, r1 = gen_values(tier, wd)
    obs = os.path.join(wd, "values.out")
    vlib.run_hv("db", vec, obs)
    n_val = 0
    for o in vlib.read_ndjson(obs):
        n_val += 1
        e = exp[o["id"]]
        if "panic" in o:
            v.violation({"part": "value", "value": e["v"], "text": e["text"], "observed": "panic: " + o["panic"]})
            continue
        bad = []
        if o["disp"] != e["text"]:
            bad.append("Display(value) = %r, canonical text %r" % (o["disp"], e["text"]))
        if o["parsed"] is None:
            bad.append("canonical text does not parse")
        elif o["parsed"] != e["v"]:
            bad.append("parse(text) is a different value")
        if bad:
            if e["fam"] != "http" and len(e["v"]["olayout"]) == 0 and "D06_empty_olayout" in K and o["disp"] == e["text"] and o["parsed"] is None:
                v.known_hit("D06_empty_olayout", "a TCP signature with an empty option layout prints to text the parser rejects")
                continue
            v.violation({"part": "value", "value": e["v"], "text": e["text"], "observed": o, "why": bad})
        if len(samples) < 2:
            samples.append({"value": e["v"], "text": e["text"]})
    if n_val != len(exp):
        raise vlib.ToolError("harness answered %d of %d value vectors" % (n_val, len(exp)))
    # ---- (b) bundled lines
    bl = bundled_lines()
    lv = os.path.join(wd, "lines.ndjson")
    sigs = [l for l in bl if l["kind"] == "sig" and l["sec"] != "mtu"]
    vlib.write_ndjson(lv, [{"op": "tcp_line" if l["sec"].startswith("tcp") else "http_line", "id": i, "text": l["text"]} for i, l in enumerate(sigs)])
    lo = os.path.join(wd, "lines.out")
    vlib.run_hv("db", lv, lo)
    n_lines = 0
    for o in vlib.read_ndjson(lo):
        n_lines += 1
        l = sigs[o["id"]]
        if o.get("redisp") != l["text"]:
            v.violation({"part": "bundled line", "line": l["raw"], "Display(parse(line))": o.get("redisp"), "panic": o.get("panic")})
    # ---- (c,d) generated databases
    vec, dexp, r2 = gen_dbs(tier, wd)
    dobs = os.path.join(wd, "dbs.out")
    vlib.run_hv("db", vec, dobs)
    n_db = n_err = 0
    for o in vlib.read_ndjson(dobs):
        n_db += 1
        e = dexp[o["id"]]
        if "panic" in o:
            v.violation({"part": "database", "lines": e["lines"], "observed": "panic: " + o["panic"]})
            continue
        if e["err"]:
            n_err += 1
            if o["ok"]:
                v.violation({"part": "database", "lines": e["lines"], "expected": "rejected", "observed": o["db"]})
        elif not o["ok"]:
            v.violation({"part": "database", "lines": e["lines"], "expected": e["exp"], "observed": "rejected"})
        elif o["db"] != e["exp"]:
            v.violation({"part": "database", "lines": e["lines"], "expected": e["exp"], "observed": o["db"]})
    if n_db != len(dexp):
        raise vlib.ToolError("harness answered %d of %d database vectors" % (n_db, len(dexp)))
    samples.append({"database_lines": dexp[len(dexp) // 2]["lines"], "rejected": dexp[len(dexp) // 2]["err"]})
    # ---- (e) bundled file as a trace of DbLoad
    tr = os.path.join(wd, "bundled.trace.ndjson")
    vlib.write_ndjson(tr, [{"op": "db_default", "id": 0}])
    bo = os.path.join(wd, "bundled.out")
    vlib.run_hv("db", tr, bo)
    loaded = next(vlib.read_ndjson(bo))
    vlib.write_ndjson(tr, [{"kind": "loaded", "db": loaded.get("db"), "ok": loaded.get("ok", False)}] + bl)
    r3 = vlib.tlc("TV_C06", pid=PID, workers=1, dfs=True, env={"TRACE": tr, "KNOWN": ",".join(sorted(K & {"D06_ua_os_truncated"}))}, coverage=False, timeout=600)
    verdicts = r3.lines.get("VERDICT", [])
    if not verdicts:
        raise vlib.ToolError("TV_C06 printed no verdict")
    vd = verdicts[-1]
    if not vd["ok"] and vd["known"]:
        v.known_hit("D06_ua_os_truncated", "the bundled `ua_os` line is loaded only up to its first bracketed value (3 of 9 rules, `iOS` without its pattern)")
    elif not vd["ok"]:
        v.violation({"part": "bundled database", "trace": tr, "detail": vd})
    return v.finish("model_checking", {
        "states": r1.distinct + r2.distinct + r3.distinct, "transitions": r1.generated + r2.generated + r3.generated,
        "traces_validated_against_impl": n_val + n_lines + n_db + 1,
        "evaluations": n_val + n_lines + n_db + 1,
        "distinct_nontrivial": n_val + n_db - 1,
        "rule": "values: every %s-th value of MC_C06a's vocabulary (families tcpA %d, tcpB %d, http %d values); lines: every sig line of the bundled p0f.fp (%d); "
                "databases: every line sequence of length <= %d over MC_C06c's pool (%d, of which %d must be rejected); plus the bundled file (%d lines) as one DbLoad trace. "
                "All are distinct by construction; non-trivial = all but the empty database"
                % (stat.get("stride"), stat.get("na", 0), stat.get("nb", 0), stat.get("nhttp", 0), n_lines, 5 if tier == "thorough" else 4, n_db, n_err, len(bl)),
        "samples": samples, "exhaustive": tier == "thorough",
        "bundled_trace_states": r3.distinct,
    }, ["P0fVocab.Print* is the canonical text (TLC checks injectivity on the enumerated values)",
        "DbLoad.tla: a `sig` line is only generated where every reading agrees on its label",
        "bounded vocabulary and line pool (MC_C06a.tla, MC_C06c.tla)"])


def replay(path, v):
    return run("quick", v)
