"""C18 — dispatch keeps connections together and accounts for every packet exactly once.

A  MC_Pool (Pool.tla): every interleaving of 2 concurrent dispatchers and 2-3 workers with batching, queue capacities 0/1/2,
   per-crate counter conventions: at-most-once, dropped-never-analysed, queued-analysed-once at quiescence, counters agree;
   a seeded mis-routing makes SequentialEquivalence fail (anti-vacuity).
B  affinity: MC_C18 generates families of frames sharing one identity while every other field varies (incl. IP header lengths
   0..15, truncation, direction); the three dispatch hashes are evaluated for every worker count 1..64 and TLC checks that the
   worker is a function of the identity and a valid index (TV_C18a).
C  accounting: real pools (tcp/http/tls) driven by 1-3 concurrent dispatcher threads, queue sizes 0/1/4, 1-4 workers, batch 1-3,
   seeded schedule perturbation (hook H2); the recorder's global event order (dispatch start/end, worker takes packet) and the
   final statistics are trace-validated by TLC against the pool's steps (TV_Pool)."""
import json, os, random
import vlib

PID = "C18"


def fnv(b):
    h = 0xcbf29ce484222325
    for x in b:
        h ^= x
        h = (h * 0x100000001b3) & 0xffffffffffffffff
    return "%016x" % h


def frame(src, dst, sport, dport, ipid, flags=0x18, payload=b"", proto=6):
    tcp = bytes([sport >> 8, sport & 255, dport >> 8, dport & 255, 0, 0, 0, 1, 0, 0, 0, 1, 0x50, flags, 0xff, 0xff, 0, 0, 0, 0]) + payload
    total = 20 + len(tcp)
    ip = bytes([0x45, 0, total >> 8, total & 255, ipid >> 8, ipid & 255, 0x40, 0, 64, proto, 0, 0]) + bytes(src) + bytes(dst)
    return bytes([2, 0, 0, 0, 0, 2, 2, 0, 0, 0, 0, 1, 8, 0]) + ip + tcp


def run(tier, v):
    wd = vlib.workdir(PID)
    vlib.build_harness()
    K = set(vlib.known_devs(PID))
    rng = random.Random(vlib.seed())
    # ---- A
    statesA = transA = 0
    scens = ["c18_cap0", "c18_cap1", "c18_cap2", "c18_tcp", "c18_tls"] + (["c18_3w"] if tier == "thorough" else [])
    for s in scens:
        r = vlib.tlc("MC_Pool", pid=PID, workers=8, env={"VERIF_SCEN": s}, timeout=1800)
        if r.inv_violated:
            raise vlib.ToolError("Pool.tla violates %s in scenario %s" % (r.inv_violated, s))
        # no shutdown in these scenarios; with queues of capacity 0 nothing is ever queued, so no worker takes anything
        vlib.require_no_zero_actions(r, ignore=("Shutdown", "WGone") + (("WRecv", "WFill", "WFillDone", "WProc") if s == "c18_cap0" else ()))
        statesA += r.distinct
        transA += r.generated
    r = vlib.tlc("MC_Pool", pid=PID, workers=8, env={"VERIF_SCEN": "c10_directed"}, timeout=1800)
    if r.inv_violated != "SequentialEquivalence":
        raise vlib.ToolError("anti-vacuity: the mis-routed pool model should violate SequentialEquivalence, got %s" % r.inv_violated)
    # ---- B affinity
    fams = []

    def sink(tag, o):
        fams.append(o)
    rB = vlib.tlc("MC_C18", pid=PID, workers=8, tag_sink=sink, timeout=1800, coverage=False)
    ns = list(range(1, 65))
    req = os.path.join(wd, "hash.req")
    vlib.write_ndjson(req, [{"id": 0, "op": "hash", "ns": ns, "frames": [bytes(f["frame"]).hex() for f in fams]}])
    hout = os.path.join(wd, "hash.out")
    vlib.run_hv("pool", req, hout)
    rows = next(vlib.read_ndjson(hout))["rows"]
    trace = os.path.join(wd, "affinity.trace.ndjson")
    n_rows = 0
    with open(trace, "w") as f:
        for crate in ("tcp", "http", "tls"):
            for ni, n in enumerate(ns):
                groups = {}
                for fam, row in zip(fams, rows):
                    if "panic" in row:
                        continue
                    w = row[crate][ni]
                    if crate == "tls" and w < 0:
                        continue            # the tls pool drops frames whose flow it cannot read: no worker at all
                    cls = "ihl<5" if (fam["ihl"] < 5) else "regular"
                    for c in (["regular"] if cls == "regular" else []) + ["all"]:
                        groups.setdefault((fam["ident"][crate], c), []).append(w)
                f.write(json.dumps({"crate": crate, "n": n, "groups": [{"ident": k[0], "cls": k[1], "workers": sorted(set(ws))} for k, ws in sorted(groups.items())]}) + "\n")
                n_rows += 1
    for fam, row in zip(fams, rows):
        if "panic" in row:
            v.violation({"part": "affinity", "frame": bytes(fam["frame"]).hex(), "observed": "panic: " + row["panic"]})
    # ---- the identity as the crate's own packet parser sees it: whatever frame a crate's parser reads as TCP over IP, its dispatch hash
    # must place by the identity read there (sender address / directed / undirected 4-tuple) -- parser and hash may not disagree about
    # where the IP header starts.  Frames: the families above plus connections with independently drawn features under the three
    # capture framings, frames behind link-layer headers the parsers do not know, and noise (lib/props/traffic.py)
    from props import traffic, c10
    ipid = [0]

    def nid():
        ipid[0] += 1
        return ipid[0]
    xframes = [bytes(f["frame"]) for f in fams]
    for link in ("eth", "raw", "null", "bsd"):
        for c in range(24 if tier == "thorough" else 10):
            for fr in traffic.connection(rng, 1200 + c, ("http", "tls", "tcp")[c % 3], nid, maxpieces=3)["frames"]:
                if link == "bsd":
                    # the BSD loopback header with the address family in host order (AF_INET 2; AF_INET6 24 / 28): not a framing the
                    # parsers know today -- if a parser reads it, its hash has to as well
                    xframes.append((b"\x02\x00\x00\x00" if fr[12:14] == b"\x08\x00" else (b"\x18\x00\x00\x00", b"\x1c\x00\x00\x00")[c % 2]) + fr[14:])
                else:
                    xframes.append(c10.relink(fr, link))
    xframes += traffic.unreadable(rng, nid, 36) + traffic.noise(rng, nid, 30)
    # fixed frames of the recorded finding's input class (raw IP, sender 134.221.69.54, 40 octets: read as raw IP by the parsers, placed by
    # a whole-frame hash by the dispatchers), so that its KNOWN-FINDING line does not depend on the seed
    xframes += [traffic.pkt(4, (134, 221, 69, 54), (10, 2, 0, 2), 50310, 80, 100 + k, k, fl, ipid=nid())[14:] for k, fl in enumerate((0x02, 0x10, 0x11, 0x04, 0x10))]
    xreq = os.path.join(wd, "hash2.req")
    vlib.write_ndjson(xreq, [{"id": 0, "op": "hash", "ns": ns, "frames": [f.hex() for f in xframes]}])
    xout = os.path.join(wd, "hash2.out")
    vlib.run_hv("pool", xreq, xout)
    xrows = next(vlib.read_ndjson(xout))["rows"]
    n_seen = 0
    with open(trace, "a") as f:
        for crate in ("tcp", "http", "tls"):
            for ni, n in enumerate(ns):
                groups = {}
                for fr, row in zip(xframes, xrows):
                    if "panic" in row:
                        continue
                    idn = row["seen"][crate]
                    if idn is None:
                        continue
                    if crate == "tls" and row[crate][ni] < 0:
                        continue            # discarded by the tls pool (too short for its hash): no worker at all
                    n_seen += ni == 0
                    groups.setdefault(idn, set()).add(row[crate][ni])
                f.write(json.dumps({"crate": crate, "n": n, "groups": [{"ident": "as parsed: " + k, "cls": "parser", "workers": sorted(ws)} for k, ws in sorted(groups.items())]}) + "\n")
                n_rows += 1
    for fr, row in zip(xframes, xrows):
        if "panic" in row:
            v.violation({"part": "affinity", "frame": fr.hex(), "observed": "panic: " + row["panic"]})
    r2 = vlib.tlc("TV_C18a", pid=PID, workers=8, env={"TRACE": trace}, timeout=1800, heap="10g")
    if tier == "thorough":
        def mut(rows):
            r_ = json.loads(json.dumps(rows[-1]))
            r_["groups"][0]["workers"] = sorted(set(r_["groups"][0]["workers"] + [(r_["groups"][0]["workers"][0] + 1) % max(2, r_["n"])]))
            return rows[:3] + [r_], "one identity is recorded with two different workers"
        v.binding.append(vlib.binding_demo("TV_C18a", trace, mut, PID, workers=4, timeout=900, heap="4g"))
    seen_bad = set()
    for b in r2.lines.get("BAD", []):
        key = (b["crate"], b["ident"], b["cls"])
        if b["cls"] == "all" and (b["crate"], b["ident"], "regular") not in {(x["crate"], x["ident"], x["cls"]) for x in r2.lines.get("BAD", [])}:
            if "D18_ihl_lt_5" in K:
                v.known_hit("D18_ihl_lt_5", "the %s dispatch hash reads the ports at 4 x IHL: frames of one connection with an IPv4 header length below 5 go to other workers" % b["crate"])
                continue
        if b["cls"] == "parser" and "D10_raw_ethertype_lookalike" in K and any(a.startswith(("8.0.", "134.221.", "2001:db8:800:", "2001:db8:86dd:")) for a in b["ident"][len("as parsed: "):].replace("~", "|").replace(">", "|").split("|")):
            # recorded finding: without a link-layer header, octets 12-13 of such a sender's frames read 08 00 / 86 dd; parser and hash both
            # try the Ethernet framing first and fall back differently
            v.known_hit("D10_raw_ethertype_lookalike", "raw-IP capture, sender address beginning 08 00 / 86 dd at frame offset 12 (e.g. 8.0.x.y, 134.221.x.y): the packet parser and the %s dispatch hash disagree about the framing of some of the connection's frames" % b["crate"])
            continue
        if key in seen_bad:
            continue
        seen_bad.add(key)
        v.violation({"part": "affinity", "crate": b["crate"], "workers": b["n"], "identity": b["ident"], "frames_considered": b["cls"], "worker_indices_returned": b["workers"]})
    # ---- C accounting
    runs = []
    lines = []
    combos = [(c, nw, qs, bs, nd) for c in ("tcp", "http", "tls") for nw in (1, 2, 4) for qs in (0, 1, 4) for bs in (1, 3) for nd in (1, 3)]
    if tier != "thorough":
        combos = [x for i, x in enumerate(combos) if i % 3 == vlib.seed() % 3]
    ipid = 0
    for (crate, nw, qs, bs, nd) in combos:
        disp = []
        ident = {}
        unroutable = 0
        for d in range(nd):
            frames = []
            for k in range(12):
                ipid += 1
                conn = rng.randrange(4)
                rev = rng.random() < 0.4
                a, b = (10, 9, d, conn + 1), (10, 8, 0, 1)
                pa, pb = 30000 + conn, 80
                kind = rng.random()
                if kind < 0.08:
                    fr = frame(a, b, pa, pb, ipid, proto=17)            # not TCP
                elif kind < 0.12:
                    fr = frame(a, b, pa, pb, ipid)[:30]                 # truncated inside the IP header
                else:
                    fr = frame(b, a, pb, pa, ipid, payload=b"x" * (k % 5)) if rev else frame(a, b, pa, pb, ipid, flags=0x02 if k == 0 else 0x18, payload=b"y" * (k % 7))
                tag = fnv(fr)
                src = b if (rev and kind >= 0.12) else a
                if crate == "tcp":
                    idn = "src:" + ".".join(map(str, src)) if kind >= 0.12 else "frame:" + tag
                elif crate == "tls":
                    idn = "flow:%s:%s" % (d, conn) + (":r" if rev else "") if kind >= 0.12 else "frame:" + tag
                else:
                    idn = "conn:%s:%s" % (d, conn) if kind >= 0.12 else "frame:" + tag
                if kind < 0.08 and crate == "http":
                    idn = "src:" + ".".join(map(str, a))                # http hashes non-TCP frames by source address
                ident[tag] = idn
                frames.append(fr.hex())
            disp.append(frames)
        i = len(runs)
        runs.append({"crate": crate, "nw": nw, "queue": qs, "batch": bs, "ident": ident, "frames": disp})
        lines.append({"id": i, "crate": crate, "workers": nw, "queue": qs, "batch": bs, "timeout_ms": 5, "dispatchers": disp, "perturb": vlib.seed() * 1000 + i + 1, "matcher": False})
    preq = os.path.join(wd, "pool.req")
    vlib.write_ndjson(preq, lines)
    pout = os.path.join(wd, "pool.out")
    vlib.run_hv("pool", preq, pout, timeout=3000)
    ptrace = os.path.join(wd, "pool.trace.ndjson")
    n_ev = n_runs = n_drop = 0
    with open(ptrace, "w") as f:
        for o in vlib.read_ndjson(pout):
            run_ = runs[o["id"]]
            if "panic" in o:
                v.violation({"part": "accounting", "run": {k: run_[k] for k in ("crate", "nw", "queue", "batch")}, "observed": "panic: " + o["panic"]})
                continue
            if o.get("skipped"):
                continue
            if o["timed_out"]:
                if any(w["q"] for w in o["stats"]["workers"]):
                    v.violation({"part": "accounting", "run": {k: run_[k] for k in ("crate", "nw", "queue", "batch")}, "observed": "packets reported queued are still in a queue after 30 s: their worker no longer takes packets"})
                    continue
                # the queues are empty, yet fewer packets were taken up by workers than were reported queued: packets vanished
                nq = sum(1 for oc in o["outcomes"] for x in oc if x == "queued")
                nt = sum(1 for e in o["events"] if e["kind"] == 0)
                v.violation({"part": "accounting", "run": {k: run_[k] for k in ("crate", "nw", "queue", "batch")}, "reported_queued": nq, "analysed": nt,
                             "counted_dropped": o["stats"]["dropped"], "observed": "%d packets reported queued left the queue without being analysed or counted as dropped" % (nq - nt)})
                continue
            n_runs += 1
            f.write(json.dumps({"k": "reset", "crate": run_["crate"], "nw": run_["nw"], "run": o["id"]}) + "\n")
            unroutable = 0
            for e in sorted(o["events"], key=lambda e: e["seq"]):
                n_ev += 1
                if e["kind"] == 0:
                    f.write(json.dumps({"k": "wp", "p": e["tag"], "w": e["w"], "id": run_["ident"].get(e["tag"], "?"), "run": o["id"]}) + "\n")
                elif e["kind"] == 1:
                    f.write(json.dumps({"k": "ds", "p": e["tag"], "run": o["id"]}) + "\n")
                else:
                    f.write(json.dumps({"k": "de", "p": e["tag"], "o": "queued" if e["kind"] == 2 else "dropped", "run": o["id"]}) + "\n")
                    n_drop += e["kind"] == 3
            if run_["crate"] == "tls":
                # frames the tls pool cannot route are dropped without counting as dispatched
                unroutable = sum(1 for fr in sum(run_["frames"], []) if len(fr) // 2 < 54 or bytes.fromhex(fr)[23] != 6)
            f.write(json.dumps({"k": "st", "dispatched": o["stats"]["dispatched"], "dropped": o["stats"]["dropped"], "unroutable": unroutable, "run": o["id"]}) + "\n")
    # ---- accounting under load: 8 dispatcher threads x thousands of calls at once (not recorded one by one, so that nothing keeps the
    # threads apart), queues that overflow and queues that do not; the counters must be exactly the ones the outcomes imply
    slines, smeta = [], []
    base_frames = [frame((10, 9, d, c + 1), (10, 8, 0, 1), 30000 + c, 80, (d * 16 + c) & 0xffff, flags=0x18, payload=b"z" * c).hex() for d in range(8) for c in range(6)]
    for crate in ("tcp", "http", "tls"):
        for qs in (2, 8192):
            smeta.append({"crate": crate, "queue": qs})
            slines.append({"id": len(slines), "crate": crate, "workers": 3, "queue": qs, "batch": 4, "timeout_ms": 5, "matcher": False, "perturb": 0, "record": False,
                           "rounds": 1500 if tier == "thorough" else 400, "dispatchers": [base_frames[d * 6:(d + 1) * 6] for d in range(8)]})
    # the consumer of the results goes away while packets are still being dispatched (its receiver is dropped after the first packets):
    # the workers leave when they find the channel closed; every packet refused from then on is reported dropped AND counted
    for crate in ("tcp", "http", "tls"):
        for nw_ in (1, 2, 4):
            smeta.append({"crate": crate, "queue": 64, "consumer_gone_after": 4, "workers": nw_})
            slines.append({"id": len(slines), "crate": crate, "workers": nw_, "queue": 64, "batch": 2, "timeout_ms": 5, "matcher": False, "perturb": 0, "rxdrop": 4, "gap_us": 300,
                           "dispatchers": [base_frames * 3]})
    sreq = os.path.join(wd, "stress.req")
    vlib.write_ndjson(sreq, slines)
    sout = os.path.join(wd, "stress.out")
    vlib.run_hv("pool", sreq, sout, timeout=3000)
    strace = os.path.join(wd, "stress.trace.ndjson")
    n_stress = 0
    with open(strace, "w") as f:
        for o in vlib.read_ndjson(sout):
            m_ = smeta[o["id"]]
            if "panic" in o:
                v.violation({"part": "accounting under load", "run": m_, "observed": "panic: " + o["panic"]})
                continue
            if o.get("skipped"):
                continue
            nq = sum(1 for oc in o["outcomes"] for x in oc if x == "queued")
            nd = sum(1 for oc in o["outcomes"] for x in oc if x != "queued")
            n_stress += nq + nd
            f.write(json.dumps({"crate": m_["crate"], "queue": m_["queue"], "nq": nq, "nd": nd, "unroutable": 0, "taken": sum(1 for e in o.get("events", []) if e["kind"] == 0), "gone": "rxdrop" in o,
                                "dispatched": o["stats"]["dispatched"], "dropped": o["stats"]["dropped"], "worker_dropped": sum(w["dropped"] for w in o["stats"]["workers"])}) + "\n")
    r4 = vlib.tlc("TV_C18b", pid=PID, workers=1, env={"TRACE": strace}, timeout=600, coverage=False)
    for b in r4.lines.get("BAD", []):
        v.violation({"part": "accounting under load" if not b["gone"] else "accounting when the consumer of the results has gone away (receiver dropped after 4 packets)", "crate": b["crate"], "queue_size": b["queue"], "dispatch_calls_that_returned_queued": b["nq"], "returned_dropped": b["nd"], "packets_taken_by_workers": b["taken"],
                     "stats_total_dispatched": b["dispatched"], "stats_total_dropped": b["dropped"], "sum_of_per_worker_dropped": b["worker_dropped"]})
    r3 = vlib.tlc("TV_Pool", pid=PID, workers=1, dfs=True, env={"TRACE": ptrace}, timeout=1800, coverage=False)
    if tier == "thorough":
        def mut2(rows):
            # keep the first run only and repeat one worker-packet event: a packet analysed twice
            first = [r_ for r_ in rows if r_["run"] == rows[0]["run"]]
            k = next(i for i, r_ in enumerate(first) if r_["k"] == "wp")
            return first[:k + 1] + [first[k]] + first[k + 1:], "one worker-packet event of the first pool run is duplicated (a packet analysed twice)"
        v.binding.append(vlib.binding_demo("TV_Pool", ptrace, mut2, PID, workers=1, dfs=True, timeout=900))
    vd = (r3.lines.get("VERDICT") or [{"ok": False, "unmatched": "no verdict"}])[-1]
    if not vd["ok"]:
        ev = vd.get("unmatched")
        run_ = runs[ev["run"]] if isinstance(ev, dict) and "run" in ev else None
        v.violation({"part": "accounting", "first_event_the_pool_model_cannot_take": ev, "events_matched": vd.get("matched"),
                     "run": {k: run_[k] for k in ("crate", "nw", "queue", "batch")} if run_ else None, "trace": ptrace})
    return v.finish("model_checking", {
        "states": statesA + r2.distinct + r3.distinct, "transitions": transA + r2.generated + r3.generated,
        "traces_validated_against_impl": n_runs + n_rows, "evaluations": n_ev + len(fams) * len(ns) * 3, "distinct_nontrivial": n_drop + len(fams),
        "rule": "model: scenarios %s; affinity: %d frames (5 identities x direction x variants) x 64 worker counts x 3 crates; accounting: %d pool runs (crate x workers 1/2/4 x queue 0/1/4 x batch 1/3 x 1/3 dispatchers, "
                "perturbed), %d recorded events, %d dropped dispatches; non-trivial = dropped dispatches + frames hashed" % (scens, len(fams), n_runs, n_ev, n_drop),
        "samples": [{"pool_run": {k: runs[0][k] for k in ("crate", "nw", "queue", "batch")}}, {"affinity_frame": bytes(fams[0]["frame"]).hex(), "identity": fams[0]["ident"]}],
        "exhaustive": False, "pool_model_states": statesA,
    }, ["identities are the ones the driver built the frames with (source address / directed / undirected 4-tuple)", "per-crate counter conventions as in Pool.tla: total_dispatched counts queued (tcp) or attempts (http, tls)",
        "before shutdown only", "worker index taken from the worker thread's name by hook H2"])


def replay(path, v):
    return run("quick", v)
