"""C12 — match distances obey signature semantics.

A  MC_C12 (ASSUMEs): Match.tla's definitions satisfy the laws on bounded domains, and the model sees the recorded defect.
B  MC_C12 vectors: per bundled/generated signature its instances and 1-3-field perturbations with the distance Match
   assigns -> real calculate_distance / get_quality_score.
C  TV_C12: exhaustive implementation tables (TTL form pairs, window form pairs, header-list pairs, software strings,
   both score tables over all 2^32 distances) judged entry by entry by TLC against the laws."""
import json, os
import vlib

PID = "C12"
B8 = [0, 1, 2, 31, 32, 33, 63, 64, 65, 127, 128, 129, 254, 255]
B16 = [0, 1, 2, 255, 256, 257, 511, 512, 1024, 1459, 1460, 1461, 2920, 4096, 5840, 8191, 8192, 16383, 16384, 32768, 65534, 65535]


def ttl_obs(tier):
    vals = range(256) if tier == "thorough" else B8
    ds = range(32) if tier == "thorough" else [0, 1, 30, 31]
    o = []
    for a in vals:
        o += [{"k": "value", "a": a, "b": 0}, {"k": "guess", "a": a, "b": 0}, {"k": "bad", "a": a, "b": 0}]
        o += [{"k": "dist", "a": a, "b": b} for b in ds]
    return o


def win_obs(tier):
    u8 = range(256) if tier == "thorough" else [0, 1, 2, 4, 44, 255]
    o = [{"k": "mss", "n": n} for n in u8] + [{"k": "mtu", "n": n} for n in u8]
    o += [{"k": "value", "n": n} for n in B16] + [{"k": "mod", "n": n} for n in B16]
    return o


H = lambda n, v=None, opt=False: {"opt": opt, "name": n, "val": [] if v is None else [v]}
OBS_ALPHA = [H("A"), H("A", "x"), H("B"), H("B", "y"), H("C"), H("C", "")]
SIG_ALPHA = [H("A"), H("A", opt=True), H("A", "x"), H("A", "x", True), H("B"), H("B", opt=True), H("B", "y"), H("B", "y", True),
             H("C", opt=True), H("C", ""), H("D", opt=True)]
SW = ["", "a", "b", "ab", "ba", "aa", "aab", "abab", "Firefox/", "Mozilla/5.0 Firefox/3.0", "Fire", "Apache", "apache",
      # long strings that share their first 63 / 64 / 65 characters
      "Z" * 63, "Z" * 64, "Z" * 65, "Z" * 64 + "tail", "pre" + "Z" * 64 + "post", "Z" * 64 + "tail-and-more", "Z" * 200]


def run(tier, v):
    wd = vlib.workdir(PID)
    vlib.build_harness()
    K = set(vlib.known_devs(PID))
    # ---- signatures exported by the code's own loader (validated by C06)
    sigs = os.path.join(wd, "sigs.ndjson")
    req = os.path.join(wd, "req.ndjson")
    vlib.write_ndjson(req, [{"op": "db_sigs", "id": 0}])
    vlib.run_hv("db", req, sigs)
    # ---- A + B
    vec = os.path.join(wd, "vectors.ndjson")
    exp = {}
    with open(vec, "w") as f:
        def sink(tag, o):
            i = len(exp)
            exp[i] = o
            if o["kind"] == "tcp":
                f.write(json.dumps({"op": "tcp_dist", "id": i, "sig": o["sig"], "obs": o["obs"]}) + "\n")
            else:
                f.write(json.dumps({"op": "http_dist", "id": i, "sig": o["sig"], "obs": o["obs"], "resp": o["resp"]}) + "\n")
        r1 = vlib.tlc("MC_C12", pid=PID, workers=8, tag_sink=sink, env={"SIGS": sigs}, timeout=1800)
    if r1.inv_violated:
        raise vlib.ToolError("Match.tla: an enumerated instance is not at distance 0 under the definition (%s)" % r1.inv_violated)
    out = os.path.join(wd, "vectors.out")
    vlib.run_hv("db", vec, out)
    n_cases = n_inst = n_rej = n_pen = 0
    samples = []
    for o in vlib.read_ndjson(out):
        e = exp[o["id"]]
        if "panic" in o:
            v.violation({"part": "composite", "sig": e["sig"], "observed": "panic: " + o["panic"]})
            continue
        for k, (want, got, q) in enumerate(zip(e["exp"], o["d"], o["q"])):
            n_cases += 1
            n_inst += k < e["ninst"]
            n_rej += want < 0
            n_pen += want > 0
            ok = got == want and (want != 0 or q == 100) and (want <= 0 or (5 <= q < 100))
            if ok:
                continue
            if e["kind"] == "http" and got == e["alt"][k] and "D12_sw_reversed" in K:
                v.known_hit("D12_sw_reversed", "an observed software string that contains the signature's token is not an instance: distance_expsw tests signature.contains(observed)")
                continue
            v.violation({"part": "composite", "kind": e["kind"], "sig": e["sig"], "obs": e["obs"][k], "is_instance": k < e["ninst"],
                         "expected_distance": want, "observed_distance": got, "observed_quality_x100": q})
        if len(samples) < 2:
            samples.append({"sig": e["sig"], "obs": e["obs"][-1], "expected_distance": e["exp"][-1]})
    # ---- C: exhaustive tables
    treq = os.path.join(wd, "tables.req")
    vlib.write_ndjson(treq, [
        {"op": "ttl_table", "id": 1, "obs": ttl_obs(tier)},
        {"op": "win_table", "id": 2, "obs": win_obs(tier), "mss": [-1, 0, 1, 2, 64, 255, 256, 536, 1460, 65535], "u16": B16},
        {"op": "hdr_table", "id": 3, "obs_alpha": OBS_ALPHA, "sig_alpha": SIG_ALPHA, "maxlen": 3},
        {"op": "sw_table", "id": 4, "strs": SW},
        {"op": "score_table", "id": 5},
    ])
    tout = os.path.join(wd, "tables.out")
    vlib.run_hv("db", treq, tout)
    trace = os.path.join(wd, "tables.trace.ndjson")
    entries = 0
    nrows = 0
    with open(trace, "w") as f:
        f.write(json.dumps({"t": "meta", "obs_alpha": OBS_ALPHA, "sig_alpha": SIG_ALPHA, "maxlen": 3, "u16": B16, "strs": SW}) + "\n")
        for o in vlib.read_ndjson(tout):
            if "panic" in o:
                v.violation({"part": "table", "op": o["op"], "observed": "panic: " + o["panic"]})
                continue
            t = {"ttl_table": "ttl", "win_table": "win", "hdr_table": "hdr", "sw_table": "sw"}.get(o["op"])
            if t:
                for row in o["rows"]:
                    row["t"] = t
                    entries += sum(c for _, c in row["runs"]) if "runs" in row else len(row["d"])
                    nrows += 1
                    f.write(json.dumps(row) + "\n")
            else:
                for which in ("tcp", "http"):
                    f.write(json.dumps({"t": "score", "which": which, "breaks": o[which]}) + "\n")
                    nrows += 1
                    entries += 2 ** 32
    r2 = vlib.tlc("TV_C12", pid=PID, workers=16 if tier == "thorough" else 8, env={"TRACE": trace}, timeout=3000, heap="12g")
    if tier == "thorough":
        def mut(rows):
            meta_row = rows[0]
            k = next(i for i, r_ in enumerate(rows) if r_.get("t") == "score")
            r_ = json.loads(json.dumps(rows[k]))
            r_["breaks"][0]["q"] = 99          # distance 0 no longer scores 1.0
            return [meta_row, r_], "the recorded quality of distance 0 is lowered to 0.99"
        v.binding.append(vlib.binding_demo("TV_C12", trace, mut, PID, workers=4, timeout=900, heap="6g"))
    for b in r2.lines.get("BAD", []):
        v.violation({"part": "table", "entry": b})
    for k in r2.lines.get("KNOWN", []):
        if k["dev"] in K:
            v.known_hit(k["dev"], "distance_expsw(observed=%r, signature=%r) = %d" % ("<observed>", "<token>", k["d"]) if False else
                        "software-string table: observed string containing the token is not at distance 0 (signature.contains(observed))")
        else:
            v.violation({"part": "table", "entry": k})
    if r2.inv_violated:
        raise vlib.ToolError("TV_C12 invariant evaluation failed")
    return v.finish("model_checking", {
        "states": r1.distinct + r2.distinct, "transitions": r1.generated + r2.generated,
        "traces_validated_against_impl": nrows + len(exp),
        "evaluations": n_cases + entries, "distinct_nontrivial": n_rej + n_pen + n_inst,
        "rule": "composite: %d (signature, observation) pairs from MC_C12 (%d instances, %d decisive perturbations that must be rejected, %d penalised perturbations); "
                "tables: %d rows / %d entries of the real distance functions incl. both score tables over all 2^32 distances, each entry judged by TLC. "
                "non-trivial = instances + rejected + penalised composite cases" % (n_cases, n_inst, n_rej, n_pen, nrows, entries),
        "samples": samples, "exhaustive": tier == "thorough",
    }, ["Match.tla's laws (TtlLaw, WinLaw, HdrLaw, SwLaw, QualityLaw) are the reading of the property; penalties 2/2/2/1/2 and 3 are the constants documented in the source",
        "the score tables are scanned over all 2^32 distances by the harness; TLC judges the breakpoints",
        "header-list indices are decoded identically by the harness (Rust) and TV_C12 (TLA+)"])


def replay(path, v):
    return run("quick", v)
