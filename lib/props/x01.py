"""X01 (extension, not one of the twenty listed properties) — link-layer framing: the packet parsers and
`detect_datalink_format` of the four crates follow Datalink.tla.

A  MC_X01: on ordinary frames (well-formed, untruncated, ordinary leading bytes) of each link type the parser's decision
   and the detector's answer agree and name that link type (law checked by TLC).
B  every frame of MC_X01's space (framing x version x header length x version nibble x leading bytes that look like another
   framing x truncation points) is given to parse_packet and detect_datalink_format of all four crates; the extracted
   version/addresses and the detector's answer must be the ones Datalink.tla computes.
The frames on which the two decisions DISAGREE by design of the code (different order of attempts, different validation) are
counted and listed in the evidence: they are an observation about the code, not a violation of a listed property."""
import json, os
import vlib

PID = "X01"


def run(tier, v):
    wd = vlib.workdir(PID)
    vlib.build_harness()
    exp = {}
    vec = os.path.join(wd, "vec.ndjson")
    with open(vec, "w") as f:
        def sink(tag, o):
            exp[o["i"]] = o
            f.write(json.dumps({"id": o["i"], "frame": o["frame"]}) + "\n")
        r = vlib.tlc("MC_X01", pid=PID, workers=8, tag_sink=sink, timeout=1800, coverage=False)
    if r.inv_violated:
        raise vlib.ToolError("Datalink.tla: ordinary frames are not recognised consistently by the model (%s)" % r.inv_violated)
    out = os.path.join(wd, "obs.ndjson")
    vlib.run_hv("dl", vec, out)
    n = n_dis = 0
    classes = {}
    for o in vlib.read_ndjson(out):
        e = exp[o["id"]]
        if "panic" in o:
            v.violation({"frame": bytes(e["frame"]).hex(), "observed": "panic: " + o["panic"]})
            continue
        for crate, res in o["res"].items():
            n += 1
            want_view = {"ver": e["view"]["ver"], "src": e["view"]["src"], "dst": e["view"]["dst"]}
            if res["view"] != want_view or res["detect"] != e["detect"]:
                v.violation({"crate": crate, "case": e["x"], "frame": bytes(e["frame"]).hex(), "specified_view": want_view, "observed_view": res["view"],
                             "specified_detect": e["detect"], "observed_detect": res["detect"]})
        if not e["agree"]:
            n_dis += 1
            k = "parser=%s detector=%s" % (e["fmt"], e["detect"])
            classes.setdefault(k, {"n": 0, "example": bytes(e["frame"]).hex()[:80], "case": e["x"]})["n"] += 1
    return v.finish("model_checking", {
        "states": r.distinct, "transitions": r.generated, "traces_validated_against_impl": len(exp), "evaluations": n, "distinct_nontrivial": len(exp),
        "rule": "every case of MC_X01 (%d frames) x 4 crates; the parser's view and the detector's answer compared with Datalink.tla" % len(exp),
        "samples": [{"frames_on_which_parser_and_detector_disagree": n_dis, "classes": classes}],
    }, ["extension beyond the listed properties; the disagreement classes are reported, not judged", "the typed IP views exist from 20 (IPv4) / 40 (IPv6) bytes on (pnet)"])


def replay(path, v):
    return run("quick", v)
