"""X05 (extension, not one of the twenty listed properties) — the HTTP request diagnosis (`anonymous` / `none` / `generic` /
`dishonest`) follows Diagnosis.tla.

A  MC_X05: TLC walks the four-step machine (request seen -> label matched -> ua_os rule chosen -> diagnosis) to its end for every
   case of the space (User-Agent vocabulary x label names x matched or not x rule lists in different orders) and checks the laws
   (step-wise machine = function; `anonymous` exactly without a User-Agent; the chosen rule is the FIRST of the database line whose
   needle occurs; p0f's reading and the code's differ only where a rule carries a pattern).
B  every finished behaviour is replayed into the real analyzers: a database text with that `ua_os` line and one [http:request]
   label, a connection carrying the request, over IPv4 and IPv6, through HuginnNetHttp and the unified HuginnNet; the diagnosis
   printed for the request must be the one the machine ended in.
The cases in which the code's reading differs from p0f's (`X05_name_as_needle`) are counted in the evidence: an observation about
the code, not a violation of a listed property."""
import json, os
import vlib
from props import traffic as T

PID = "X05"
SPELL = [str, str.upper, str.title, lambda s: s[:1].upper() + s[1:]]


def db_text(e, i):
    rules = ",".join(r["k"] + ("=" + r["v"] if r["v"] else "") for r in e["rules"])
    req = e["req"]
    name = SPELL[i % len(SPELL)](req["label"]) if req["matched"] else "Other"
    # the request below is HTTP/1.1: a `0:` signature cannot match it, a `*:` one with an optional User-Agent does
    sig = "*:Host,?User-Agent,Accept=[*/*]:::" if req["matched"] else "0:Host:::"
    return "classes = win,unix,other\n" + ("ua_os = %s\n" % rules if rules else "") + "\n[http:request]\nlabel = s:!:%s:flavour\nsys = Linux\nsig = %s\n" % (name, sig)


def frames(ver, req, c):
    if ver == 4:
        cip, sip = (10, 1, c >> 8 & 255, c & 255), (10, 2, 0, 1)
    else:
        cip, sip = T.V6FORMS[0](c), T.V6FORMS[0](7)
    cp = 20000 + c % 30000
    o = b"\x02\x04\x05\xb4"
    return [T.pkt(ver, cip, sip, cp, 80, 100, 0, 0x02, tcpopts=o, ipid=1), T.pkt(ver, sip, cip, 80, cp, 500, 101, 0x12, tcpopts=o, ipid=2),
            T.pkt(ver, cip, sip, cp, 80, 101, 501, 0x18, req, ipid=3),
            T.pkt(ver, sip, cip, 80, cp, 501, 101 + len(req), 0x18, b"HTTP/1.1 200 OK\r\nServer: Linux Windows iPad\r\nContent-Length: 0\r\n\r\n", ipid=4)]


def run(tier, v):
    wd = vlib.workdir(PID)
    vlib.build_harness()
    cases = []
    r = vlib.tlc("MC_X05", pid=PID, workers=4, tag_sink=lambda tag, o: cases.append(o), timeout=900)
    if r.inv_violated:
        raise vlib.ToolError("Diagnosis.tla: a law of the model fails (%s)" % r.inv_violated)
    lines, meta = [], {}
    for i, e in enumerate(cases):
        q = e["req"]
        head = b"GET /x%d HTTP/1.1\r\nHost: h.example\r\n" % i + (b"User-Agent: " + q["ua"].encode() + b"\r\n" if q["hasUa"] else b"") + b"Accept: */*\r\n\r\n"
        db = db_text(e, i)
        for ver in (4, 6):
            for crate in ("http", "uni"):
                if crate == "uni" and not q["db"]:
                    continue        # the unified analyzer refuses "no database" unless its matcher is switched off: C20's ground
                k = len(lines)
                meta[k] = (i, ver, crate)
                lines.append({"id": k, "crate": crate, "frames": [f.hex() for f in frames(ver, head, i + 1)], "db": db, "matcher": q["db"]})
    req = os.path.join(wd, "x05.req")
    vlib.write_ndjson(req, lines)
    out = os.path.join(wd, "x05.out")
    vlib.run_hv("ana", req, out, timeout=1800, env={"HV_PCAP_DIR": os.path.join(wd, "pcap")})
    n = 0
    seen = {}
    for o in vlib.read_ndjson(out):
        i, ver, crate = meta[o["id"]]
        e = cases[i]
        ctx = {"front_end": crate, "ip": ver, "user_agent": e["req"]["ua"] if e["req"]["hasUa"] else None, "ua_os": [x["k"] + ("=" + x["v"] if x["v"] else "") for x in e["rules"]],
               "label_matched": e["req"]["matched"], "label": e["req"]["label"], "specified": e["diag"]}
        if "panic" in o or not o.get("ok", False):
            v.violation(dict(ctx, observed=o.get("panic") or o.get("err") or "analysis failed"))
            continue
        got = [x["req"] for x in o["results"] if x.get("req")]
        n += 1
        if len(got) != 1:
            v.violation(dict(ctx, observed="%d request results" % len(got)))
            continue
        resp = [x["resp"] for x in o["results"] if x.get("resp")]
        if len(resp) != 1 or resp[0]["diagnosis"] != "none":
            v.violation(dict(ctx, specified="one response, diagnosis none", observed=[x["diagnosis"] for x in resp]))
        g = got[0]
        labelled = g.get("browser") is not None
        if labelled != e["req"]["matched"]:
            # the harness database did not behave as the case says: my own construction is wrong, not the code
            raise vlib.ToolError("X05 case %d: label matched=%s, expected %s" % (i, labelled, e["req"]["matched"]))
        if g["diagnosis"] != e["diag"]:
            v.violation(dict(ctx, observed=g["diagnosis"]))
        seen[e["diag"]] = seen.get(e["diag"], 0) + 1
    differ = [e for e in cases if e["diag"] != e["p0f"]]
    ex = [{"user_agent": e["req"]["ua"], "ua_os": [x["k"] + ("=" + x["v"] if x["v"] else "") for x in e["rules"]], "label": e["req"]["label"], "code": e["diag"], "p0f": e["p0f"]} for e in differ[:4]]
    return v.finish("model_checking", {
        "states": r.distinct, "transitions": r.generated, "traces_validated_against_impl": len(lines), "evaluations": n, "distinct_nontrivial": len(cases),
        "rule": "every finished behaviour of MC_X05 (%d) x IPv4/IPv6 x HuginnNetHttp/HuginnNet; printed diagnosis = end state of the machine" % len(cases),
        "samples": [{"diagnoses_seen": seen, "cases_in_which_code_and_p0f_readings_differ": len(differ), "examples": ex}],
    }, ["extension beyond the listed properties", "X05_name_as_needle (the rule's name, not its pattern, is searched in the User-Agent) is specified as the code behaves and reported, not judged",
        "ua_os lines with bracketed patterns are avoided here: their loading is C06's D06_ua_os_truncated"])


def replay(path, v):
    return run("quick", v)
