#!/bin/bash
# seeded_some_par.sh "<check> <check> ..." : the seeded changes caught by the named checks, in two parts side by side
cd /verif
export ONLY="$1"
PART="0 2" lib/seeded_all_scratch.sh > /root/scratch/some.0.txt 2>&1 &
PART="1 2" lib/seeded_all_scratch.sh > /root/scratch/some.1.txt 2>&1 &
wait
cat /root/scratch/some.0.txt /root/scratch/some.1.txt | sort
