#!/bin/sh
# Runs the repository's suite with the hook guard OFF and prints pass/fail counts
# (baseline: 464 pass, 1 always-failing: huginn-net-tls golden_tests::test_golden_pcap_snapshots).
cd "${1:-/repo}" || exit 2
out=$(cargo test --workspace --no-fail-fast --offline 2>&1)
pass=$(printf '%s\n' "$out" | grep -c '^test .* \.\.\. ok$')
fail=$(printf '%s\n' "$out" | grep '^test .* \.\.\. FAILED$')
nfail=$(printf '%s\n' "$fail" | grep -c FAILED)
echo "passed=$pass failed=$nfail"
printf '%s\n' "$fail"
[ "$pass" -ge 464 ] && [ "$nfail" -le 1 ]
