#!/bin/bash
# seeded_scratch.sh <seeddir> <check>... : like seeded.sh, but on a scratch worktree of /repo (so that /repo stays untouched
# while other runs are using it).  Work files and evidence of such runs go under /root/scratch.
set -u
S=$1; shift
W=/root/scratch/repo-seed        # fixed path: the scratch harness build under /root/scratch/hv-* is reused between seeds
mkdir -p /root/scratch
git -C /repo worktree add --detach $W HEAD -q || exit 2
trap 'git -C /repo worktree remove --force $W; git -C /repo worktree prune' EXIT   # when done with a batch: rm -rf /root/scratch
git -C $W apply /verif/seeded/$S/patch.diff || exit 2
for c in "$@"; do
  out=$(cd /verif && VERIF_REPO=$W ./check $c ${TIER:-quick} 2>&1); rc=$?
  echo "$S $c (scratch) exit=$rc violations=$(echo "$out" | grep -c '^VIOLATION')"
  [ $rc -eq 2 ] && echo "$out" | tail -3
done
