#!/bin/bash
# seeded_all_par.sh : the whole table of seeded changes in two parts side by side (two scratch worktrees, two scratch harness copies)
cd /verif
PART="0 2" lib/seeded_all_scratch.sh > /root/scratch/matrix.0.txt 2>&1 &
PART="1 2" lib/seeded_all_scratch.sh > /root/scratch/matrix.1.txt 2>&1 &
wait
cat /root/scratch/matrix.0.txt /root/scratch/matrix.1.txt | sort
