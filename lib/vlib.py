"""Shared machinery for /verif/check: harness build, TLC runs, evidence, verdicts.

Everything that *decides* a property is TLA+ evaluated by TLC; this module only
sequences tools, moves ndjson between them and counts.
Exit codes: 0 held, 1 violation (VIOLATION line + replay file), 2 tool error.
"""
import json, os, re, subprocess, sys, time, hashlib, shutil, threading

ROOT = os.path.dirname(os.path.dirname(os.path.abspath(__file__)))
REPO = os.environ.get("VERIF_REPO", "/repo")
SPEC = os.path.join(ROOT, "spec")
HARNESS = os.path.join(ROOT, "harness")
# runs against a scratch checkout (VERIF_REPO) keep their work files and evidence apart from the real ones
_SCRATCH = None if REPO == "/repo" else os.path.join("/root/scratch", "run-" + hashlib.sha1(REPO.encode()).hexdigest()[:10])
EVID = os.path.join(ROOT, "evidence") if _SCRATCH is None else os.path.join(_SCRATCH, "evidence")
REPLAYS = os.path.join(EVID, "replays")
KNOWN_FILE = os.path.join(ROOT, "known_findings.json")


class ToolError(Exception):
    pass


def seed():
    try:
        return int(os.environ.get("VERIF_SEED", "1"))
    except ValueError:
        return 1


def workdir(pid):
    d = os.path.join(ROOT if _SCRATCH is None else _SCRATCH, ".work", pid)
    os.makedirs(d, exist_ok=True)
    return d


def log(*a):
    print(*a, file=sys.stderr, flush=True)


# --------------------------------------------------------------------------- harness

_built = None


def build_harness():
    """Rebuild the harness against REPO's current working tree (hooks on)."""
    global _built
    if _built:
        return _built
    hdir = HARNESS
    if REPO != "/repo":
        # scratch copy of the harness pointing at another checkout (mutation runs)
        tag = hashlib.sha1(REPO.encode()).hexdigest()[:10]
        hdir = os.path.join("/root/scratch", "hv-" + tag)
        os.makedirs(hdir, exist_ok=True)
        for name in ("src", ".cargo", "Cargo.lock"):
            s = os.path.join(HARNESS, name)
            d = os.path.join(hdir, name)
            if os.path.isdir(s):
                if os.path.exists(d):
                    shutil.rmtree(d)
                shutil.copytree(s, d)
            else:
                shutil.copy(s, d)
        txt = open(os.path.join(HARNESS, "Cargo.toml")).read().replace('"/repo/', '"%s/' % REPO)
        open(os.path.join(hdir, "Cargo.toml"), "w").write(txt)
    t0 = time.time()
    env = dict(os.environ, CARGO_NET_OFFLINE="true")
    p = subprocess.run(["cargo", "build", "--release", "--offline", "--quiet"], cwd=hdir, env=env,
                       stdout=subprocess.PIPE, stderr=subprocess.STDOUT, text=True)
    if p.returncode != 0:
        log(p.stdout[-4000:])
        raise ToolError("harness build failed")
    log("[build] harness %.1fs (%s)" % (time.time() - t0, REPO))
    _built = os.path.join(hdir, "target", "release", "hv")
    return _built


def run_hv(mode, in_path, out_path, args=(), timeout=3600, env=None):
    """Run the harness in `mode`: ndjson in -> ndjson out. Returns wall seconds."""
    exe = build_harness()
    t0 = time.time()
    e = dict(os.environ)
    e["VERIF_SEED"] = str(seed())
    if env:
        e.update(env)
    with open(in_path, "rb") if in_path else open(os.devnull, "rb") as fi, open(out_path, "wb") as fo:
        p = subprocess.run([exe, mode] + list(args), stdin=fi, stdout=fo, stderr=subprocess.PIPE, timeout=timeout, env=e)
    if p.returncode != 0:
        log(p.stderr.decode(errors="replace")[-4000:])
        raise ToolError("harness mode %s exited %d" % (mode, p.returncode))
    return time.time() - t0


def run_hv_split(mode, in_path, out_path, parts=6, args=(), timeout=3600, env=None):
    """run_hv with the request lines dealt round-robin to `parts` harness processes running side by side (each request line is
    independent; a process has its own hook recorder and clock).  Output lines are concatenated."""
    with open(in_path) as f:
        lines = [l for l in f if l.strip()]
    if len(lines) < parts * 4:
        return run_hv(mode, in_path, out_path, args, timeout, env)
    import concurrent.futures
    t0 = time.time()
    ins = []
    for k in range(parts):
        pi = "%s.part%d" % (in_path, k)
        with open(pi, "w") as f:
            f.writelines(lines[k::parts])
        ins.append(pi)
    with concurrent.futures.ThreadPoolExecutor(parts) as ex:
        futs = [ex.submit(run_hv, mode, pi, pi + ".out", args, timeout, env) for pi in ins]
        for fu in futs:
            fu.result()
    with open(out_path, "wb") as fo:
        for pi in ins:
            with open(pi + ".out", "rb") as f:
                fo.write(f.read())
            os.remove(pi)
            os.remove(pi + ".out")
    return time.time() - t0


def binding_demo(module, trace_path, mutate, pid, rejected=None, env_key="TRACE", **tlc_kw):
    """Binding demonstration (thorough tier): a copy of the recorded trace with ONE field corrupted (or one event removed) by
    `mutate(rows) -> (rows', what)` must be rejected by the trace-validation module.  `rejected(result)` decides (default:
    the module printed a BAD line or a failed VERDICT).  Returns a sentence for the evidence; raises ToolError if the corrupted
    trace is accepted (the specification would then not be bound to what the harness records)."""
    rows = list(read_ndjson(trace_path))
    rows2, what = mutate(rows)
    bad = trace_path + ".corrupt"
    write_ndjson(bad, rows2)
    env = dict(tlc_kw.pop("env", {}) or {})
    env[env_key] = bad
    r = tlc(module, pid=pid, env=env, coverage=False, **tlc_kw)
    if rejected is None:
        def rejected(res):
            vd = res.lines.get("VERDICT")
            return bool(res.lines.get("BAD")) or bool(res.inv_violated) or bool(vd and not vd[-1].get("ok", True))
    if not rejected(r):
        raise ToolError("binding demonstration failed: %s accepted a trace in which %s" % (module, what))
    os.remove(bad)
    return "binding: %s rejects the recorded trace once %s" % (module, what)


def read_ndjson(path):
    with open(path) as f:
        for line in f:
            line = line.strip()
            if line:
                yield json.loads(line)


def write_ndjson(path, rows):
    n = 0
    with open(path, "w") as f:
        for r in rows:
            f.write(json.dumps(r, separators=(",", ":")))
            f.write("\n")
            n += 1
    return n


# --------------------------------------------------------------------------- TLC

class TlcResult:
    def __init__(self):
        self.generated = 0
        self.distinct = 0
        self.depth = 0
        self.ok = False              # finished without error
        self.inv_violated = None     # name of violated invariant / property
        self.error = None
        self.coverage = {}           # action name -> (distinct, total)
        self.zero_actions = []
        self.out_path = None
        self.wall = 0.0
        self.trace = []              # counterexample states (text)
        self.lines = {}              # tag -> list of json objects printed with PrintT("TAG {json}")
        self.postcondition_failed = False


_TAG_RE = re.compile(r'^"([A-Z][A-Z_0-9]*) (.*)"$')


def tlc(module, cfg=None, pid="misc", workers=4, timeout=1800, env=None, simulate=None, depth=None,
        coverage=True, deadlock=False, heap="6g", tags=("REPLAY", "VERDICT", "STAT", "SAMPLE", "KNOWN", "BAD"),
        tag_sink=None, dfs=False, stack="1g", extra_java=()):
    """Run TLC on spec/<module>.tla with spec/<cfg>.cfg. Output lines of the form
    "TAG {json}" (PrintT of a TLA+ string) are parsed and collected per tag (or streamed to
    tag_sink(tag, obj) when given)."""
    wd = workdir(pid)
    meta = os.path.join(wd, "tlc-%s-%d" % (module, os.getpid()))
    if os.path.exists(meta):
        shutil.rmtree(meta)
    cfg = cfg or module
    jopts = ["-Xss" + stack, "-XX:+UseParallelGC", "-Xmx" + heap]
    if dfs:
        jopts.append("-Dtlc2.tool.queue.IStateQueue=StateDeque")
    jopts += list(extra_java)
    cmd = ["java"] + jopts + ["-cp", "/opt/veriftools/tla/tla2tools.jar:/opt/veriftools/tla/CommunityModules-deps.jar",
                              "tlc2.TLC", "-workers", str(workers), "-metadir", meta, "-cleanup", "-noGenerateSpecTE",
                              "-seed", str(seed()), "-config", cfg + ".cfg"]
    if coverage:
        cmd += ["-coverage", "1"]
    if not deadlock:
        cmd += ["-deadlock"]
    if simulate:
        cmd += ["-simulate", "num=%d" % simulate]
    if depth:
        cmd += ["-depth", str(depth)]
    cmd += [module + ".tla"]
    e = dict(os.environ)
    if env:
        e.update({k: str(v) for k, v in env.items()})
    res = TlcResult()
    res.out_path = os.path.join(wd, "tlc-%s.out" % module)
    t0 = time.time()
    proc = subprocess.Popen(cmd, cwd=SPEC, env=e, stdout=subprocess.PIPE, stderr=subprocess.STDOUT, text=True, bufsize=1 << 20)
    timer = threading.Timer(timeout, proc.kill)
    timer.start()
    in_trace = False
    tagset = set(tags)
    try:
        with open(res.out_path, "w") as fo:
            for line in proc.stdout:
                s = line.rstrip("\n")
                m = _TAG_RE.match(s) if s.startswith('"') else None
                if m and m.group(1) in tagset:
                    try:
                        obj = json.loads(json.loads(s)[len(m.group(1)) + 1:])
                    except Exception as ex:  # malformed -> tool error
                        raise ToolError("bad %s line from TLC: %s (%s)" % (m.group(1), s[:200], ex))
                    if tag_sink:
                        tag_sink(m.group(1), obj)
                    else:
                        res.lines.setdefault(m.group(1), []).append(obj)
                    continue
                fo.write(line)
                if "states generated" in s and "distinct states found" in s:
                    mm = re.search(r"(\d+) states generated, (\d+) distinct states found", s)
                    if mm:
                        res.generated, res.distinct = int(mm.group(1)), int(mm.group(2))
                elif s.startswith("The depth of the complete state graph search is"):
                    res.depth = int(re.search(r"is (\d+)", s).group(1))
                elif s.startswith("Error: Invariant ") and "is violated" in s:
                    res.inv_violated = re.search(r"Invariant (\S+) is violated", s).group(1)
                elif s.startswith("Error: Temporal property ") and "was violated" in s:
                    res.inv_violated = res.inv_violated or re.search(r"Temporal property (\S+) was violated", s).group(1)
                elif "Error: Action property" in s or "Error: Temporal properties were violated" in s:
                    res.inv_violated = res.inv_violated or "property"
                elif s.startswith("Error:") and res.error is None and "is violated" not in s:
                    if "The behavior up to this point is" in s:
                        in_trace = True
                    else:
                        res.error = s
                elif s.startswith("Model checking completed. No error has been found"):
                    res.ok = True
                elif "Postcondition" in s and "violated" in s.lower():
                    res.postcondition_failed = True
                elif s.startswith("State ") and in_trace is not None:
                    res.trace.append(s)
                else:
                    mc = re.match(r"^<(\w+) line \d+, col \d+ to line \d+, col \d+ of module (\w+)>: (\d+):(\d+)", s)
                    if mc:
                        name = mc.group(1)
                        res.coverage[name] = (int(mc.group(3)), int(mc.group(4)))
        proc.wait()
    finally:
        timer.cancel()
    res.wall = time.time() - t0
    if os.path.exists(meta):
        shutil.rmtree(meta, ignore_errors=True)
    if proc.returncode is not None and proc.returncode < 0:
        raise ToolError("TLC killed/timeout on %s" % module)
    res.returncode = proc.returncode
    if simulate and proc.returncode == 0:
        res.ok = True
    res.zero_actions = [a for a, (d, t) in res.coverage.items() if t == 0]
    if not res.ok and res.inv_violated is None and not res.postcondition_failed:
        tail = subprocess.run(["tail", "-30", res.out_path], stdout=subprocess.PIPE, text=True).stdout
        raise ToolError("TLC failed on %s (%s): %s\n%s" % (module, cfg, res.error, tail))
    return res


def require_no_zero_actions(res, ignore=()):
    z = [a for a in res.zero_actions if a not in ignore]
    if z:
        raise ToolError("vacuous model run: actions never taken: %s" % z)


# --------------------------------------------------------------------------- known findings

def known():
    with open(KNOWN_FILE) as f:
        k = json.load(f)
    return k


def known_devs(pid):
    """Deviation ids listed as (unfixed) findings for this property."""
    return sorted({f["deviation"] for f in known().get("findings", []) if pid in f["properties"]})


# --------------------------------------------------------------------------- verdicts / evidence

class Verdict:
    def __init__(self, pid, tier):
        self.pid, self.tier = pid, tier
        self.t0 = time.time()
        self.violations = []
        self.known_hits = {}
        self.n_replay = 0
        self.binding = []          # sentences from binding_demo (thorough tier), appended to the evidence's assumptions

    def violation(self, obj):
        os.makedirs(REPLAYS, exist_ok=True)
        self.n_replay += 1
        path = os.path.join(REPLAYS, "%s-%d.json" % (self.pid, self.n_replay))
        if self.n_replay <= 20:
            with open(path, "w") as f:
                json.dump(dict(obj, property=self.pid, seed=seed(), tier=self.tier), f, indent=1, default=str)
            print("VIOLATION property=%s replay=%s" % (self.pid, path), flush=True)
        self.violations.append(path)

    def known_hit(self, dev, what):
        if dev not in self.known_hits:
            self.known_hits[dev] = [0, what]
        self.known_hits[dev][0] += 1

    def finish(self, level, coverage, assumptions):
        for dev, (n, what) in sorted(self.known_hits.items()):
            print("KNOWN-FINDING: property=%s %s %s (%d cases this run)" % (self.pid, dev, what, n), flush=True)
        os.makedirs(EVID, exist_ok=True)
        coverage = dict(coverage)
        coverage["known_finding_hits"] = {d: n for d, (n, _) in self.known_hits.items()}
        ev = {
            "property_id": self.pid, "tier": self.tier, "seed": seed(), "level": level,
            "coverage": coverage, "assumptions": list(assumptions) + list(self.binding),
            "wall_s": round(time.time() - self.t0, 2), "violations": len(self.violations),
        }
        with open(os.path.join(EVID, self.pid + ".json"), "w") as f:
            json.dump(ev, f, indent=1, default=str)
        if self.violations:
            log("[%s] %d violation(s)" % (self.pid, len(self.violations)))
            return 1
        log("[%s] held (%s, %.1fs)" % (self.pid, self.tier, time.time() - self.t0))
        return 0


def clean_replays(pid):
    if os.path.isdir(REPLAYS):
        for n in os.listdir(REPLAYS):
            if n.startswith(pid + "-"):
                os.unlink(os.path.join(REPLAYS, n))
