#!/bin/bash
# seeded_list_scratch.sh "<seed>:<check>[,<check>...]" ... : like seeded_all_scratch.sh for a chosen list (one scratch worktree for the batch)
cd /verif
W=/root/scratch/repo-seed
mkdir -p /root/scratch
git -C /repo worktree add --detach $W HEAD -q || exit 2
trap 'git -C /repo worktree remove --force $W; git -C /repo worktree prune' EXIT
for item in "$@"; do
  s=${item%%:*}; cks=${item#*:}; cks=${cks//,/ }
  git -C $W apply /verif/seeded/$s/patch.diff 2>/dev/null || { echo "$s patch does not apply"; git -C $W checkout -q -- .; continue; }
  for c in $cks; do
    out=$(VERIF_REPO=$W ./check $c ${TIER:-quick} 2>&1); rc=$?
    echo "$s $c (scratch) exit=$rc violations=$(echo "$out" | grep -c '^VIOLATION')"
    [ $rc -eq 2 ] && echo "$out" | tail -3
  done
  git -C $W checkout -q -- . ; git -C $W clean -fdq
done
