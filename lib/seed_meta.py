#!/usr/bin/env python3
"""seed_meta.py <seeddir> <first_run: detected|missed|detected-by:Cxx> <strengthening text>: write seeded/<dir>/meta.json from the
agent's meta, my confirmation log and the recorded check runs"""
import json, sys, os, glob
sd, first, strength = sys.argv[1], sys.argv[2], sys.argv[3] if len(sys.argv) > 3 else "none needed"
d = "/verif/seeded/" + sd
pid = sd[:3]
am = json.load(open(d + "/agent_meta.json"))
runs = {}
for f in sorted(glob.glob(d + "/runs/*.quick.txt")):
    c = os.path.basename(f).split(".")[0]
    runs[c] = sum(1 for l in open(f) if l.startswith("VIOLATION"))
meta = {"property": pid, "summary": am.get("summary"), "needs": am.get("needs"), "files": am.get("files"),
        "origin": "independent sub-agent given only the property text, a hint which change had already been tried, and a scratch worktree of /repo (nothing from /verif)",
        "confirmed_by_me": {"how": "lib/confirm_seed.sh in the scratch worktree: patch applied -> demo test fails; suite passes (only the known failing tls golden test; load-sensitive pool tests re-run alone); patch reverted -> demo passes",
                            "log": open(d + "/confirm.log").read().splitlines()},
        "checks_run": {"command": "lib/seeded.sh %s <check>  (git -C /repo apply patch.diff; ./check <check> quick; git -C /repo checkout -- .)" % sd,
                       "first_run": first, "strengthening": strength, "last_recorded_runs_violation_lines": runs}}
json.dump(meta, open(d + "/meta.json", "w"), indent=1)
print(sd, "ok")
