#!/usr/bin/env python3
"""Regenerates /verif/MANIFEST.json from the table below (single place to edit)."""
import json, os
ROOT = os.path.dirname(os.path.dirname(os.path.abspath(__file__)))

CHECKS = {
 "C14": dict(
    level="model_checking", design="§5 C14",
    technique="TLA+ definition (Filter.tla) model-checked by TLC; TLC-generated vectors replayed into FilterConfig::should_process of all three crates",
    text="TLC evaluates the documented filter rule (Filter.tla) on every configuration x endpoint of a bounded vocabulary, checks the rule's algebraic laws on the definition, and the same exhaustive table is demanded bit for bit from the real should_process of the tcp/http/tls crates built from /repo. Exhaustive within the vocabulary, which contains every boundary the statement names (ports 0/65535, empty/reversed/full ranges, prefix 0/1/31/32/64/65/127/128, v4/v6, side selection, any-port, allow/deny, every subset of sub-filters).",
    note="Trusted: TLC, the transcription of the documented rule in Filter.tla, the harness's builder calls. Bounded vocabulary (MC_C14.tla)."),
 "C06": dict(
    level="model_checking", design="§5 C06",
    technique="TLA+ vocabulary/printer (P0fVocab.tla) and loader state machine (DbLoad.tla) explored by TLC; vectors replayed into Display/FromStr/Database::from_str; bundled p0f.fp validated as a trace of DbLoad (TV_C06)",
    text="TLC enumerates signature values over the p0f vocabulary with their canonical text (checking that printing is injective) and every database text of bounded length as a behaviour of the loader model with the structure it must yield or its rejection; the real Display/FromStr/Database::from_str are held to those results, every bundled signature line must re-print to itself, and the bundled file as a whole is trace-validated against the loader model so that its 323 signatures, MTU groups, classes and ua rules must sit exactly where the file puts them.",
    note="Trusted: TLC, P0fVocab.Print* as the canonical text, the 40-line lexer that splits p0f.fp into key/value events, harness JSON<->struct conversion. Bounded vocabulary and line pool."),
 "C12": dict(
    level="model_checking", design="§5 C12",
    technique="TLA+ distance definitions and laws (Match.tla) checked by TLC; exhaustive implementation tables (TTL/window/header/software/score over all 2^32 distances) validated entry by entry by TLC (TV_C12); TLC-generated instance/perturbation vectors replayed into calculate_distance",
    text="The laws the property states (instance => 0 and quality 1.0, decisive difference => rejected, same-form difference => exactly the field's penalty, quality antitone within [0.05,1.0] and 1.0 only at 0) are written in Match.tla, checked by TLC on the reference definitions, and then every entry of lossless tables computed by the real distance functions over whole domains is judged by TLC against them; composite distances are checked on instances and 1-3-field perturbations of all 323 bundled and extra generated signatures.",
    note="Trusted: TLC, the laws/penalty constants of Match.tla, the harness's table scan. Quick uses boundary subsets of the TTL/window domains, thorough the full 8-bit domains."),
 "C02": dict(
    level="model_checking", design="§5 C02",
    technique="TLA+ model of index keys and best-match selection (Match.tla) model-checked by TLC (IndexTransparent); TLC-generated databases replayed through Database::from_str + find_best_match; recorded lookups trace-validated by TLC (TV_C02: reported = SelectBest(distances of all entries))",
    text="TLC proves on the index model that candidate lookup equals a full scan for every database of up to three signatures over a vocabulary mixing wildcard and concrete IP version, payload class and HTTP version, and shows the model rejects the historical HTTP `*` defect; the same databases (as p0f text, three label groupings, all four tables) and the bundled database are then queried through the real code, which reports its own distance for every entry, and TLC checks for every lookup that the reported entry is the first one of minimal distance with that distance's quality, and that nothing is reported iff nothing accepts.",
    note="Trusted: TLC, SelectBest in Match.tla, the implementation's calculate_distance as the scan oracle (judged separately by C12), pointer identity to locate the reported entry."),
 "C03": dict(
    level="model_checking", design="§5 C03",
    technique="TLA+ transcription of the p0f field definitions (TcpExtract.tla) with wire rendering (Frames.tla); TLC enumerates header classes, TTLs and option sequences and the expected observation; vectors replayed through parse_packet + process_ipv4/6_packet; exhaustive window-classification table validated by TLC (TV_C03W)",
    text="TLC enumerates the header space in factors (all 256 flag bytes x DF/ID/ECN/reserved/flow/seq/ack/urgent cases for IPv4 and IPv6; all 256 TTLs x version x payload x Ethernet/raw/loopback framing x IHL; all option sequences up to length 3 (4 in thorough) in four padding styles on SYN and SYN+ACK), renders each to wire bytes, and assigns role, every signature field, MTU and link label from the specification; the real analyzer must agree field by field, deviations being accepted only where a recorded finding predicts exactly that output. All 65536 windows per (MSS, header term, timestamp, version) case are classified by the real code and each checked by TLC.",
    note="Trusted: TLC, TcpExtract/Frames, harness projection. Window priority is CodeDerived. Quirks compared as sets. Malformed option areas are left to C01."),
 "C19": dict(
    level="model_checking", design="§5 C19",
    technique="TLA+ timestamp-tracker machine with exact arithmetic (Uptime.tla); TLC-generated scenarios (frames + scripted clock + acceptable outputs per segment) replayed into the real TCP analyzer through clock hook H1",
    text="The tracker (reference / bad marker per directed endpoint, guards on interval, tick difference and rate, documented rounding grid, uptime split, wrap period, role rule) is specified with exact integer arithmetic on u32 pairs; TLC generates every rate 1..1500 Hz and rates outside, at every interval around the 25 ms / 100 ms / 600 s bounds, from timestamp bases including the 2^31 and 2^32 wrap, three segments per endpoint (so that the never-moving reference and no-re-evaluation-after-bad are exercised), client and server interleaved; the real analyzer, with its clock scripted through the hook, must report an acceptable value under the right role at every segment.",
    note="Trusted: TLC, Uptime.tla, hook H1. Ties of rounding/tolerance comparisons accepted either way; backward-moving timestamps not judged. Real-time cache expiry (30 s) is not explored."),
 "C13": dict(
    level="model_checking", design="§5 C13",
    technique="TLA+ inverse of the extraction (Reach.tla: conforming packet per signature and grid choice, acceptable labels, code-model prediction) evaluated by TLC over the bundled database exported by the code's own loader; packets replayed through the real analyzer with the bundled matcher",
    text="For every TCP SYN and SYN+ACK signature of the bundled p0f.fp and every grid choice (IPv4/IPv6, hop counts, MSS and scale where open, ECN placement, payload) TLC builds the conforming packet, proves on the definitions that it conforms, and computes the acceptable labels (own, or an earlier entry the packet conforms to equally); the real analyzer must report one of them. A wrong or missing label is a violation unless the code model predicts exactly that label and every reason it gives is a recorded finding, so a signature that dies for a new reason is reported.",
    note="Trusted: TLC, Reach/TcpExtract/Match, harness projection. Grid is bounded (quick: 1 MSS, 1 scale, 2 hop counts; thorough: 4x3x4). HTTP signatures are covered by the HTTP half once built."),
 "C04": dict(
    level="model_checking", design="§5 C04",
    technique="TLA+ definition of JA4 with wire rendering of ClientHello (Ja4.tla); TLC checks permutation/GREASE invariance laws and generates hello bytes with the specified JA4 parts; replayed into parse_tls_client_hello + generate_ja4(_original) and the packet-level analyzer",
    text="The JA4 parts (a, b, c sorted and original, version selection, SNI flag, saturating counts, ALPN characters, GREASE removal, signature algorithms in wire order, empty-list rule) are defined in TLA+ over an abstract ClientHello that the same module renders to record bytes; TLC proves on the definition that the sorted parts are invariant under all 576 permutation pairs and GREASE insertions while the original parts follow the bytes, and every enumerated hello (version table, presence matrix, permutations, GREASE placements, sizes around 99, session-id/compression/unknown-extension variants) must be reported by the real code with exactly those strings, both through the parser API and through a one-segment connection.",
    note="Trusted: TLC, Ja4.tla, SHA-256 by Python hashlib on the spec's strings. ALPN restricted to alphanumeric first/last characters; extension bodies of known types are well-formed."),
 "C08": dict(
    level="model_checking", design="§5 C08",
    technique="TLA+ reassembly machine on lengths (TlsReasm.tla) model-checked by TLC over all ordered partitions (MC_C08); recorded outcomes of real ClientHello records cut at every position, through the reader API and the packet-level analyzer, trace-validated by TLC (TV_C08)",
    text="TLC explores every ordered partition of abstract client streams and checks exactly-once, on-the-completing-segment, nothing-before and nothing-for-other-records; real ClientHello records from the JA4 generator are then cut at every byte position (all 2-partitions, all 3-partitions of the shortest, seeded k-partitions with one-byte pieces, with tails and neighbouring records, two connections interleaved on one flow table) and every connection's per-segment outcome, including equality with the one-shot result, is validated by TLC against the machine.",
    note="Trusted: TLC, TlsReasm.tla, the one-shot parse as reference for `identical` (judged by C04). Per-worker path is exercised by C10."),
 "C05": dict(
    level="model_checking", design="§5 C05",
    technique="TLA+ definition of HTTP/1.x heads, their wire lines and their meaning incl. the p0f observation (Http1.tla); TLC enumerates heads with expected reports; each head replayed with a fixed set of bodies through HttpProcessors::parse_request/parse_response",
    text="TLC enumerates request and response heads (16 methods x targets x versions, status lines, every header list up to a bounded length over pools with case variants and duplicates, optional-whitespace variants, cookie lists, referer, Accept-Language lists with q-values, 98-100 headers) and assigns the report; the real parser must return exactly that report for each head combined with each of eight bodies (empty, text, header-looking lines after a blank line, LF LF, all byte values, compressed-looking bytes, a second request, UTF-8), which also establishes body independence.",
    note="Trusted: TLC, Http1.tla, harness projection. Heads are ASCII/CRLF; language table restricted to four languages in the spec."),
 "C09": dict(
    level="model_checking", design="§5 C09",
    technique="TLA+ reassembly machine on offsets (HttpReasm.tla) model-checked by TLC over all partitions x arrival orders x both directions (MC_C09); recorded per-segment outcomes of real connections (cuts, sequence origins incl. wrap, permutations) trace-validated by TLC (TV_C09)",
    text="TLC explores every ordered partition of both directions' streams under every arrival order and interleaving and checks never-before-complete, at-most-once, reported-when-complete and never-garbled; real request/response pairs are then cut at byte positions, given initial sequence numbers from small values to within one stream length of 2^32, delivered in order, swapped and in seeded permutations with both directions interleaved (and with holes), and each connection's per-segment outcome - reported or not, identical to the one-shot result or not, in the right direction - is validated by TLC against the machine; differences are accepted only on the input classes of the two recorded defects.",
    note="Trusted: TLC, HttpReasm.tla, the one-shot parse as reference (C05). No overlaps/retransmissions; HTTP/1.x messages."),
 "C16": dict(
    level="model_checking", design="§5 C16",
    technique="TLA+ HPACK encoder (Hpack.tla, tables generated from RFC 7541, checked against RFC appendix C) and HTTP/2 framing (Http2.tla); TLC enumerates representation choices x framings x control-frame prefixes with the expected report; replayed into HttpProcessors::parse_request/parse_response",
    text="The header list a block denotes is fixed by the encoder plan, so TLC can enumerate every representation per field (indexed, literal with/without/never indexing, name by index or literal, Huffman or plain, in-block dynamic references, table size updates incl. 0) and every framing (PADDED 0/1/7/255, PRIORITY, every single CONTINUATION cut and double cuts of the block, END_STREAM or not, control frames before and after, responses) and assign method, path, status, header list, cookies, referer, user agent, language and the p0f-style observation; the real parser must report exactly that for each rendered byte string.",
    note="Trusted: TLC, Hpack/Http2/Http1 specs, generated RFC tables, harness projection. Values printable ASCII; lists up to 12 fields."),
 "C17": dict(
    level="model_checking", design="§5 C17",
    technique="TLA+ definition of the Akamai fingerprint over abstract frame sequences and of the incremental extractor on offsets (Akamai.tla); TLC-generated connection starts replayed into extract_akamai_fingerprint_from_bytes; per-chunk returns of Http2FingerprintExtractor::add_bytes for every cut position trace-validated by TLC (TV_C17)",
    text="TLC enumerates client connection starts (SETTINGS with boundary and unknown ids and 32-bit values, first connection-level WINDOW_UPDATE with and without the reserved bit, PRIORITY frames incl. exclusive and 31-bit dependencies, HEADERS in every pseudo-header order with PADDED / PRIORITY / CONTINUATION framing, unusual frame orders, missing or repeated SETTINGS), with and without the preface, renders them to bytes and assigns the fingerprint of every frame prefix; the one-shot extractor must return it with the right truncated SHA-256, and for every byte cut position and seeded k-partitions the incremental extractor's per-chunk returns must be exactly what the offset machine assigns: one report, on the chunk completing the first SETTINGS frame, equal to the one-shot fingerprint of the bytes so far.",
    note="Trusted: TLC, Akamai/Http2/Hpack specs, SHA-256 by hashlib. A chunk boundary between a HEADERS frame and its CONTINUATION leaves the pseudo-header part unjudged (position still judged)."),
 "C10": dict(
    level="model_checking", design="§5 C10",
    technique="TLA+ worker-pool specification (Pool.tla: dispatch in three steps, bounded queues, batching workers, stateful abstract analysis) model-checked by TLC for SequentialEquivalence and termination over all interleavings; real pool runs (1..16 workers, batches, seeded schedule perturbation via hook H2, frozen clock H1) compared with the sequential analyzers, judged by TLC (TV_C10)",
    text="TLC explores every interleaving of the dispatcher's three steps with the receive / fill / process steps of 2-3 workers and shows that with connection-based routing and non-overflowing queues every packet is analysed with exactly the state a sequential analyzer would have, and that the historical direction-dependent HTTP routing breaks this; interleaved real traces of complete TCP, TLS and HTTP connections are then run through the sequential analyzers and through real pools with 1..16 workers, several batch sizes and per-run seeded perturbation, and TLC checks per connection (per sending host for TCP) that the delivered results are exactly the sequential ones in order.",
    note="Trusted: TLC, Pool.tla, hooks H1/H2, result attribution by reported endpoints. One dispatcher, large queues, no shutdown before drain."),
 "C18": dict(
    level="model_checking", design="§5 C18",
    technique="Pool.tla model-checked by TLC for at-most-once / dropped-never / queued-once / counters-agree under concurrent dispatchers and forced overflow; dispatch hashes evaluated on TLC-generated identity families for 1..64 workers and checked for functional dependency (TV_C18a); recorded global event order of real pool runs (hook H2) trace-validated against the pool's steps (TV_Pool)",
    text="TLC checks the accounting invariants on every interleaving of two concurrent dispatchers and 2-3 workers at queue capacities 0, 1 and 2 under each crate's counter convention; MC_C18 generates families of frames that share an identity while payload, flags, sequence numbers, TTL, IP id, TOS, window, IP header length 0..15, options, framing, truncation and direction vary, and for every worker count 1..64 the three real hash functions must be functions of the identity and valid indices; real pools are driven by 1-3 concurrent dispatcher threads with queue sizes 0/1/4 and perturbation, and the recorder's global order of dispatch-start, dispatch-end and worker-takes-packet events plus the final statistics must be a behaviour of the pool specification.",
    note="Trusted: TLC, Pool.tla / TV_Pool.tla, hook H2 (worker id from thread name, sequence numbers under the recorder lock). Before shutdown only."),
 "C15": dict(
    level="model_checking", design="§5 C15",
    technique="TLA+ frame shapes with the analyzer's endpoint view and Filter!ShouldProcess (MC_C15) evaluated by TLC, incl. a model of the filter's quick decoder that must agree on the design and disagree under the historical deviations; shapes x filter configurations replayed through analyze_pcap of the four analyzers and through worker pools, filtered run compared with the unfiltered run of the admitted sub-trace",
    text="TLC generates every framing (Ethernet, raw IP, loopback) x IPv4 header length 0..15 x IPv6 x TCP/non-TCP, each carrying a handshake, a one-segment ClientHello and an HTTP exchange in both directions, derives the endpoints the analyzer's own decoder sees and decides with the C14 filter specification which frames each of 13 configurations admits; the TCP, HTTP, TLS and unified analyzers (through their analyze_pcap front ends with with_filter) and filter-equipped worker pools must then report exactly what the unfiltered analyzer reports on the admitted sub-trace.",
    note="Trusted: TLC, Frames/Filter specs, harness pcap writer, hook H1. Only non-empty results compared; the tls pool is exercised with Ethernet/raw framing only (it routes nothing else)."),
 "C20": dict(
    level="model_checking", design="§5 C20",
    technique="TLA+ definition of the unified result as Merge(config, tcp, http, tls) (Unified.tla), masking laws checked by TLC over all configurations x presence patterns; per-packet records of the unified analyzer and of the three protocol analyzers on the same traces validated by TLC (TV_C20)",
    text="Unified.tla defines, field by field, what the unified analyzer must report given the three protocol analyzers' results for the same packet and the configuration (protocol switches, matcher switch, database present), including the all-enabled-accept condition and the constructor rule; TLC proves on the definition that disabling a protocol removes only its fields and that disabling matching only turns qualities into disabled; real traces (handshakes with timestamps under an advancing scripted clock, HTTP exchanges, one- and multi-segment hellos, IPv6, malformed, non-TCP and invalid-flag frames) are fed packet by packet to one unified analyzer per configuration (32) and to the protocol analyzers sharing only the clock, and TLC checks every packet's unified result against Merge.",
    note="Trusted: TLC, Unified.tla, harness projection to digests, hook H1. TLS endpoints not compared (the stateless TLS analyzer reports none)."),
 "C07": dict(
    level="model_checking", design="§5 C07",
    technique="TLA+ composition of per-connection machines with the HPACK table as the only candidate shared state (Analyzer.tla), all interleavings model-checked by TLC for NonInterference (and shown to fail with one shared table); TLC-enumerated interleavings of real connections replayed into the four analyzers, interleaved vs alone compared per connection (TV_C07)",
    text="TLC explores every order-preserving interleaving of connection scripts, including HTTP/2 blocks that insert into the dynamic table, reference entry 62 without inserting, or shrink the table to 0, and shows each connection's outputs equal its outputs alone with per-connection tables but not with one shared table; it then enumerates every interleaving of the packets of 2-3 real connections (TCP handshakes with timestamps, two-segment ClientHellos, an HTTP/1 exchange, four HTTP/2 connection starts rendered by the Hpack/Http2 specifications, adversarial ones included), each replayed into one HuginnNetHttp / HuginnNetTls / HuginnNetTcp / HuginnNet instance and each connection alone into a fresh instance, and checks per connection that the attributed result sequences are equal.",
    note="Trusted: TLC, Analyzer/Hpack/Http2 specs, result attribution by endpoints, hook H1. Quick tier samples up to 150 interleavings per connection set; thorough enumerates them."),
 "C11": dict(
    level="exploration", design="§5 C11",
    technique="TLA+ resource model and bounds (Resources.tla; design bounded, recorded deviations unbounded, checked by TLC); traces measured by a counting allocator on long adversarial connections through the HTTP, TLS, TCP and unified analyzers, every recorded event validated by TLC against the bounds (TV_C11)",
    text="Resources.tla states the bounds (retained <= base + connections x 256 KiB; allocated per packet <= 1 MiB + 64 x frame length) and a small model showing that buffering at most a fixed amount and examining the buffer once per packet satisfies them for every history length while unbounded storing / re-parsing does not; the harness's counting global allocator measures both quantities for every packet of connections of up to 2 000 (thorough 20 000) segments of 1 400 bytes that never yield a fingerprint (endless HTTP-looking head, TLS application data, non-ClientHello record then data, huge declared record, random bytes, endless body), in both directions, at capacity 1 and with capacity-many connections, and TLC checks every recorded event.",
    note="Measured, not proved: level `exploration`. Constants are this check's reading of the statement. Real-time TTL expiry not relied on."),
 "C01": dict(
    level="exploration", design="§5 C01",
    technique="TLA+-defined input space (Totality.tla / MC_C01: every TCP option (kind, length, position) encoding) plus exhaustive truncations, bit flips and byte overwrites of seeds rendered by the other specifications' Wire operators and of the repository's captures, and database text mutations; every public entry point driven under catch_unwind + watchdog with a fresh-equals-used probe every 50 inputs",
    text="The structured part of the input space is enumerated by TLC (every option kind x length byte 0..42 x position in option areas of every size, IPv4/IPv6, SYN/SYN+ACK, all framings in thorough); the byte-level part is every truncation, every single-bit flip and five overwrite values at every offset of frames, ClientHellos, HTTP/1 heads and HTTP/2 connection starts produced by the specifications plus capture frames, and token-level mutations of every database line; each input goes to the unified, TCP, HTTP and TLS packet paths, the raw filter, the dispatch hashes, the incremental reader and extractor, the one-shot parsers, the loader and worker pools; a panic, an overflow (checks on), a call that does not return within 5 s, or a well-formed probe connection that behaves differently on the used instance than on a fresh one is a violation.",
    note="Exploration of enumerated input classes, not a proof. Panics caught by catch_unwind; aborts would kill the harness (reported as tool error with the input batch)."),
}

NOT_YET = {}

def hook_commits():
    import subprocess
    out = subprocess.run(["git", "-C", "/repo", "log", "--format=%h %s"], capture_output=True, text=True).stdout.splitlines()
    return [l.split()[0] for l in out if "verif hook" in l]


def main():
    props = [json.loads(l) for l in open(os.path.join(ROOT, "properties.jsonl"))]
    checks = []
    na = []
    for p in props:
        pid = p["id"]
        if pid in CHECKS:
            c = CHECKS[pid]
            checks.append({
                "property_id": pid,
                "quick_cmd": "./check %s quick" % pid,
                "thorough_cmd": "./check %s thorough" % pid,
                "evidence_file": "/verif/evidence/%s.json" % pid,
                "replay_cmd_template": "./check %s --replay {path}" % pid,
                "engine": "tlc+hv",
                "level_claimed": {"category": c["level"], "text": c["text"], "design_ref": c["design"]},
                "level_note": c["note"],
                "technique": c["technique"],
            })
        else:
            na.append({"property_id": pid, "reason": NOT_YET.get(pid, "check not built yet in this round (planned: see DESIGN.md section 5); not a claim that the technique cannot apply")})
    m = {
        "version": 1,
        "setup_cmd": "cd /verif/harness && CARGO_NET_OFFLINE=true cargo build --release --offline",
        "hooks": {
            "guard": "--cfg huginn_net_verif",
            "enable": "RUSTFLAGS='--cfg huginn_net_verif' via /verif/harness/.cargo/config.toml (the harness builds /repo's crates as path dependencies)",
            "baseline_off_cmd": "cd /repo && cargo test --workspace --no-fail-fast --offline",
            "source_commits": hook_commits(),
            "add_only": True,
        },
        "engines": [
            {"name": "tlc", "path": "/verif/spec", "serves_properties": sorted(CHECKS), "kind_free_text": "TLA+ specification of huginn-net (one module per component, deviations as named clauses), model-checked by TLC; TLC also generates conformance vectors and validates recorded traces"},
            {"name": "hv", "path": "/verif/harness", "serves_properties": sorted(CHECKS), "kind_free_text": "Rust conformance harness: replays TLC vectors into the public API of /repo's crates and records ndjson events; contains no reference implementation"},
        ],
        "checks": checks,
        "not_applicable": na,
        "notes": "Driver: /verif/check <id> <tier>. Known findings: /verif/known_findings.json. Design: /verif/DESIGN.md (section 10: as built, findings, false alarms corrected, which check catches which of the seeded changes under /verif/seeded). Extensions beyond the listed properties (not in `checks`): ./check X01 (Datalink.tla: link-layer framing), ./check X02 (Tables.tla: flow tables at and beyond capacity), ./check X03 (Pool.tla life cycle: shutdown drains what was queued; TV_PoolLife validates real shutdowns), ./check X04 (Capture.tla: the capture-file front end returns on every file and delivers the readable prefix). Helpers: lib/run_all.sh <tier>, lib/seeded_all.sh, lib/seeded.sh <seed> <check>, lib/confirm_seed.sh.",
    }
    json.dump(m, open(os.path.join(ROOT, "MANIFEST.json"), "w"), indent=1)

if __name__ == "__main__":
    main()
