#!/bin/bash
# seeded_all_scratch.sh : every seeded change against the check(s) expected to catch it, on a scratch worktree (/repo stays free)
cd /verif
for d in seeded/*/; do
  s=$(basename $d)
  cks=${s:0:3}; [ -f $d/checks.txt ] && cks=$(cat $d/checks.txt)
  lib/seeded_scratch.sh $s $cks 2>&1 | grep -E "exit=|does not apply|error" | head -3
done
