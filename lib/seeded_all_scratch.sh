#!/bin/bash
# seeded_all_scratch.sh : every seeded change against the check(s) expected to catch it, on ONE scratch worktree that is kept for the
# whole batch (patch applied / reverted in place, so the scratch harness rebuilds incrementally); /repo stays free
cd /verif
# PART="i n": only the seeds whose position in the list is i modulo n (several parts can run side by side, each on its own worktree)
set -- ${PART:-0 1}
PI=$1; PN=$2
W=/root/scratch/repo-seed$PI
mkdir -p /root/scratch
git -C /repo worktree add --detach $W HEAD -q || exit 2
trap 'git -C /repo worktree remove --force $W; git -C /repo worktree prune' EXIT
k=-1
for d in seeded/*/; do
  s=$(basename $d)
  k=$((k+1)); [ $((k % PN)) -eq $PI ] || continue
  cks=${s:0:3}; [ -f $d/checks.txt ] && cks=$(cat $d/checks.txt)
  # ONLY="C02 C05 ...": only the seeds whose catching check is one of these
  if [ -n "${ONLY:-}" ]; then case " $ONLY " in *" $cks "*) ;; *) continue;; esac; fi
  git -C $W apply /verif/$d/patch.diff 2>/dev/null || { echo "$s patch does not apply"; git -C $W checkout -q -- .; continue; }
  for c in $cks; do
    out=$(VERIF_REPO=$W ./check $c ${TIER:-quick} 2>&1); rc=$?
    echo "$s $c (scratch) exit=$rc violations=$(echo "$out" | grep -c '^VIOLATION')"
    [ $rc -eq 2 ] && echo "$out" | tail -3
  done
  git -C $W checkout -q -- . ; git -C $W clean -fdq
done
