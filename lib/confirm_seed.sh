#!/bin/bash
# confirm_seed.sh <ID> [worktree] [outdir] : confirm a sub-agent's seeded change in its scratch worktree.
#  1. reset the worktree to the clean commit, apply patch.diff, copy the demo in
#  2. demo must FAIL with the patch; the suite must pass (only the known golden failure allowed)
#  3. patch reverted: demo must PASS
# On success stores /verif/seeded/<ID>/{patch.diff,seeded_demo.rs,meta.json,confirm.log}
set -u
ID=$1; WT=${2:-/tmp/seed/$ID}; OUT=${3:-/tmp/seed/$ID.out}; DEST=${4:-/verif/seeded/$ID}
export CARGO_NET_OFFLINE=true
crate=$(tr -d ' \n' < $OUT/demo_crate.txt)
log=$(mktemp)
cd $WT || exit 2
git checkout -q -- . ; git clean -fdq -e target
git apply --check $OUT/patch.diff || { echo "patch does not apply"; exit 2; }
git apply $OUT/patch.diff
cp $OUT/seeded_demo.rs $crate/tests/seeded_demo.rs
echo "== demo with patch (must fail)" | tee -a $log
cargo test -p $crate --test seeded_demo --offline 2>&1 | grep -E '^test |test result|panicked|error' | head -40 | tee -a $log
cargo test -p $crate --test seeded_demo --offline >/dev/null 2>&1 && { echo "DEMO PASSES WITH PATCH -> reject" | tee -a $log; exit 1; }
echo "== suite with patch" | tee -a $log
rm -f $crate/tests/seeded_demo.rs
cargo test --workspace --no-fail-fast --offline > $log.suite 2>&1
pass=$(grep -E '^test result' $log.suite | sed -E 's/.* ([0-9]+) passed.*/\1/' | paste -sd+ | bc)
fail=$(grep -E '^test result' $log.suite | sed -E 's/.* ([0-9]+) failed.*/\1/' | paste -sd+ | bc)
failed=$(grep -E '^test .* FAILED' $log.suite | tr '\n' ';')
echo "passed=$pass failed=$fail [$failed]" | tee -a $log
grep -q 'could not compile' $log.suite && { echo "DOES NOT COMPILE" | tee -a $log; exit 1; }
# tests other than the known golden failure: re-run each alone (the pool tests of the repository are timing-sensitive under load)
for t in $(grep -E '^test [^ ]+ \.\.\. FAILED' $log.suite | awk '{print $2}' | grep -v test_golden_pcap_snapshots | sort -u); do
  ok=0
  for k in 1 2 3; do cargo test --workspace --offline -- --exact "$t" 2>&1 | grep -E "^test $t \.\.\. FAILED" >/dev/null || { ok=1; break; }; done
  if [ $ok = 1 ]; then echo "re-run alone: $t passes (load-sensitive test)" | tee -a $log; else echo "SUITE FAILS ($t) -> reject" | tee -a $log; exit 1; fi
done
echo "== demo without patch (must pass)" | tee -a $log
git checkout -q -- . 
cp $OUT/seeded_demo.rs $crate/tests/seeded_demo.rs
cargo test -p $crate --test seeded_demo --offline 2>&1 | grep -E 'test result|error' | tee -a $log
cargo test -p $crate --test seeded_demo --offline >/dev/null 2>&1 || { echo "DEMO FAILS WITHOUT PATCH -> reject" | tee -a $log; exit 1; }
rm -f $crate/tests/seeded_demo.rs
mkdir -p $DEST
cp $OUT/patch.diff $OUT/seeded_demo.rs $DEST/
cp $OUT/meta.json $DEST/agent_meta.json
cp $log $DEST/confirm.log
echo "$crate" > $DEST/demo_crate.txt
echo CONFIRMED $ID
rm -f $log $log.suite
