#!/bin/bash
# run every seeded change against its own property's check (tier from $TIER, default quick); prints a table
cd /verif
for d in seeded/*/; do
  s=$(basename $d)
  git -C /repo apply --check /verif/$d/patch.diff 2>/dev/null || { echo "$s patch does not apply on current /repo"; continue; }
  lib/seeded.sh $s ${s:0:3} | grep exit=
done
