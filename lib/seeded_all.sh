#!/bin/bash
# run every seeded change against its own property's check (tier from $TIER, default quick); prints a table
cd /verif
for d in seeded/*/; do
  s=$(basename $d)
  git -C /repo apply --check /verif/$d/patch.diff 2>/dev/null || { echo "$s patch does not apply on current /repo"; continue; }
  # the check(s) that are expected to catch the change: its own property's, unless seeded/<id>/checks.txt names others
  cks=${s:0:3}; [ -f $d/checks.txt ] && cks=$(cat $d/checks.txt)
  lib/seeded.sh $s $cks | grep exit=
done
