#!/bin/bash
# clean_scratch.sh <check>... : run checks against a scratch worktree of /repo's HEAD (unchanged tree), with work files and
# evidence under /root/scratch, so that runs in /verif proper are not disturbed
W=/root/scratch/repo-clean
mkdir -p /root/scratch
git -C /repo worktree remove --force $W 2>/dev/null; git -C /repo worktree prune
git -C /repo worktree add --detach $W HEAD -q || exit 2
trap 'git -C /repo worktree remove --force $W; git -C /repo worktree prune' EXIT
for c in "$@"; do
  out=$(cd /verif && VERIF_REPO=$W ./check $c ${TIER:-quick} 2>&1); rc=$?
  echo "clean $c exit=$rc violations=$(echo "$out" | grep -c '^VIOLATION') known=$(echo "$out" | grep -c '^KNOWN')"
  [ $rc -ne 0 ] && echo "$out" | tail -4
done
