#!/bin/bash
# seeded.sh <seeded-dir-name> <check-id>... : apply a seeded change to /repo, run the quick checks, restore /repo.
# prints one line per check: <seed> <check> exit=<n> violations=<k>
set -u
S=$1; shift
P=/verif/seeded/$S/patch.diff
[ -z "$(git -C /repo status --porcelain)" ] || { echo "/repo not clean"; exit 2; }
git -C /repo apply $P || exit 2
trap 'git -C /repo checkout -- . ; git -C /repo clean -fdq' EXIT
for c in "$@"; do
  tier=${TIER:-quick}
  out=$(cd /verif && ./check $c $tier 2>&1); rc=$?
  v=$(echo "$out" | grep -c '^VIOLATION')
  echo "$S $c tier=$tier exit=$rc violations=$v"
  echo "$out" | grep -E '^VIOLATION' | head -3
  mkdir -p /verif/seeded/$S/runs
  echo "$out" | grep -E '^(VIOLATION|KNOWN-FINDING|C[0-9]+:|tool error|ERROR)' | head -40 > /verif/seeded/$S/runs/$c.$tier.txt
  # keep first replay as sample
  r=$(echo "$out" | grep -m1 -oE 'replay=\S+' | cut -d= -f2)
  [ -n "$r" ] && [ -f "$r" ] && cp "$r" /verif/seeded/$S/runs/$c.$tier.replay.json
done
